//! Quiet panic hook: expected panics (caught by the harness) are recorded per thread instead of printed.
use std::cell::RefCell;
use std::sync::Once;

#[derive(Clone, Debug, Default)]
pub struct PanicInfo {
    pub message: String,
    pub file: String,
    pub line: u32,
}

thread_local! {
    static LAST: RefCell<Option<PanicInfo>> = const { RefCell::new(None) };
}

static INSTALL: Once = Once::new();

pub fn install_quiet_hook() {
    INSTALL.call_once(|| {
        let verbose = std::env::var("VERIF_PANIC_VERBOSE").is_ok();
        let prev = std::panic::take_hook();
        std::panic::set_hook(Box::new(move |info| {
            let message = if let Some(s) = info.payload().downcast_ref::<&str>() {
                s.to_string()
            } else if let Some(s) = info.payload().downcast_ref::<String>() {
                s.clone()
            } else {
                "<non-string panic>".to_string()
            };
            let (file, line) = info
                .location()
                .map(|l| (l.file().to_string(), l.line()))
                .unwrap_or_default();
            LAST.with(|l| {
                *l.borrow_mut() = Some(PanicInfo { message, file, line });
            });
            if verbose {
                prev(info);
            }
        }));
    });
}

/// Take the last panic recorded on this thread.
pub fn take_last() -> Option<PanicInfo> {
    LAST.with(|l| l.borrow_mut().take())
}

pub fn clear() {
    LAST.with(|l| *l.borrow_mut() = None);
}
