//! Kernel-side oracles: the epoll table via /proc/self/fdinfo, poll(2) ground truth,
//! fd flags, fd counts, raw fd helpers.

use std::os::unix::io::RawFd;

pub const EPOLLIN: u32 = 0x001;
pub const EPOLLPRI: u32 = 0x002;
pub const EPOLLOUT: u32 = 0x004;
pub const EPOLLERR: u32 = 0x008;
pub const EPOLLHUP: u32 = 0x010;
pub const EPOLLRDHUP: u32 = 0x2000;
pub const EPOLLONESHOT: u32 = 1 << 30;
pub const EPOLLET: u32 = 1 << 31;

#[derive(Clone, Debug, PartialEq, Eq, PartialOrd, Ord)]
pub struct EpollEntry {
    pub tfd: RawFd,
    pub events: u32,
    pub data: u64,
}

/// Parse /proc/self/fdinfo/<epfd>: one entry per registered fd.
pub fn epoll_table(epfd: RawFd) -> Vec<EpollEntry> {
    let txt = std::fs::read_to_string(format!("/proc/self/fdinfo/{epfd}")).unwrap_or_default();
    let mut out = Vec::new();
    for line in txt.lines() {
        // tfd:        5 events:       19 data: ffffffffffffffff  pos:0 ino:... sdev:...
        if !line.starts_with("tfd:") {
            continue;
        }
        let mut tfd = None;
        let mut events = None;
        let mut data = None;
        let mut it = line.split_whitespace();
        while let Some(tok) = it.next() {
            match tok {
                "tfd:" => tfd = it.next().and_then(|v| v.parse::<RawFd>().ok()),
                "events:" => events = it.next().and_then(|v| u32::from_str_radix(v, 16).ok()),
                "data:" => data = it.next().and_then(|v| u64::from_str_radix(v, 16).ok()),
                _ => {}
            }
        }
        if let (Some(tfd), Some(events), Some(data)) = (tfd, events, data) {
            out.push(EpollEntry { tfd, events, data });
        }
    }
    out.sort();
    out
}

/// poll(2) with zero timeout on one fd; returns revents.
pub fn poll_fd(fd: RawFd, events: i16) -> i16 {
    let mut p = libc::pollfd {
        fd,
        events,
        revents: 0,
    };
    let r = unsafe { libc::poll(&mut p, 1, 0) };
    if r < 0 {
        return 0;
    }
    p.revents
}

pub fn is_readable(fd: RawFd) -> bool {
    poll_fd(fd, libc::POLLIN) & libc::POLLIN != 0
}

pub fn is_writable(fd: RawFd) -> bool {
    poll_fd(fd, libc::POLLOUT) & libc::POLLOUT != 0
}

pub fn is_hup_or_err(fd: RawFd) -> bool {
    poll_fd(fd, libc::POLLIN | libc::POLLOUT) & (libc::POLLHUP | libc::POLLERR) != 0
}

/// Number of open fds of this process.
pub fn fd_count() -> usize {
    std::fs::read_dir("/proc/self/fd").map(|d| d.count()).unwrap_or(0)
}

pub fn getfl(fd: RawFd) -> i32 {
    unsafe { libc::fcntl(fd, libc::F_GETFL) }
}

pub fn is_nonblocking(fd: RawFd) -> bool {
    getfl(fd) & libc::O_NONBLOCK != 0
}

pub fn set_nonblocking(fd: RawFd, on: bool) {
    let fl = getfl(fd);
    let new = if on {
        fl | libc::O_NONBLOCK
    } else {
        fl & !libc::O_NONBLOCK
    };
    unsafe {
        libc::fcntl(fd, libc::F_SETFL, new);
    }
}

pub fn fd_is_open(fd: RawFd) -> bool {
    unsafe { libc::fcntl(fd, libc::F_GETFD) >= 0 }
}

pub fn eventfd_nonblock() -> RawFd {
    unsafe { libc::eventfd(0, libc::EFD_NONBLOCK | libc::EFD_CLOEXEC) }
}

pub fn eventfd_write(fd: RawFd, v: u64) -> bool {
    let b = v.to_ne_bytes();
    unsafe { libc::write(fd, b.as_ptr() as *const _, 8) == 8 }
}

/// Returns the counter that was read, or None when it would block.
pub fn eventfd_read(fd: RawFd) -> Option<u64> {
    let mut b = [0u8; 8];
    let r = unsafe { libc::read(fd, b.as_mut_ptr() as *mut _, 8) };
    if r == 8 {
        Some(u64::from_ne_bytes(b))
    } else {
        None
    }
}

pub fn raw_write(fd: RawFd, buf: &[u8]) -> isize {
    unsafe { libc::write(fd, buf.as_ptr() as *const _, buf.len()) }
}

pub fn raw_read(fd: RawFd, buf: &mut [u8]) -> isize {
    unsafe { libc::read(fd, buf.as_mut_ptr() as *mut _, buf.len()) }
}

pub fn close(fd: RawFd) {
    unsafe {
        libc::close(fd);
    }
}

pub fn dup(fd: RawFd) -> RawFd {
    unsafe { libc::fcntl(fd, libc::F_DUPFD_CLOEXEC, 3) }
}

/// socketpair(AF_UNIX, SOCK_STREAM), both ends non-blocking + cloexec.
pub fn socketpair() -> (RawFd, RawFd) {
    let mut fds = [0 as RawFd; 2];
    let r = unsafe {
        libc::socketpair(
            libc::AF_UNIX,
            libc::SOCK_STREAM | libc::SOCK_NONBLOCK | libc::SOCK_CLOEXEC,
            0,
            fds.as_mut_ptr(),
        )
    };
    assert_eq!(r, 0, "socketpair failed");
    (fds[0], fds[1])
}

/// pipe2(O_NONBLOCK|O_CLOEXEC): (read end, write end)
pub fn pipe() -> (RawFd, RawFd) {
    let mut fds = [0 as RawFd; 2];
    let r = unsafe { libc::pipe2(fds.as_mut_ptr(), libc::O_NONBLOCK | libc::O_CLOEXEC) };
    assert_eq!(r, 0, "pipe2 failed");
    (fds[0], fds[1])
}

pub fn set_sndbuf(fd: RawFd, bytes: i32) {
    unsafe {
        libc::setsockopt(
            fd,
            libc::SOL_SOCKET,
            libc::SO_SNDBUF,
            &bytes as *const _ as *const _,
            std::mem::size_of::<i32>() as u32,
        );
    }
}

/// An fd wrapper that closes on drop and counts nothing else; implements AsFd.
#[derive(Debug)]
pub struct OwnedRaw(pub RawFd);

impl std::os::unix::io::AsFd for OwnedRaw {
    fn as_fd(&self) -> std::os::unix::io::BorrowedFd<'_> {
        unsafe { std::os::unix::io::BorrowedFd::borrow_raw(self.0) }
    }
}

impl std::os::unix::io::AsRawFd for OwnedRaw {
    fn as_raw_fd(&self) -> RawFd {
        self.0
    }
}

/// fds that several `OwnedRaw` wrappers refer to at once (the history machine's shared eventfds): the wrappers do not
/// close them, their owner does (`no_close_remove` + `close`). An fd number is in here only while it is open, so two
/// worker threads never collide.
static NO_CLOSE: std::sync::Mutex<Vec<RawFd>> = std::sync::Mutex::new(Vec::new());

pub fn no_close_add(fd: RawFd) {
    NO_CLOSE.lock().unwrap().push(fd);
}

pub fn no_close_remove(fd: RawFd) {
    NO_CLOSE.lock().unwrap().retain(|f| *f != fd);
}

impl Drop for OwnedRaw {
    fn drop(&mut self) {
        if self.0 >= 0 && !NO_CLOSE.lock().unwrap().contains(&self.0) {
            close(self.0);
        }
    }
}

/// An fd wrapper that does NOT close on drop (the harness owns the fd elsewhere).
#[derive(Debug, Clone, Copy)]
pub struct BorrowedRaw(pub RawFd);

impl std::os::unix::io::AsFd for BorrowedRaw {
    fn as_fd(&self) -> std::os::unix::io::BorrowedFd<'_> {
        unsafe { std::os::unix::io::BorrowedFd::borrow_raw(self.0) }
    }
}

impl std::os::unix::io::AsRawFd for BorrowedRaw {
    fn as_raw_fd(&self) -> RawFd {
        self.0
    }
}
