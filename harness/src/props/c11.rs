//! C11 — LoopSignal, run() and block_on(): wake-ups and stop requests are never lost.
//!
//! sched: the loop thread sits in run(timeout) or block_on(future); 1..2 actor threads issue
//! stop / wakeup / waker.wake; the schedule over every yield site (run began, per-iteration stop check,
//! before/after the poller wait, inside stop()/wakeup(), the three waker sites, before/after the
//! future_ready swap) is generated. A loop thread that sleeps in the poller is detected via /proc.

use crate::driver::{CaseOutcome, CheckCtx, Found, PropMeta, Tier, Violation};
use crate::evidence::{fingerprint, CaseInfo};
use crate::props::c03::schedule_strategy;
use crate::sched::{self, CaseCtl, RunEnd};
use calloop::verif::Site;
use calloop::{EventLoop, LoopSignal};
use proptest::prelude::*;
use serde::{Deserialize, Serialize};
use std::future::Future;
use std::pin::Pin;
use std::sync::atomic::{AtomicBool, AtomicU32, Ordering};
use std::sync::{mpsc, Arc, Mutex};
use std::task::{Context, Poll, Waker};
use std::time::{Duration, Instant};

pub static META: PropMeta = PropMeta {
    id: "C11",
    level: "exploration",
    rule: "cases: the loop thread runs run(None | 3 s) or block_on(scripted future), in 40% of the cases with a timer armed for one hour in the loop (so that the wait is bounded by a timer deadline); 1..2 actor threads with programs over wakeup / stop / stop+wakeup (run mode) or wake / wake_by_ref+clone / complete+wake / stop+wakeup (block_on mode), released only after the loop thread passed the 'run began' site; in block_on mode the future may additionally wake itself during its first 1..3 polls (on the loop thread), in some cases with no other wake-up source at all; the schedule over all yield sites is generated. oracle (logical clock of the controller, blocked-in-kernel detected via /proc): after a wakeup() returned, the wait in progress or the next one returns (a loop thread still asleep in the poller with no wait-return after the wake-up, observed over 300 scheduling rounds, is a lost wake-up); after stop() then wakeup() returned the loop enters the wait at most once more and run returns Ok; run/block_on never return without cause (Ok/None only after a stop began, Some(v) only after the future returned Ready(v)); the future is polled initially and a poll starts after every wake that began while it was pending. non-trivial: an actor's signal site falls between the loop's stop-flag check and its entry into the wait, or between the waker's flag store and its notify, or between the loop's flag swap and its wait; distinct by case fingerprint; (inloop) 1..5 loop iterations whose timer callback issues 0..4 of stop / complete the future / wake it / wakeup / insert_idle / insert an idle that itself calls stop()+wakeup() on the loop thread, optionally the per-iteration closure calling stop()+wakeup() at its k-th run (the iteration in progress is then the last), run() or block_on(), result + poll count + completed iterations + idles + closure runs compared with a reference model; non-trivial: a stop in the same callback as a wake or an idle insertion",
    assumptions: &[
        "interleavings at yield-site granularity, x86-TSO, real atomics and real poller notification (eventfd)",
        "'promptly' is never a duration: only a loop thread provably asleep in the kernel with an unserved wake-up counts",
        "a stop issued before run() begins is erased by design and not generated",
    ],
};

#[derive(Serialize, Deserialize, Debug, Clone, Copy, Hash, PartialEq, Eq)]
pub enum AOp {
    Wakeup,
    Stop,
    StopWakeup,
    /// block_on: waker.wake_by_ref()
    Wake,
    /// block_on: clone the waker and wake() the clone (consuming)
    WakeClone,
    /// block_on: mark the future complete, then wake
    CompleteWake,
}

#[derive(Serialize, Deserialize, Debug, Clone, Copy, Hash, PartialEq, Eq)]
pub enum Mode {
    RunNone,
    Run3s,
    BlockOn,
}

#[derive(Serialize, Deserialize, Debug, Clone, Hash)]
pub struct Case {
    pub mode: Mode,
    pub actors: Vec<Vec<AOp>>,
    pub schedule: Vec<u8>,
    #[serde(default)]
    pub exact: bool,
    /// a timer armed for one hour sits in the loop (the wait is then bounded by a timer deadline, not unbounded)
    #[serde(default)]
    pub far_timer: bool,
    /// block_on mode: the future wakes itself (wake_by_ref on its own waker, on the loop thread, during its poll)
    /// in its first `self_wakes` polls and returns Pending: each such wake must be followed by another poll
    #[serde(default)]
    pub self_wakes: u8,
}

fn case_strategy() -> impl Strategy<Value = Case> {
    let run_op = prop_oneof![5 => Just(AOp::Wakeup), 2 => Just(AOp::Stop), 2 => Just(AOp::StopWakeup)];
    let bo_op = prop_oneof![4 => Just(AOp::Wake), 2 => Just(AOp::WakeClone), 2 => Just(AOp::CompleteWake), 1 => Just(AOp::Wakeup), 1 => Just(AOp::StopWakeup)];
    prop_oneof![
        2 => (Just(Mode::RunNone), proptest::collection::vec(proptest::collection::vec(run_op.clone(), 1..=4), 1..=2), schedule_strategy(120)),
        1 => (Just(Mode::Run3s), proptest::collection::vec(proptest::collection::vec(run_op, 1..=4), 1..=2), schedule_strategy(120)),
        3 => (Just(Mode::BlockOn), proptest::collection::vec(proptest::collection::vec(bo_op, 1..=4), 1..=2), schedule_strategy(120)),
    ]
    .prop_flat_map(|(mode, actors, schedule)| {
        (prop::bool::weighted(0.4), prop_oneof![2 => Just(0u8), 1 => 1u8..=3], prop::bool::weighted(0.3)).prop_map(move |(far_timer, sw, quiet)| {
            let self_wakes = if mode == Mode::BlockOn { sw } else { 0 };
            // some self-waking cases run with no other wake-up source at all
            let actors = if self_wakes > 0 && quiet { vec![vec![]] } else { actors.clone() };
            Case { mode, actors, schedule: schedule.clone(), exact: false, far_timer, self_wakes }
        })
    })
}

struct FutShared {
    self_wakes_left: AtomicU32,
    self_wakes_done: AtomicU32,
    waker: Mutex<Option<Waker>>,
    complete: AtomicBool,
    polls: Mutex<Vec<u64>>,
    returned_ready: AtomicBool,
}

struct ScriptFut(Arc<FutShared>);

impl Future for ScriptFut {
    type Output = u32;
    fn poll(self: Pin<&mut Self>, cx: &mut Context<'_>) -> Poll<u32> {
        let t = sched::tick();
        self.0.polls.lock().unwrap().push(t);
        *self.0.waker.lock().unwrap() = Some(cx.waker().clone());
        // a scheduling point in the middle of the poll: wakes may arrive while the future is being polled
        sched::harness_yield();
        if self.0.complete.load(Ordering::SeqCst) {
            self.0.returned_ready.store(true, Ordering::SeqCst);
            Poll::Ready(4242)
        } else {
            if self.0.self_wakes_left.load(Ordering::SeqCst) > 0 {
                // cooperative yield: wake ourselves on the loop thread, then return Pending
                self.0.self_wakes_left.fetch_sub(1, Ordering::SeqCst);
                cx.waker().wake_by_ref();
                self.0.self_wakes_done.fetch_add(1, Ordering::SeqCst);
            }
            Poll::Pending
        }
    }
}

#[derive(Debug, Clone)]
enum Rec {
    /// op, begin tick, end tick, evidence seen (wait returned / poll happened), loop asleep when giving up
    Op { op: AOp, b: u64, e: u64, served: bool, loop_asleep: bool, loop_done: bool },
    Iter { t: u64 },
}

pub struct Out {
    pub viol: Option<Violation>,
    pub nontrivial: bool,
    pub classes: Vec<&'static str>,
    pub branching: Vec<u8>,
    pub infra: Option<String>,
}

fn loop_post_after(ctl: &CaseCtl, loop_idx: usize, t: u64) -> bool {
    ctl.log.lock().unwrap().iter().any(|l| l.thread == loop_idx && l.site == Site::POLL_POST as u32 && l.tick > t)
}

pub fn run_sched(case: &Case) -> Out {
    sched::install_hook();
    let n_actors = case.actors.len();
    let ctl = CaseCtl::new(n_actors + 1);
    let loop_idx = n_actors;
    let rec: Arc<Mutex<Vec<Rec>>> = Arc::new(Mutex::new(Vec::new()));
    let fut = Arc::new(FutShared { self_wakes_left: AtomicU32::new(case.self_wakes as u32), self_wakes_done: AtomicU32::new(0), waker: Mutex::new(None), complete: AtomicBool::new(false), polls: Mutex::new(vec![]), returned_ready: AtomicBool::new(false) });
    let (tx_sig, rx_sig) = mpsc::channel::<(LoopSignal, calloop::ping::Ping)>();
    let far_timer = case.far_timer;
    let loop_done = Arc::new(AtomicBool::new(false));
    let loop_result: Arc<Mutex<Option<Result<Option<u32>, String>>>> = Arc::new(Mutex::new(None));
    let stop_begun = Arc::new(AtomicU32::new(0));
    let polls_at_quiescence = AtomicU32::new(0);
    let self_wakes_at_quiescence = AtomicU32::new(0);
    let complete_at_quiescence = AtomicBool::new(false);
    let mode = case.mode;
    let mut out = Out { viol: None, nontrivial: false, classes: vec![], branching: vec![], infra: None };

    let info = std::thread::scope(|sc| {
        let loop_join;
        {
            let ctl = ctl.clone();
            let rec = rec.clone();
            let fut = fut.clone();
            let loop_done = loop_done.clone();
            let loop_result = loop_result.clone();
            loop_join = sc.spawn(move || {
                let mut el: EventLoop<'static, ()> = EventLoop::try_new().expect("event loop");
                // a ping source nobody pings during the case: the harness's last resort to end a loop whose wake-ups are lost
                let (rescue_ping, rescue_src) = calloop::ping::make_ping().expect("make_ping");
                el.handle().insert_source(rescue_src, |_, _, _| {}).expect("insert rescue ping");
                if far_timer {
                    el.handle()
                        .insert_source(calloop::timer::Timer::from_duration(Duration::from_secs(3600)), |_, _, _| calloop::timer::TimeoutAction::Drop)
                        .expect("insert far timer");
                }
                tx_sig.send((el.get_signal(), rescue_ping)).unwrap();
                let r = ctl.enrolled(loop_idx, || {
                    let rec2 = rec.clone();
                    match mode {
                        Mode::RunNone | Mode::Run3s => {
                            let to = if mode == Mode::RunNone { None } else { Some(Duration::from_secs(3)) };
                            el.run(to, &mut (), |_| {
                                rec2.lock().unwrap().push(Rec::Iter { t: sched::tick() });
                            })
                            .map(|()| None)
                            .map_err(|e| format!("{e}"))
                        }
                        Mode::BlockOn => el
                            .block_on(ScriptFut(fut.clone()), &mut (), |_| {
                                rec2.lock().unwrap().push(Rec::Iter { t: sched::tick() });
                            })
                            .map_err(|e| format!("{e}")),
                    }
                });
                *loop_result.lock().unwrap() = Some(r);
                loop_done.store(true, Ordering::SeqCst);
            });
        }
        let (signal, rescue_ping) = rx_sig.recv().expect("signal");
        let mut joins = vec![];
        for (ai, prog) in case.actors.iter().enumerate() {
            let ctl = ctl.clone();
            let rec = rec.clone();
            let prog = prog.clone();
            let signal = signal.clone();
            let fut = fut.clone();
            let loop_done = loop_done.clone();
            let stop_begun = stop_begun.clone();
            joins.push(sc.spawn(move || {
                ctl.enrolled(ai, || {
                    // released only after the loop thread passed "run began" (run) / reached its first swap (block_on)
                    let began_site = if mode == Mode::BlockOn { Site::BO_SWAP_PRE as u32 } else { Site::RUN_BEGAN as u32 };
                    let mut spins = 0;
                    loop {
                        let began = ctl.log.lock().unwrap().iter().any(|l| l.thread == loop_idx && l.site == began_site);
                        if began || loop_done.load(Ordering::SeqCst) || spins > 2000 {
                            break;
                        }
                        spins += 1;
                        sched::harness_yield();
                    }
                    for op in prog {
                        sched::harness_yield();
                        if loop_done.load(Ordering::SeqCst) {
                            break;
                        }
                        let polls_before = fut.polls.lock().unwrap().len();
                        let b = sched::tick();
                        let mut is_wake = false;
                        match op {
                            AOp::Wakeup => signal.wakeup(),
                            AOp::Stop => {
                                stop_begun.fetch_add(1, Ordering::SeqCst);
                                signal.stop()
                            }
                            AOp::StopWakeup => {
                                stop_begun.fetch_add(1, Ordering::SeqCst);
                                signal.stop();
                                signal.wakeup();
                            }
                            AOp::Wake | AOp::WakeClone | AOp::CompleteWake => {
                                if mode != Mode::BlockOn {
                                    continue;
                                }
                                let w = fut.waker.lock().unwrap().clone();
                                let Some(w) = w else { continue };
                                is_wake = true;
                                if op == AOp::CompleteWake {
                                    fut.complete.store(true, Ordering::SeqCst);
                                }
                                if op == AOp::WakeClone {
                                    w.clone().wake();
                                } else {
                                    w.wake_by_ref();
                                }
                            }
                        }
                        let e = sched::tick();
                        // await evidence that the signal was served (bounded number of scheduling rounds)
                        let needs_evidence = matches!(op, AOp::Wakeup | AOp::StopWakeup) || is_wake;
                        let mut served = !needs_evidence;
                        let mut asleep = false;
                        if needs_evidence {
                            let mut rounds = 0;
                            loop {
                                if loop_done.load(Ordering::SeqCst) {
                                    served = true;
                                    break;
                                }
                                let ev = if is_wake {
                                    fut.polls.lock().unwrap().iter().skip(polls_before).any(|t| *t > b)
                                } else {
                                    loop_post_after(&ctl, loop_idx, b)
                                };
                                if ev {
                                    served = true;
                                    break;
                                }
                                rounds += 1;
                                if rounds > 300 {
                                    asleep = ctl.confirm_asleep(loop_idx);
                                    break;
                                }
                                sched::harness_yield();
                            }
                        }
                        rec.lock().unwrap().push(Rec::Op { op, b, e, served, loop_asleep: asleep, loop_done: loop_done.load(Ordering::SeqCst) });
                    }
                })
            }));
        }
        let info = sched::drive(&ctl, &case.schedule, case.exact, 20_000, Duration::from_millis(30));
        // quiescence: every thread finished or asleep in the kernel; what the future has seen by now is final
        // unless somebody acts again
        polls_at_quiescence.store(fut.polls.lock().unwrap().len() as u32, Ordering::SeqCst);
        self_wakes_at_quiescence.store(fut.self_wakes_done.load(Ordering::SeqCst), Ordering::SeqCst);
        complete_at_quiescence.store(
            fut.returned_ready.load(Ordering::SeqCst) || loop_done.load(Ordering::SeqCst) || ctl.slots[loop_idx].state.load(Ordering::SeqCst) == sched::FINISHED,
            Ordering::SeqCst,
        );
        // every program has run (or the loop is asleep for good): end the loop so that the case can be torn down
        let ended_by_harness = !loop_done.load(Ordering::SeqCst);
        if info.end != RunEnd::AllFinished {
            sched::release_all(&ctl);
        }
        let t0 = Instant::now();
        while !loop_done.load(Ordering::SeqCst) && t0.elapsed() < Duration::from_secs(10) {
            fut.complete.store(true, Ordering::SeqCst);
            signal.stop();
            signal.wakeup();
            if t0.elapsed() > Duration::from_millis(100) {
                // wake-ups do not end the wait any more (that is what the oracle reports): end it with a real event
                rescue_ping.ping();
            }
            std::thread::sleep(Duration::from_millis(1));
        }
        for j in joins {
            let _ = j.join();
        }
        let _ = loop_join.join();
        (info, ended_by_harness)
    });
    let (info, ended_by_harness) = info;
    out.branching = info.branching.clone();
    let recs = rec.lock().unwrap().clone();
    let log = ctl.log.lock().unwrap().clone();
    let result = loop_result.lock().unwrap().clone();
    let polls = fut.polls.lock().unwrap().clone();

    if let RunEnd::Budget = info.end {
        out.infra = Some("step budget exhausted".into());
        return out;
    }
    // lost wake-ups: an op that needed evidence, got none over 300 rounds, with the loop asleep in the kernel
    for r in &recs {
        if let Rec::Op { op, b, served: false, loop_asleep: true, .. } = r {
            let (rule, what) = match op {
                AOp::Wakeup => ("C11.wakeup", "wakeup()"),
                AOp::StopWakeup => ("C11.stop", "stop() + wakeup()"),
                _ => ("C11.block_on_wake", "waker.wake()"),
            };
            out.viol = Some(Violation::new(
                rule,
                format!("{what} begun at tick {b} returned, but the loop thread stayed asleep in the poller: no wait returned / no poll started afterwards over 300 scheduling rounds ({mode:?})"),
            ));
            return out;
        }
    }
    // self-wakes (on the loop thread, during the poll): at quiescence every one of them must have been followed
    // by another poll, unless the loop had ended by then
    if mode == Mode::BlockOn && info.end != RunEnd::Budget {
        let sw = self_wakes_at_quiescence.load(Ordering::SeqCst);
        let pq = polls_at_quiescence.load(Ordering::SeqCst);
        if sw > 0 {
            out.classes.push("future_woke_itself_during_poll");
            // (a stop request ends block_on without another poll; judged only when nobody asked for one)
            if !complete_at_quiescence.load(Ordering::SeqCst) && stop_begun.load(Ordering::SeqCst) == 0 && pq < sw + 1 {
                out.viol = Some(Violation::new(
                    "C11.block_on_wake",
                    format!("the future woke itself {sw} time(s) during its poll (wake_by_ref on the loop thread, then Pending) but had been polled only {pq} time(s) when every thread was finished or asleep: a wake issued from inside the poll was lost"),
                ));
                return out;
            }
        }
    }
    // a stuck end (actors finished, loop asleep) is legitimate when nobody asked it to stop or wake: the harness ends it
    let stops: Vec<(u64, u64)> = recs
        .iter()
        .filter_map(|r| if let Rec::Op { op: AOp::StopWakeup, b, e, .. } = r { Some((*b, *e)) } else { None })
        .collect();
    let any_stop_begun = stop_begun.load(Ordering::SeqCst) > 0;
    let completed_by_actor = recs.iter().any(|r| matches!(r, Rec::Op { op: AOp::CompleteWake, .. }));
    match (&result, mode) {
        (None, _) => {
            out.infra = Some("loop thread produced no result".into());
            return out;
        }
        (Some(Err(e)), _) => {
            out.infra = Some(format!("loop returned an error: {e}"));
            return out;
        }
        (Some(Ok(v)), Mode::BlockOn) => {
            if !ended_by_harness {
                match v {
                    Some(x) => {
                        if *x != 4242 || !completed_by_actor {
                            out.viol = Some(Violation::new("C11.block_on_result", format!("block_on returned Some({x}) although the future was never completed by an actor")));
                            return out;
                        }
                    }
                    None => {
                        if !any_stop_begun {
                            out.viol = Some(Violation::new("C11.block_on_result", "block_on returned None although stop() was never requested".to_string()));
                            return out;
                        }
                    }
                }
            }
            if polls.is_empty() && !any_stop_begun {
                out.viol = Some(Violation::new("C11.block_on_wake", "the future was never polled".to_string()));
                return out;
            }
        }
        (Some(Ok(_)), _) => {
            if !ended_by_harness && !any_stop_begun {
                out.viol = Some(Violation::new("C11.ok_without_stop", "run() returned Ok although stop() was never requested".to_string()));
                return out;
            }
        }
    }
    // stop: after stop() then wakeup() both returned, the loop enters the wait at most once more
    if mode != Mode::BlockOn || true {
        for (_, e) in &stops {
            let pre_after = log.iter().filter(|l| l.thread == loop_idx && l.site == Site::POLL_PRE as u32 && l.tick > *e).count();
            if pre_after > 1 {
                out.viol = Some(Violation::new(
                    "C11.stop",
                    format!("after stop()+wakeup() returned at tick {e} the loop thread entered the poller wait {pre_after} more times"),
                ));
                return out;
            }
        }
    }

    // stop: once stop() has returned, a loop thread that evaluates its condition afterwards must not start
    // another iteration. The condition is evaluated after the grant that precedes the arrival at RUN_CHECK.
    if mode != Mode::BlockOn {
        let stop_ends: Vec<u64> = recs
            .iter()
            .filter_map(|r| match r {
                Rec::Op { op: AOp::Stop, e, .. } | Rec::Op { op: AOp::StopWakeup, e, .. } => Some(*e),
                _ => None,
            })
            .collect();
        // for StopWakeup the stop part ended earlier than the op; use the SIG_STOP_POST arrival instead
        let stop_posts: Vec<u64> = log.iter().filter(|l| l.site == Site::SIG_STOP_POST as u32).map(|l| l.tick).collect();
        let _ = stop_ends;
        let mut last_grant: Option<u64> = None;
        for l in log.iter().filter(|l| l.thread == loop_idx) {
            if l.site == sched::SITE_GRANT {
                last_grant = Some(l.tick);
            } else if l.site == Site::RUN_CHECK as u32 {
                if let Some(g) = last_grant {
                    if let Some(sp) = stop_posts.iter().find(|sp| **sp < g) {
                        out.viol = Some(Violation::new(
                            "C11.stop",
                            format!("stop() had returned (tick {sp}) before the loop thread evaluated its loop condition (granted at tick {g}), yet it started another iteration (RUN_CHECK at tick {})", l.tick),
                        ));
                        return out;
                    }
                }
            }
        }
    }

    // block_on: the same for its loop head. "None exactly when stop() was requested first": once stop() has returned, a
    // loop thread that evaluates its condition afterwards must leave (None) - it must not swap/poll the future again (which
    // could turn a completion that came after the stop request into Some) nor wait again. The condition is evaluated
    // after the grant that precedes the arrival at BO_SWAP_PRE.
    if mode == Mode::BlockOn {
        let stop_posts: Vec<u64> = log.iter().filter(|l| l.site == Site::SIG_STOP_POST as u32).map(|l| l.tick).collect();
        let mut last_grant: Option<u64> = None;
        for l in log.iter().filter(|l| l.thread == loop_idx) {
            if l.site == sched::SITE_GRANT {
                last_grant = Some(l.tick);
            } else if l.site == Site::BO_SWAP_PRE as u32 {
                if let Some(g) = last_grant {
                    if let Some(sp) = stop_posts.iter().find(|sp| **sp < g) {
                        out.classes.push("block_on_continued_after_stop");
                        out.viol = Some(
                            Violation::new(
                                "C11.stop",
                                format!(
                                    "block_on: stop() had returned (tick {sp}) before the loop thread evaluated its loop condition (granted at tick {g}), yet it went on (BO_SWAP_PRE at tick {}) instead of returning None; result: {:?}",
                                    l.tick,
                                    loop_result.lock().unwrap()
                                ),
                            )
                            .with_sig("C11.stop/block_on-continued-after-stop"),
                        );
                        return out;
                    }
                }
            }
        }
    }

    // evidence: signal site inside the check-to-wait window of the loop thread
    let mut window = false;
    let sig_sites = [Site::SIG_STOP_PRE as u32, Site::SIG_STOP_POST as u32, Site::SIG_WAKE_PRE as u32, Site::SIG_WAKE_POST as u32, Site::BO_WAKE_PRE as u32, Site::BO_WAKE_MID as u32, Site::BO_WAKE_POST as u32];
    let mut last_check: Option<u64> = None;
    for l in &log {
        if l.thread == loop_idx {
            if l.site == Site::RUN_CHECK as u32 || l.site == Site::BO_SWAP_PRE as u32 || l.site == Site::BO_SWAP_POST as u32 {
                last_check = Some(l.tick);
            } else if l.site == Site::POLL_PRE as u32 {
                if let Some(c) = last_check.take() {
                    if log.iter().any(|a| a.thread != loop_idx && sig_sites.contains(&a.site) && a.tick > c && a.tick < l.tick) {
                        window = true;
                    }
                }
            }
        }
    }
    let mid_window = log.windows(2).any(|w| w[0].site == Site::BO_WAKE_MID as u32 && w[1].thread == loop_idx);
    if window {
        out.classes.push("signal_between_flag_check_and_wait");
    }
    if mid_window {
        out.classes.push("loop_step_between_waker_store_and_notify");
    }
    out.classes.push(match mode {
        Mode::RunNone => "run_none",
        Mode::Run3s => "run_3s",
        Mode::BlockOn => "block_on",
    });
    if ctl.slots[loop_idx].blocked_count.load(Ordering::Relaxed) > 0 {
        out.classes.push("loop_thread_slept_in_poller");
    }
    if ended_by_harness {
        out.classes.push("ended_by_harness");
    }
    out.nontrivial = window || mid_window;
    out
}

pub fn run_case(case: &Case) -> CaseOutcome {
    let mut info = CaseInfo::default();
    info.fingerprint = fingerprint(case);
    let mut out = run_sched(case);
    if out.infra.is_some() {
        out = run_sched(case);
        if let Some(m) = out.infra {
            panic!("sched infrastructure: {m}");
        }
    }
    info.nontrivial = out.nontrivial;
    info.classes = out.classes;
    (info, out.viol)
}

fn dfs(ctx: &CheckCtx, mode: Mode, actors: Vec<Vec<AOp>>, max: u64) -> Option<Found> {
    let mut found = None;
    let name = format!("dfs:{mode:?}:{}", serde_json::to_string(&actors).unwrap_or_default());
    let mut nontrivial = 0u64;
    let (count, complete) = sched::dfs_all(max, |prefix| {
        let case = Case { mode, actors: actors.clone(), schedule: prefix.to_vec(), exact: true, far_timer: false, self_wakes: 0 };
        let out = run_sched(&case);
        if out.nontrivial {
            nontrivial += 1;
        }
        if let Some(v) = out.viol {
            found = Some(Found { sub: "sched".into(), violation: v, case: serde_json::to_value(&case).unwrap(), replay_path: None });
            return (out.branching, true);
        }
        (out.branching, out.infra.is_some())
    });
    ctx.col.record_enumerated(&name, count, nontrivial);
    if complete {
        ctx.col.exhaustive(&format!("all {count} schedules of {name}"));
    } else {
        ctx.col.note(format!("{name}: DFS stopped after {count} schedules (bound {max})"));
    }
    found
}


// ------------------------------------------------------------------------------------------------
// "inloop" family: stop / wake / complete issued from a source callback ON the loop thread while run() or block_on()
// is in progress. Fully deterministic (no second thread), judged against a small reference model of the documented
// loop: run(): [callbacks, idles, closure] per iteration, leaves after the iteration in which stop() was called;
// block_on(): polls initially; after each dispatch: stop requested => None; else woken => poll, Ready => Some.

#[derive(Serialize, Deserialize, Debug, Clone, Copy, Hash, PartialEq, Eq)]
pub enum InAct {
    Stop,
    /// make the future ready (block_on; no-op in run mode)
    Complete,
    /// wake the future's waker (block_on; no-op in run mode)
    Wake,
    /// LoopSignal::wakeup()
    Wakeup,
    /// insert an idle callback (must run in this iteration, before run() leaves)
    Idle,
    /// insert an idle callback that inserts another idle when it runs: the inner one belongs to the NEXT iteration (and
    /// never runs if the loop leaves first)
    IdleChain,
    /// insert an idle callback that calls stop() + wakeup() when it runs (in this iteration, after the source callbacks):
    /// a stop requested during the idle phase still ends the call after the iteration in progress, not one later
    IdleStop,
}

#[derive(Serialize, Deserialize, Debug, Clone, Hash, PartialEq, Eq)]
pub struct InCase {
    /// earlier block_on() calls on the SAME loop, each returned before the judged call starts: true = its future is ready
    /// at once (Some), false = a callback stops it (None). What they leave behind must not leak into the next call.
    #[serde(default)]
    pub prelude: Vec<bool>,
    pub block_on: bool,
    /// one entry per loop iteration: what the (re-armed) timer callback of that iteration does, in order
    pub rounds: Vec<Vec<InAct>>,
    /// the per-iteration closure of run() / block_on() inserts an idle each time it runs (belongs to the next iteration)
    #[serde(default)]
    pub closure_idle: bool,
    /// block_on only: the future itself requests stop() + wakeup() during its FIRST poll (an "abort" path) and stays
    /// pending: the request was made after block_on() began, so the call finishes that iteration and returns None
    #[serde(default)]
    pub first_poll_stop: bool,
    /// between the earlier calls and the judged one the application calls wakeup() (no wait is in progress) and then
    /// dispatch(None) itself: "if none is in progress, the next wait returns promptly" - whatever an earlier, stopped
    /// call left behind
    #[serde(default)]
    pub wakeup_between: bool,
    /// the per-iteration closure itself calls stop() + wakeup() when it runs for the k-th time (0-based): the request is
    /// made inside the iteration in progress, which is then the last one
    #[serde(default)]
    pub closure_stop_at: Option<u8>,
}

pub fn in_strategy() -> impl Strategy<Value = InCase> {
    let act = prop_oneof![3 => Just(InAct::Stop), 3 => Just(InAct::Complete), 4 => Just(InAct::Wake), 1 => Just(InAct::Wakeup), 2 => Just(InAct::Idle), 2 => Just(InAct::IdleChain), 2 => Just(InAct::IdleStop)];
    (proptest::collection::vec(any::<bool>(), 0..=2), any::<bool>(), proptest::collection::vec(proptest::collection::vec(act, 0..=4), 1..=5), prop::bool::weighted(0.3), prop::bool::weighted(0.2), prop::bool::weighted(0.25), prop::option::weighted(0.25, 0u8..5))
        .prop_map(|(prelude, block_on, rounds, closure_idle, first_poll_stop, wakeup_between, closure_stop_at)| InCase { prelude, block_on, rounds, closure_idle, first_poll_stop: first_poll_stop && block_on, wakeup_between, closure_stop_at })
}

struct InFut {
    complete: Arc<AtomicBool>,
    waker: Arc<Mutex<Option<Waker>>>,
    polls: Arc<AtomicU32>,
    /// stop() + wakeup() requested by the first poll
    stop_on_first: Option<calloop::LoopSignal>,
}

impl Future for InFut {
    type Output = u32;
    fn poll(self: Pin<&mut Self>, cx: &mut Context<'_>) -> Poll<u32> {
        if self.polls.fetch_add(1, Ordering::SeqCst) == 0 {
            if let Some(sig) = &self.stop_on_first {
                sig.stop();
                sig.wakeup();
            }
        }
        *self.waker.lock().unwrap() = Some(cx.waker().clone());
        if self.complete.load(Ordering::SeqCst) {
            Poll::Ready(4242)
        } else {
            Poll::Pending
        }
    }
}

pub fn run_inloop(case: &InCase) -> CaseOutcome {
    crate::driver::HEARTBEAT.fetch_add(1, Ordering::Relaxed);
    // ---- reference model
    let mut rounds = case.rounds.clone();
    // the harness's own ending: a last round that stops (counts as "ended by the harness" if reached)
    rounds.push(vec![InAct::Stop]);
    // what the timer callback really does; the model's first round additionally sees the stop of the first poll
    let real_rounds = rounds.clone();
    let first_poll_stop = case.block_on && case.first_poll_stop;
    if first_poll_stop {
        // the stop request of the first poll is seen at the next loop head, i.e. after the first iteration's dispatch
        rounds[0].insert(0, InAct::Stop);
    }
    let mut m_ready = false; // future_ready after the initial poll
    let mut m_complete = false;
    let mut m_polls_min = 1u32; // initial poll
    let mut want: Option<Option<u32>> = None; // Some(result) once decided
    let mut rounds_run = 0usize;
    // idles queued for the next dispatch_idles (plain ones / ones that insert another idle), and how many ran in all
    let (mut q_plain, mut q_chain, mut idles_expected) = (0u32, 0u32, 0u32);
    let mut q_stop = 0u32;
    for r in &rounds {
        rounds_run += 1;
        let mut stopped = false;
        for a in r {
            match a {
                InAct::Stop => stopped = true,
                InAct::Complete => m_complete = true,
                InAct::Wake => m_ready = true,
                InAct::Wakeup => {}
                InAct::Idle => q_plain += 1,
                InAct::IdleChain => q_chain += 1,
                InAct::IdleStop => q_stop += 1,
            }
        }
        // (an idle of this iteration that asks for the stop, or the closure doing so, ends the call with this iteration)
        if q_stop > 0 || case.closure_stop_at.map(|k| k as usize) == Some(rounds_run - 1) {
            stopped = true;
        }
        idles_expected += q_stop;
        q_stop = 0;
        // the idles of this iteration run now; what they insert waits for the next iteration, as does what the
        // per-iteration closure inserts right afterwards
        idles_expected += q_plain + q_chain;
        q_plain = q_chain;
        q_chain = 0;
        if case.closure_idle {
            q_plain += 1;
        }
        if stopped {
            want = Some(None);
            break;
        }
        if case.block_on && m_ready {
            m_ready = false;
            m_polls_min += 1;
            if m_complete {
                want = Some(Some(4242));
                break;
            }
        }
    }
    let want = want.expect("the last round stops");
    // ---- real side
    let mut el: EventLoop<'static, ()> = EventLoop::try_new().expect("event loop");
    let signal = el.get_signal();
    let handle = el.handle();
    let mut prelude_viol: Option<Violation> = None;
    for (k, ready_at_once) in case.prelude.iter().enumerate() {
        let polls = Arc::new(AtomicU32::new(0));
        let fut = InFut { complete: Arc::new(AtomicBool::new(*ready_at_once)), waker: Arc::new(Mutex::new(None)), polls: polls.clone(), stop_on_first: None };
        if !*ready_at_once {
            let sig = signal.clone();
            handle
                .insert_source(calloop::timer::Timer::immediate(), move |_, _, _| {
                    sig.stop();
                    calloop::timer::TimeoutAction::Drop
                })
                .expect("insert prelude timer");
        }
        // last resort (removed again right after): a call that never polls its future would sleep for ever
        let sig = signal.clone();
        let rescue = handle
            .insert_source(calloop::timer::Timer::from_duration(Duration::from_millis(300)), move |_, _, _| {
                sig.stop();
                calloop::timer::TimeoutAction::Drop
            })
            .expect("insert rescue timer");
        let r = el.block_on(fut, &mut (), |_| {}).map_err(|e| format!("{e}"));
        handle.remove(rescue);
        let want = if *ready_at_once { Some(4242) } else { None };
        if r != Ok(want) && prelude_viol.is_none() {
            prelude_viol = Some(Violation::new("C11.block_on_result", format!("block_on call #{} on the same loop returned {r:?}, expected {want:?}", k + 1)).with_sig("C11.block_on_result/inloop"));
        }
        if polls.load(Ordering::SeqCst) == 0 && prelude_viol.is_none() {
            prelude_viol = Some(Violation::new("C11.block_on_wake", format!("block_on call #{} on the same loop never polled its future", k + 1)).with_sig("C11.block_on_wake/inloop"));
        }
    }
    if case.wakeup_between && prelude_viol.is_none() {
        // nothing is ready, nothing is armed but the rescue timer: only the wake-up can end this wait
        let rescued = Arc::new(AtomicBool::new(false));
        let r2 = rescued.clone();
        let rescue = handle
            .insert_source(calloop::timer::Timer::from_duration(Duration::from_millis(2000)), move |_, _, _| {
                r2.store(true, Ordering::SeqCst);
                calloop::timer::TimeoutAction::Drop
            })
            .expect("insert rescue timer");
        // (whatever wake-up an earlier call left unconsumed is taken by a non-blocking dispatch first)
        let _ = el.dispatch(Some(Duration::ZERO), &mut ());
        signal.wakeup();
        let r = el.dispatch(None, &mut ());
        handle.remove(rescue);
        if r.is_err() || rescued.load(Ordering::SeqCst) {
            prelude_viol = Some(
                Violation::new(
                    "C11.wakeup",
                    format!(
                        "wakeup() was called while no wait was in progress (after {} earlier block_on call(s) on this loop, the last one {}), the following dispatch(None) did not return until a 2 s rescue timer fired: the wake-up was lost",
                        case.prelude.len(),
                        match case.prelude.last() {
                            Some(false) => "ended by stop()",
                            Some(true) => "completed",
                            None => "-",
                        }
                    ),
                )
                .with_sig("C11.wakeup/between-calls"),
            );
        }
    }
    let complete = Arc::new(AtomicBool::new(false));
    let waker: Arc<Mutex<Option<Waker>>> = Arc::new(Mutex::new(None));
    let polls = Arc::new(AtomicU32::new(0));
    let cb_rounds = Arc::new(AtomicU32::new(0));
    let idles_ran = Arc::new(AtomicU32::new(0));
    let closure_runs = Arc::new(AtomicU32::new(0));
    {
        let rounds = real_rounds.clone();
        let (complete, waker, cb_rounds, idles_ran, signal) = (complete.clone(), waker.clone(), cb_rounds.clone(), idles_ran.clone(), signal.clone());
        let weak = handle.downgrade();
        handle
            .insert_source(calloop::timer::Timer::immediate(), move |_, _, _| {
                let Some(h2) = weak.upgrade() else { return calloop::timer::TimeoutAction::Drop };
                let k = cb_rounds.fetch_add(1, Ordering::SeqCst) as usize;
                if let Some(r) = rounds.get(k) {
                    for a in r {
                        match a {
                            InAct::Stop => signal.stop(),
                            InAct::Complete => complete.store(true, Ordering::SeqCst),
                            InAct::Wake => {
                                let w = waker.lock().unwrap().clone();
                                if let Some(w) = w {
                                    w.wake();
                                }
                            }
                            InAct::Wakeup => signal.wakeup(),
                            InAct::Idle => {
                                let n = idles_ran.clone();
                                let _ = h2.insert_idle(move |_| {
                                    n.fetch_add(1, Ordering::SeqCst);
                                });
                            }
                            InAct::IdleStop => {
                                let n = idles_ran.clone();
                                let sig = signal.clone();
                                let _ = h2.insert_idle(move |_| {
                                    n.fetch_add(1, Ordering::SeqCst);
                                    sig.stop();
                                    sig.wakeup();
                                });
                            }
                            InAct::IdleChain => {
                                let n = idles_ran.clone();
                                let w2 = h2.downgrade();
                                let _ = h2.insert_idle(move |_| {
                                    n.fetch_add(1, Ordering::SeqCst);
                                    if let Some(h3) = w2.upgrade() {
                                        let n2 = n.clone();
                                        let _ = h3.insert_idle(move |_| {
                                            n2.fetch_add(1, Ordering::SeqCst);
                                        });
                                    }
                                });
                            }
                        }
                    }
                    calloop::timer::TimeoutAction::ToDuration(Duration::ZERO)
                } else {
                    calloop::timer::TimeoutAction::Drop
                }
            })
            .expect("insert timer");
    }
    // last resort: a loop that does not leave although it was asked to (and then sleeps for ever because the script is
    // over) is made to leave after 1.5 s - the closure stops queueing idles, stop() and wakeup() are repeated. The
    // verdict then comes from the counts below (iterations run, idles run), never from this timer.
    let give_up = Arc::new(AtomicBool::new(false));
    {
        let (g, sig) = (give_up.clone(), signal.clone());
        handle
            .insert_source(calloop::timer::Timer::from_duration(Duration::from_millis(1500)), move |_, _, _| {
                g.store(true, Ordering::SeqCst);
                sig.stop();
                sig.wakeup();
                calloop::timer::TimeoutAction::ToDuration(Duration::from_millis(200))
            })
            .expect("insert rescue timer");
    }
    let cr = closure_runs.clone();
    let closure_idle = case.closure_idle;
    let (weak_c, idles_c, give_up_c) = (handle.downgrade(), idles_ran.clone(), give_up.clone());
    let (sig_c, stop_at) = (signal.clone(), case.closure_stop_at);
    let mut closure = move || {
        let k = cr.fetch_add(1, Ordering::SeqCst);
        if stop_at.map(|s| s as u32) == Some(k) {
            sig_c.stop();
            sig_c.wakeup();
        }
        if closure_idle && !give_up_c.load(Ordering::SeqCst) {
            if let Some(h) = weak_c.upgrade() {
                let n = idles_c.clone();
                let _ = h.insert_idle(move |_| {
                    n.fetch_add(1, Ordering::SeqCst);
                });
            }
        }
    };
    let got: Result<Option<u32>, String> = if case.block_on {
        el.block_on(InFut { complete: complete.clone(), waker: waker.clone(), polls: polls.clone(), stop_on_first: if first_poll_stop { Some(signal.clone()) } else { None } }, &mut (), move |_| closure())
        .map_err(|e| format!("{e}"))
    } else {
        el.run(None, &mut (), move |_| closure())
        .map(|()| None)
        .map_err(|e| format!("{e}"))
    };
    let mut info = CaseInfo::default();
    info.fingerprint = fingerprint(case);
    let stop_in_case = case.rounds.iter().any(|r| r.contains(&InAct::Stop));
    let same_round = case.rounds.iter().any(|r| r.contains(&InAct::Stop) && (r.contains(&InAct::Wake) || r.contains(&InAct::Idle) || r.contains(&InAct::IdleChain)));
    info.nontrivial = stop_in_case && same_round;
    info.classes.push(if case.block_on { "inloop_block_on" } else { "inloop_run" });
    if same_round {
        info.classes.push("inloop_stop_and_wake_or_idle_in_one_callback");
    }
    if !case.prelude.is_empty() {
        info.classes.push("inloop_after_an_earlier_block_on_on_the_same_loop");
    }
    if first_poll_stop {
        info.classes.push("inloop_stop_requested_by_the_first_poll");
    }
    if case.rounds.iter().any(|r| r.contains(&InAct::IdleStop)) {
        info.classes.push("inloop_stop_requested_by_an_idle_callback");
    }
    if case.closure_stop_at.is_some() {
        info.classes.push("inloop_stop_requested_by_the_per_iteration_closure");
    }
    if case.wakeup_between {
        info.classes.push(if case.prelude.last() == Some(&false) { "inloop_wakeup_between_calls_after_a_stopped_call" } else { "inloop_wakeup_between_calls" });
    }
    let viol = (|| {
        if let Some(v) = prelude_viol {
            return Some(v);
        }
        let got = match got {
            Ok(g) => g,
            Err(e) => return Some(Violation::new("C11.inloop", format!("loop returned an error: {e}"))),
        };
        let rounds_got = cb_rounds.load(Ordering::SeqCst) as usize;
        if give_up.load(Ordering::SeqCst) {
            return Some(
                Violation::new(
                    "C11.stop",
                    format!("the call did not return after the iteration in which stop() was requested (it ran {rounds_got} iterations' worth of callbacks, {rounds_run} expected, and had to be ended by the harness after 1.5 s)"),
                )
                .with_sig("C11.stop/inloop-did-not-leave"),
            );
        }
        if case.block_on {
            if got != want {
                let why = match (got, want) {
                    (Some(_), None) => "stop() was requested (from a callback on the loop thread) before the future completed",
                    (None, Some(_)) => "the future was woken and ready before any stop request",
                    _ => "wrong output",
                };
                return Some(Violation::new("C11.block_on_result", format!("block_on returned {got:?}, expected {want:?}: {why}")).with_sig("C11.block_on_result/inloop"));
            }
            let p = polls.load(Ordering::SeqCst);
            if p < m_polls_min {
                return Some(Violation::new("C11.block_on_wake", format!("the future was polled {p} times, at least {m_polls_min} expected (initially and after every dispatch that woke it)")).with_sig("C11.block_on_wake/inloop"));
            }
        }
        if rounds_got != rounds_run {
            return Some(
                Violation::new(
                    "C11.stop",
                    format!("the loop ran {rounds_got} iterations' worth of callbacks, expected exactly {rounds_run} (it has to finish the iteration in which stop() was called, and no further one)"),
                )
                .with_sig("C11.stop/inloop"),
            );
        }
        // idles inserted by source callbacks run in their iteration; idles inserted by idle callbacks or by the
        // per-iteration closure belong to the next iteration and do not run if the loop leaves first
        let ir = idles_ran.load(Ordering::SeqCst);
        if ir != idles_expected {
            return Some(
                Violation::new(
                    "C13.phase",
                    format!("{ir} idle callbacks ran inside the call, the reference model says {idles_expected} (idles of source callbacks run in their own iteration, idles inserted by idles or by the per-iteration closure in the following one - if there is one)"),
                )
                .with_sig("C13.phase/inloop-idles"),
            );
        }
        let c = closure_runs.load(Ordering::SeqCst) as usize;
        // the per-iteration closure runs once per completed iteration (block_on: also after the last dispatch unless it returned Some at its head)
        let lo = if case.block_on { rounds_run.saturating_sub(1) } else { rounds_run };
        if c < lo || c > rounds_run {
            return Some(Violation::new("C11.stop", format!("the per-iteration closure ran {c} times in {rounds_run} iterations")).with_sig("C11.stop/inloop-closure"));
        }
        None
    })();
    (info, viol)
}

pub fn check(ctx: &CheckCtx) -> Option<Found> {
    if let Some(f) = ctx.run_replays::<Case, _>("sched", run_case) {
        return Some(f);
    }
    if let Some(f) = ctx.run_replays::<InCase, _>("inloop", run_inloop) {
        return Some(f);
    }
    let t = ctx.tier;
    if let Some(f) = ctx.search("inloop", in_strategy(), t.pick(6000, 200_000), 8, None, run_inloop) {
        return Some(f);
    }
    // the second build profile runs a short schedule search as well: a wake-up that only exists in debug builds (a
    // notify inside a debug_assert!) is lost from another thread only (seed c11i)
    let child = crate::ship::is_child();
    if let Some(f) = ctx.search("sched", case_strategy(), if child { 1200 } else { t.pick(4000, 100_000) }, 6, None, run_case) {
        return Some(f);
    }
    if child {
        return None;
    }
    let tiny: Vec<(Mode, Vec<Vec<AOp>>)> = match t {
        Tier::Quick => vec![(Mode::RunNone, vec![vec![AOp::StopWakeup]])],
        Tier::Thorough => vec![
            (Mode::RunNone, vec![vec![AOp::StopWakeup]]),
            (Mode::RunNone, vec![vec![AOp::Wakeup, AOp::StopWakeup]]),
            (Mode::BlockOn, vec![vec![AOp::CompleteWake]]),
            (Mode::BlockOn, vec![vec![AOp::Wake, AOp::CompleteWake]]),
        ],
    };
    for (mode, actors) in tiny {
        if let Some(f) = dfs(ctx, mode, actors, t.pick(1500, 60_000)) {
            return Some(f);
        }
    }
    None
}

pub fn replay(_ctx: &CheckCtx, sub: &str, case: serde_json::Value) -> Result<Option<Violation>, String> {
    if sub == "inloop" {
        let c: InCase = serde_json::from_value(case).map_err(|e| e.to_string())?;
        return Ok(run_inloop(&c).1);
    }
    let c: Case = serde_json::from_value(case).map_err(|e| e.to_string())?;
    Ok(run_case(&c).1)
}
