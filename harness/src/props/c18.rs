//! C18 — TransientSource keeps its child's registration in step with its state.
//!
//! History machine over a REAL `EventLoop`: an instrumented child (a wrapper over a real
//! `Generic<eventfd>` or a real `Timer`) is wrapped in `TransientSource` and driven through
//! generated, protocol-conforming operation sequences in two embeddings:
//!
//! * `Top`  — the `TransientSource<Child>` itself is the top-level source (registered through a
//!            `Dispatcher`, so `remove()/replace()/map()` can be called between dispatches;
//!            parent register/unregister/reregister = `handle.enable/disable/update`).
//! * `Comp` — a parent composite in the style of the calloop book: fields `transient` and
//!            `sibling` register in field order through the shared `TokenFactory`; every
//!            `(readiness, token)` is forwarded to both children; `remove()/replace()` may also be
//!            performed by the parent inside `process_events`, which then returns `Reregister`.
//!
//! Oracle = an explicit reference machine (a monitor): per child ever created a status
//! Kept / Disabled (child asked `PostAction::Disable`) / Gone, fed with the calls the
//! instrumented children observe (register / reregister / unregister / drop / event produced) in
//! the order they happened. After every step the child's own `registered` flag, the kernel epoll
//! table (fd children) and the timer heap length (timer children) must equal
//! `parent registered && child is the current one && status == Kept`.
//!
//! Readings of the statement encoded here (each marked `READING` below):
//!  R1 a child that asked for `Disable` is unregistered by the re-registration that follows and
//!     stays so; further parent reregister/unregister calls must not unregister it again.
//!  R2 the only thing that ends `Disabled` is a parent `register` (what `test_transient_disable`
//!     does); whether a parent register re-registers a disabled child is left open: the model
//!     adopts what the child observed (registered => Kept again, else still Disabled).
//!  R3 "current child" is what `map()` must reach; a removed child (by `remove()` or by its own
//!     `Remove`) stops being current at that moment, a `replace(new)` makes `new` current at
//!     that moment ("No more events will be generated from the old source after this point").
//!  R4 `replace()` on an EMPTY wrapper: the statement is silent; both "new is wrapped" and "new
//!     is dropped on the spot" are accepted (calloop does the latter).
//!  R5 when a child must be dropped is not stated; only: never while registered, exactly once by
//!     the time the loop and the dispatcher are gone.

use crate::driver::{CaseOutcome, CheckCtx, Found, PropMeta, Tier, Violation};
use crate::evidence::{fingerprint, CaseInfo};
use crate::kernel::{self, BorrowedRaw};
use calloop::generic::Generic;
use calloop::timer::{TimeoutAction, Timer};
use calloop::transient::TransientSource;
use calloop::{
    Dispatcher, EventLoop, EventSource, Interest, LoopHandle, Mode, Poll, PostAction, Readiness, RegistrationToken,
    Token, TokenFactory,
};
use proptest::prelude::*;
use serde::{Deserialize, Serialize};
use std::cell::RefCell;
use std::os::unix::io::{AsRawFd, RawFd};
use std::rc::Rc;
use std::sync::atomic::{AtomicBool, AtomicU64, AtomicUsize, Ordering};
use std::sync::Mutex;
use std::time::{Duration, Instant};

pub const META: PropMeta = PropMeta {
    id: "C18",
    level: "exploration",
    rule: "case = (embedding Top|Comp, child kind Fd|Timer, start From<T>|Default, op list over {Fire(child's next event returns Continue|Reregister|Disable|Remove; in Comp the parent may remove()/replace() right after the child fired), FireSibling(parent may remove()/replace() when the sibling fires), FireOld(ping replaced/removed children), remove()+update, replace(new)+update, fill+update (replace(new) when the wrapper holds something, `*t = new.into()` when is_none(); also as a parent action), map(), enable, disable, update, dispatch}) with the documented protocol built in (remove/replace from outside are followed by update(token), or take effect at the next enable when the parent is disabled; enable/disable alternate; no update on a disabled parent). non-trivial: the executed history contains a child-requested Disable or Remove that was actually delivered, or a replace() on a non-empty wrapper, followed IN A LATER STEP by at least one more parent register/reregister/unregister call. fd children may all be Generic sources over ONE shared eventfd, alternately level and edge triggered (kernel entry = the current child's). distinct: fingerprint of (embedding, kind, start, executed ops) after dropping ops the discipline turned into no-ops; enumerated part: distinct by construction",
    assumptions: &[
        "the instrumented child is the only holder of its fd / timer, so the kernel table and the timer heap can only change through calls the child observes (table re-read only after steps with such calls)",
        "/proc/self/fdinfo/<epfd> lists the registered fds",
        "LoopHandle::verif_stats().timer_heap_len is the number of armed timers (hook commit)",
        "timer children re-arm to now+1h from their callback, so an armed timer is exactly one heap entry; in Comp+Timer the sibling never triggers remove()/replace() (a re-registration ahead of an already collected timer expiry would run into the Timer duplicate-arming behaviour of candidate F5, which is C05's business)",
        "the fd child does not filter by token (drains its eventfd whenever process_events is called), the timer child filters as calloop's Timer does",
    ],
};

/// Signature of candidate finding F11 (child-requested Disable, then any further parent
/// reregister/unregister unregisters the child a second time).
pub const SIG_F11: &str = "C18.double/unregister-after-child-disable";

// ------------------------------------------------------------------------------------------
// case grammar
// ------------------------------------------------------------------------------------------

#[derive(Serialize, Deserialize, Debug, Clone, Copy, Hash, PartialEq, Eq)]
pub enum Emb {
    Top,
    Comp,
}

#[derive(Serialize, Deserialize, Debug, Clone, Copy, Hash, PartialEq, Eq)]
pub enum Kind {
    Fd,
    Timer,
}

#[derive(Serialize, Deserialize, Debug, Clone, Copy, Hash, PartialEq, Eq)]
pub enum Ret {
    Continue,
    Reregister,
    Disable,
    Remove,
}

impl Ret {
    fn post(self) -> PostAction {
        match self {
            Ret::Continue => PostAction::Continue,
            Ret::Reregister => PostAction::Reregister,
            Ret::Disable => PostAction::Disable,
            Ret::Remove => PostAction::Remove,
        }
    }
}

/// What the composite parent does inside `process_events` (then it returns `Reregister`).
#[derive(Serialize, Deserialize, Debug, Clone, Copy, Hash, PartialEq, Eq)]
pub enum Act {
    None,
    Remove,
    Replace,
    /// "put this source into the slot": `replace(new)` when the wrapper holds something, `*t = new.into()` when
    /// `is_none()` (replace() on an empty wrapper drops the new source, so assignment is the only way to refill it)
    Fill,
}

#[derive(Serialize, Deserialize, Debug, Clone, Copy, Hash, PartialEq, Eq)]
pub enum Op {
    /// Make the current child ready (fd: eventfd write; timer: `map(set_deadline(now))` + `update`
    /// when the parent is registered), script the value its next event returns, dispatch once.
    /// Comp: right after the child fired the parent performs `act`.
    Fire { ret: Ret, act: Act },
    /// Comp only: make the sibling ready, dispatch once; when the sibling fires the parent
    /// performs `act` BEFORE forwarding the event to the transient field.
    FireSibling { act: Act },
    /// Make every removed/replaced fd child ready, dispatch once.
    FireOld,
    /// `remove()` from outside (+ `update(token)` when the parent is registered).
    Remove,
    /// `replace(new child)` from outside (+ `update(token)` when the parent is registered).
    Replace,
    /// `Act::Fill` from outside (+ `update(token)` when the parent is registered).
    Fill,
    /// `map(|c| c.id)` compared with the reference machine's current child.
    Map,
    Enable,
    Disable,
    Update,
    Dispatch,
}

#[derive(Serialize, Deserialize, Debug, Clone, Hash, PartialEq, Eq)]
pub struct Case {
    pub emb: Emb,
    pub kind: Kind,
    /// true: `TransientSource::from(child)`; false: `TransientSource::default()`
    pub from: bool,
    pub ops: Vec<Op>,
    /// fd children only: every child of the case (not the sibling) is a Generic over ONE shared eventfd - the usual way
    /// to swap a source for one with another mode or interest on the same descriptor
    #[serde(default)]
    pub same_fd: bool,
}

/// `avoid_f11`: while F11 is open nothing can be explored behind a child-requested Disable
/// (every registration path runs into it), so the generator asks for it less often.
fn ret_strategy(avoid_f11: bool) -> impl Strategy<Value = Ret> {
    prop_oneof![
        6 => Just(Ret::Continue),
        4 => Just(Ret::Reregister),
        if avoid_f11 { 1 } else { 4 } => Just(Ret::Disable),
        2 => Just(Ret::Remove),
    ]
}

fn act_strategy() -> impl Strategy<Value = Act> {
    prop_oneof![
        4 => Just(Act::None),
        1 => Just(Act::Remove),
        2 => Just(Act::Replace),
        1 => Just(Act::Fill),
    ]
}

fn op_strategy(avoid_f11: bool) -> impl Strategy<Value = Op> {
    prop_oneof![
        6 => (ret_strategy(avoid_f11), act_strategy()).prop_map(|(ret, act)| Op::Fire { ret, act }),
        2 => act_strategy().prop_map(|act| Op::FireSibling { act }),
        2 => prop_oneof![Just(Op::FireOld), Just(Op::Remove)],
        3 => Just(Op::Replace),
        2 => Just(Op::Fill),
        1 => Just(Op::Map),
        2 => Just(Op::Enable),
        2 => Just(Op::Disable),
        2 => Just(Op::Update),
        1 => Just(Op::Dispatch),
    ]
}

fn case_strategy(max_len: usize, avoid_f11: bool) -> impl Strategy<Value = Case> {
    (
        prop_oneof![Just(Emb::Top), Just(Emb::Comp)],
        prop_oneof![2 => Just(Kind::Fd), 1 => Just(Kind::Timer)],
        prop_oneof![5 => Just(true), 1 => Just(false)],
        proptest::collection::vec(op_strategy(avoid_f11), 0..=max_len),
        prop::bool::weighted(0.3),
    )
        .prop_map(|(emb, kind, from, ops, same_fd)| Case { emb, kind, from, ops, same_fd: same_fd && kind == Kind::Fd })
}

/// Histories in which every child is a Generic over one shared eventfd (used by C16 as well).
pub fn same_fd_strategy(max_len: usize, avoid_f11: bool) -> impl Strategy<Value = Case> {
    (prop_oneof![Just(Emb::Top), Just(Emb::Comp)], prop_oneof![5 => Just(true), 1 => Just(false)], proptest::collection::vec(op_strategy(avoid_f11), 0..=max_len))
        .prop_map(|(emb, from, ops)| Case { emb, kind: Kind::Fd, from, ops, same_fd: true })
}

// ------------------------------------------------------------------------------------------
// the real side: instrumented children, the composite parent, the world
// ------------------------------------------------------------------------------------------

#[derive(Clone, Copy, Debug, PartialEq)]
enum Ev {
    Reg { id: usize, ok: bool },
    Rereg { id: usize, ok: bool },
    Unreg { id: usize, ok: bool },
    Drop { id: usize },
    /// the user callback ran with an event produced by child `id`
    Cb { id: usize },
    /// child `id` produced an event and returned `ret` from process_events
    Fired { id: usize, ret: Ret },
    /// `remove()` was called on the wrapper
    DidRemove,
    /// `replace(new)` was called on the wrapper; `was_none` = `is_none()` right before
    DidReplace { new: usize, was_none: bool },
    /// `*t = TransientSource::from(new)` on an empty wrapper
    DidFill { new: usize },
    /// Comp: `TransientSource::process_events` returned `ret`
    TRet { ret: PostAction, was_none: bool, none_after: bool, quiet: bool },
}

struct ShInner {
    trace: Vec<Ev>,
    /// per child id: its eventfd (-1 for timer children)
    fds: Vec<RawFd>,
    /// per child id: value the next produced event returns
    script: Vec<Option<Ret>>,
    sibling: Option<usize>,
    /// Comp: pending parent action for "sibling fired" / "child fired"
    sib_act: Option<Act>,
    child_act: Option<Act>,
}

impl Drop for ShInner {
    fn drop(&mut self) {
        // (children may share an fd: close each one once)
        let mut fds: Vec<RawFd> = self.fds.iter().copied().filter(|fd| *fd >= 0).collect();
        fds.sort_unstable();
        fds.dedup();
        for fd in fds {
            kernel::close(fd);
        }
    }
}

/// State shared (single thread) between the interpreter, the children and the parent.
struct Sh {
    kind: Kind,
    /// all non-sibling fd children share one eventfd
    same_fd: bool,
    inner: RefCell<ShInner>,
}

impl Sh {
    fn log(&self, ev: Ev) {
        self.inner.borrow_mut().trace.push(ev);
    }
}

enum Inner {
    Fd(Generic<BorrowedRaw>),
    Timer(Timer),
}

/// The instrumented child: a thin wrapper over a real calloop source.
struct Child {
    id: usize,
    fd: RawFd,
    inner: Inner,
    sh: Rc<Sh>,
}

fn far() -> Instant {
    Instant::now() + Duration::from_secs(3600)
}

fn new_child(sh: &Rc<Sh>, kind: Kind) -> Child {
    new_child_shared(sh, kind, sh.same_fd)
}

fn new_child_shared(sh: &Rc<Sh>, kind: Kind, share: bool) -> Child {
    let mut g = sh.inner.borrow_mut();
    let id = g.fds.len();
    let (fd, inner) = match kind {
        Kind::Fd => {
            // the shared eventfd is the one of the first non-sibling fd child
            let shared = if share { g.fds.iter().enumerate().find(|(i, fd)| **fd >= 0 && g.sibling != Some(*i)).map(|(_, fd)| *fd) } else { None };
            let fd = shared.unwrap_or_else(kernel::eventfd_nonblock);
            assert!(fd >= 0, "eventfd failed (fd exhaustion?)");
            // children sharing the fd alternate between level and edge triggering: swapping a source for one with
            // another mode on the same descriptor is what sharing is for, and the kernel entry shows whose it is
            let mode = if share && id % 2 == 1 { Mode::Edge } else { Mode::Level };
            (fd, Inner::Fd(Generic::new(BorrowedRaw(fd), Interest::READ, mode)))
        }
        Kind::Timer => (-1, Inner::Timer(Timer::from_deadline(far()))),
    };
    g.fds.push(fd);
    g.script.push(None);
    Child { id, fd, inner, sh: sh.clone() }
}

impl Child {
    /// timer children: make the timer due (takes effect at the next (re)registration)
    fn arm_now(&mut self) {
        if let Inner::Timer(t) = &mut self.inner {
            t.set_deadline(Instant::now());
        }
    }
}

impl Drop for Child {
    fn drop(&mut self) {
        self.sh.log(Ev::Drop { id: self.id });
    }
}

/// `#[derive(Default)]` on `TransientSource<T>` demands `T: Default` although the empty wrapper
/// never constructs a `T`; this impl only satisfies the bound.
impl Default for Child {
    fn default() -> Self {
        unreachable!("TransientSource::default() must not construct a child")
    }
}

impl EventSource for Child {
    type Event = usize;
    type Metadata = ();
    type Ret = ();
    type Error = std::io::Error;

    fn process_events<F>(&mut self, readiness: Readiness, token: Token, mut cb: F) -> Result<PostAction, Self::Error>
    where
        F: FnMut(usize, &mut ()),
    {
        let fired = match &mut self.inner {
            // no token filter: whoever forwards an event to this child gets whatever it has
            Inner::Fd(_) => kernel::eventfd_read(self.fd).is_some(),
            Inner::Timer(t) => {
                let mut fired = false;
                t.process_events(readiness, token, |_, _| {
                    fired = true;
                    TimeoutAction::ToInstant(far())
                })?;
                fired
            }
        };
        if !fired {
            return Ok(PostAction::Continue);
        }
        cb(self.id, &mut ());
        let ret = self.sh.inner.borrow_mut().script[self.id].take().unwrap_or(Ret::Continue);
        self.sh.log(Ev::Fired { id: self.id, ret });
        Ok(ret.post())
    }

    fn register(&mut self, poll: &mut Poll, tf: &mut TokenFactory) -> calloop::Result<()> {
        let r = match &mut self.inner {
            Inner::Fd(g) => g.register(poll, tf),
            Inner::Timer(t) => t.register(poll, tf),
        };
        self.sh.log(Ev::Reg { id: self.id, ok: r.is_ok() });
        r
    }

    fn reregister(&mut self, poll: &mut Poll, tf: &mut TokenFactory) -> calloop::Result<()> {
        let r = match &mut self.inner {
            Inner::Fd(g) => g.reregister(poll, tf),
            Inner::Timer(t) => t.reregister(poll, tf),
        };
        self.sh.log(Ev::Rereg { id: self.id, ok: r.is_ok() });
        r
    }

    fn unregister(&mut self, poll: &mut Poll) -> calloop::Result<()> {
        let r = match &mut self.inner {
            Inner::Fd(g) => g.unregister(poll),
            Inner::Timer(t) => t.unregister(poll),
        };
        self.sh.log(Ev::Unreg { id: self.id, ok: r.is_ok() });
        r
    }
}

fn apply_act(t: &mut TransientSource<Child>, sh: &Rc<Sh>, act: Act) {
    match act {
        Act::None => {}
        Act::Remove => {
            t.remove();
            sh.log(Ev::DidRemove);
        }
        Act::Replace => {
            let was_none = t.is_none();
            let c = new_child(sh, sh.kind);
            let new = c.id;
            t.replace(c);
            sh.log(Ev::DidReplace { new, was_none });
        }
        Act::Fill => {
            let c = new_child(sh, sh.kind);
            let new = c.id;
            if t.is_none() {
                *t = c.into();
                sh.log(Ev::DidFill { new });
            } else {
                t.replace(c);
                sh.log(Ev::DidReplace { new, was_none: false });
            }
        }
    }
}

/// Composite parent, written as the calloop book and the `TransientSource` docs describe.
struct Parent {
    transient: TransientSource<Child>,
    sibling: Child,
    sh: Rc<Sh>,
}

impl EventSource for Parent {
    type Event = usize;
    type Metadata = ();
    type Ret = ();
    type Error = std::io::Error;

    fn process_events<F>(&mut self, readiness: Readiness, token: Token, mut cb: F) -> Result<PostAction, Self::Error>
    where
        F: FnMut(usize, &mut ()),
    {
        let mut reregister = false;

        let mut sib_fired = false;
        let sib_ret = self.sibling.process_events(readiness, token, |id, md| {
            sib_fired = true;
            cb(id, md)
        })?;
        if sib_fired {
            let act = self.sh.inner.borrow_mut().sib_act.take();
            if let Some(act) = act {
                apply_act(&mut self.transient, &self.sh, act);
                reregister = true;
            }
        }

        let was_none = self.transient.is_none();
        let mark = self.sh.inner.borrow().trace.len();
        let mut child_fired = false;
        let t_ret = self.transient.process_events(readiness, token, |id, md| {
            child_fired = true;
            cb(id, md)
        })?;
        let quiet = self.sh.inner.borrow().trace.len() == mark;
        self.sh.log(Ev::TRet { ret: t_ret, was_none, none_after: self.transient.is_none(), quiet });
        if child_fired {
            let act = self.sh.inner.borrow_mut().child_act.take();
            if let Some(act) = act {
                apply_act(&mut self.transient, &self.sh, act);
                reregister = true;
            }
        }

        // "just check for Continue or Reregister and pass that back out", combined with the others
        let mut out = t_ret | sib_ret;
        if reregister {
            out |= PostAction::Reregister;
        }
        Ok(out)
    }

    fn register(&mut self, poll: &mut Poll, tf: &mut TokenFactory) -> calloop::Result<()> {
        self.transient.register(poll, tf)?;
        self.sibling.register(poll, tf)
    }

    fn reregister(&mut self, poll: &mut Poll, tf: &mut TokenFactory) -> calloop::Result<()> {
        self.transient.reregister(poll, tf)?;
        self.sibling.reregister(poll, tf)
    }

    fn unregister(&mut self, poll: &mut Poll) -> calloop::Result<()> {
        self.transient.unregister(poll)?;
        self.sibling.unregister(poll)
    }
}

enum Disp {
    Top(Dispatcher<'static, TransientSource<Child>, ()>),
    Comp(Dispatcher<'static, Parent, ()>),
}

impl Disp {
    fn with_t<R>(&self, f: impl FnOnce(&mut TransientSource<Child>) -> R) -> R {
        match self {
            Disp::Top(d) => f(&mut d.as_source_mut()),
            Disp::Comp(d) => f(&mut d.as_source_mut().transient),
        }
    }
}

// ------------------------------------------------------------------------------------------
// the reference side
// ------------------------------------------------------------------------------------------

#[derive(Clone, Copy, Debug, PartialEq, Eq)]
enum St {
    /// created, not (yet) wrapped
    Fresh,
    Kept,
    /// asked for PostAction::Disable
    Disabled,
    /// removed or replaced (or never wrapped)
    Gone,
}

#[derive(Clone, Debug)]
struct ChildM {
    status: St,
    /// the child's own view: last successful register/unregister
    flag: bool,
    drops: u32,
    wrapped: bool,
    /// it asked for Disable at some point (for the F11 signature)
    self_disabled: bool,
    sibling: bool,
}

struct Model {
    kind: Kind,
    parent_reg: bool,
    cur: Option<usize>,
    ch: Vec<ChildM>,
    /// the step being fed is a parent `register`
    in_enable: bool,
}

fn v(rule: &str, sig: &str, detail: String) -> Violation {
    Violation::new(rule, detail).with_sig(format!("{rule}/{sig}"))
}

impl Model {
    fn child(&mut self, id: usize) -> &mut ChildM {
        while self.ch.len() <= id {
            self.ch.push(ChildM { status: St::Fresh, flag: false, drops: 0, wrapped: false, self_disabled: false, sibling: false });
        }
        &mut self.ch[id]
    }

    fn expected(&self, id: usize) -> bool {
        let c = &self.ch[id];
        if c.sibling {
            return self.parent_reg;
        }
        self.parent_reg && self.cur == Some(id) && c.status == St::Kept
    }

    fn feed(&mut self, ev: Ev) -> Option<Violation> {
        match ev {
            Ev::Reg { id, ok } => {
                let in_enable = self.in_enable;
                let cur = self.cur;
                let c = self.child(id);
                if c.sibling {
                    c.flag = c.flag || ok;
                    return None;
                }
                if c.flag {
                    return Some(v("C18.double", "register-while-registered", format!("child {id} got register() while it is registered (status {:?}, inner call ok={ok})", c.status)));
                }
                if ok {
                    c.flag = true;
                }
                // READING R2: a parent register may re-enable a child that disabled itself
                if in_enable && cur == Some(id) && c.status == St::Disabled && ok {
                    c.status = St::Kept;
                }
                None
            }
            Ev::Rereg { id, ok } => {
                let kind = self.kind;
                let c = self.child(id);
                // a Timer's reregister is unregister+register, a Generic's is a MOD of the existing entry
                if kind == Kind::Timer && ok {
                    c.flag = true;
                }
                None
            }
            Ev::Unreg { id, ok } => {
                let c = self.child(id);
                if c.sibling {
                    if ok {
                        c.flag = false;
                    }
                    return None;
                }
                if !c.flag {
                    // READING R1 (generator guarantees that parent register/unregister alternate)
                    let sig = if c.self_disabled { "unregister-after-child-disable" } else { "unregister-while-unregistered" };
                    return Some(v(
                        "C18.double",
                        sig,
                        format!(
                            "child {id} got unregister() while it is not registered (status {:?}{}, inner call ok={ok}); expected no second unregister",
                            c.status,
                            if c.self_disabled { ", it had asked for PostAction::Disable and was unregistered then" } else { "" }
                        ),
                    ));
                }
                c.flag = false;
                None
            }
            Ev::Drop { id } => {
                let c = self.child(id);
                c.drops += 1;
                if c.drops > 1 {
                    return Some(v("C18.drop", "dropped-twice", format!("child {id} dropped {} times", c.drops)));
                }
                if c.flag && !c.sibling {
                    return Some(v("C18.drop", "dropped-while-registered", format!("child {id} (status {:?}) dropped while still registered; expected unregister() first", c.status)));
                }
                if c.status == St::Fresh {
                    c.status = St::Gone;
                }
                None
            }
            Ev::Cb { id } => {
                let preg = self.parent_reg;
                let cur = self.cur;
                let c = self.child(id);
                if c.sibling {
                    return None;
                }
                if cur != Some(id) || c.status != St::Kept || !preg {
                    return Some(v(
                        "C18.forward",
                        "event-from-non-current-child",
                        format!("callback got an event from child {id} (status {:?}, current child {:?}, parent registered {preg}); only the current kept child may produce events", c.status, cur),
                    ));
                }
                None
            }
            Ev::Fired { id, ret } => {
                let cur = self.cur;
                let c = self.child(id);
                if c.sibling || cur != Some(id) {
                    return None; // judged at Cb
                }
                match ret {
                    Ret::Continue | Ret::Reregister => {}
                    Ret::Disable => {
                        c.status = St::Disabled;
                        c.self_disabled = true;
                    }
                    Ret::Remove => {
                        // READING R3
                        c.status = St::Gone;
                        self.cur = None;
                    }
                }
                None
            }
            Ev::DidRemove => {
                if let Some(id) = self.cur.take() {
                    self.child(id).status = St::Gone;
                }
                None
            }
            Ev::DidReplace { new, was_none } => {
                let dropped = self.child(new).drops > 0;
                if was_none && dropped {
                    // READING R4: not wrapped, dropped on the spot; the wrapper stays empty
                    self.child(new).status = St::Gone;
                    return None;
                }
                if let Some(old) = self.cur.take() {
                    self.child(old).status = St::Gone;
                }
                if dropped {
                    self.child(new).status = St::Gone;
                } else {
                    let c = self.child(new);
                    c.status = St::Kept;
                    c.wrapped = true;
                    self.cur = Some(new);
                }
                None
            }
            Ev::DidFill { new } => {
                // the wrapper was empty (is_none()): nothing to unregister, the new child is the current one at once
                self.cur = Some(new);
                let c = self.child(new);
                c.status = St::Kept;
                c.wrapped = true;
                None
            }
            Ev::TRet { ret, was_none, none_after, quiet } => {
                if !matches!(ret, PostAction::Continue | PostAction::Reregister) {
                    return Some(v("C18.ret", "not-continue-or-reregister", format!("TransientSource::process_events returned {ret:?}; only Continue or Reregister are allowed")));
                }
                if was_none && (ret != PostAction::Continue || !none_after || !quiet) {
                    return Some(v(
                        "C18.empty",
                        "empty-wrapper-did-something",
                        format!("process_events on an empty wrapper returned {ret:?}, is_none() afterwards = {none_after}, child activity = {}", !quiet),
                    ));
                }
                None
            }
        }
    }
}

// ------------------------------------------------------------------------------------------
// interpreter
// ------------------------------------------------------------------------------------------

#[derive(Clone, Copy, PartialEq, Eq)]
enum Applic {
    Yes,
    /// the discipline / the embedding turns the op into a no-op
    No,
    /// only skipped because of the open known finding F11
    Steered,
}

struct World {
    el: Option<EventLoop<'static, ()>>,
    handle: Option<LoopHandle<'static, ()>>,
    epfd: RawFd,
    sh: Rc<Sh>,
    disp: Option<Disp>,
    token: RegistrationToken,
    emb: Emb,
    kind: Kind,
    model: Model,
    avoid_f11: bool,
    executed: Vec<Op>,
    excluded: u64,
    // evidence
    parent_calls_by_step: Vec<u32>,
    change_step: Option<usize>,
    classes: Vec<&'static str>,
    events_delivered: u64,
    kernel_reads: u64,
    /// the step being settled runs a dispatch (a remove()/replace() seen then was done by the
    /// parent inside process_events and implies one parent reregistration)
    in_dispatch: bool,
}

fn class(w: &mut World, c: &'static str) {
    if !w.classes.contains(&c) {
        w.classes.push(c);
    }
}

impl World {
    fn new(case: &Case, avoid_f11: bool) -> (World, Option<Violation>) {
        let el: EventLoop<'static, ()> = EventLoop::try_new().expect("event loop");
        let epfd = el.as_raw_fd();
        let handle = el.handle();
        let sh = Rc::new(Sh {
            kind: case.kind,
            same_fd: case.same_fd && case.kind == Kind::Fd,
            inner: RefCell::new(ShInner { trace: Vec::new(), fds: Vec::new(), script: Vec::new(), sibling: None, sib_act: None, child_act: None }),
        });
        let mut model = Model { kind: case.kind, parent_reg: false, cur: None, ch: Vec::new(), in_enable: false };
        let transient: TransientSource<Child> = if case.from {
            let c = new_child(&sh, case.kind);
            let m = model.child(c.id);
            m.status = St::Kept;
            m.wrapped = true;
            model.cur = Some(c.id);
            c.into()
        } else {
            TransientSource::default()
        };
        let cbsh = sh.clone();
        let (disp, token) = match case.emb {
            Emb::Top => {
                let d = Dispatcher::new(transient, move |id: usize, _: &mut (), _: &mut ()| cbsh.log(Ev::Cb { id }));
                model.in_enable = true;
                let t = handle.register_dispatcher(d.clone()).expect("register_dispatcher(top)");
                (Disp::Top(d), t)
            }
            Emb::Comp => {
                // the sibling is always fd backed
                let sibling = new_child_shared(&sh, Kind::Fd, false);
                sh.inner.borrow_mut().sibling = Some(sibling.id);
                model.child(sibling.id).sibling = true;
                let p = Parent { transient, sibling, sh: sh.clone() };
                let d = Dispatcher::new(p, move |id: usize, _: &mut (), _: &mut ()| cbsh.log(Ev::Cb { id }));
                model.in_enable = true;
                let t = handle.register_dispatcher(d.clone()).expect("register_dispatcher(comp)");
                (Disp::Comp(d), t)
            }
        };
        model.parent_reg = true;
        let mut w = World {
            el: Some(el),
            handle: Some(handle),
            epfd,
            sh,
            disp: Some(disp),
            token,
            emb: case.emb,
            kind: case.kind,
            model,
            avoid_f11,
            executed: Vec::new(),
            excluded: 0,
            parent_calls_by_step: Vec::new(),
            change_step: None,
            classes: Vec::new(),
            events_delivered: 0,
            kernel_reads: 0,
            in_dispatch: false,
        };
        let viol = w.settle("insert", Ok(()), true);
        w.model.in_enable = false;
        (w, viol)
    }

    fn blocked(&self) -> bool {
        self.avoid_f11
            && self.model.parent_reg
            && self.model.cur.map(|c| self.model.ch[c].status == St::Disabled).unwrap_or(false)
    }

    fn has_old_fd(&self) -> bool {
        self.kind == Kind::Fd && self.model.ch.iter().any(|c| !c.sibling && c.wrapped && c.status == St::Gone)
    }

    /// Normalise an op for this configuration (acts that cannot apply become `None`).
    fn normalise(&self, op: Op) -> Op {
        match op {
            Op::Fire { ret, act } => {
                let act = if self.emb == Emb::Top { Act::None } else { act };
                Op::Fire { ret, act }
            }
            Op::FireSibling { act } => {
                // Comp+Timer: see META.assumptions
                let act = if self.kind == Kind::Timer { Act::None } else { act };
                Op::FireSibling { act }
            }
            o => o,
        }
    }

    fn applicable(&self, op: Op) -> Applic {
        let blocked = self.blocked();
        let preg = self.model.parent_reg;
        match op {
            Op::Fire { .. } => {
                if self.model.cur.is_none() {
                    Applic::No
                } else {
                    Applic::Yes
                }
            }
            Op::FireSibling { act } => {
                if self.emb == Emb::Top {
                    Applic::No
                } else if blocked && act != Act::None {
                    Applic::Steered
                } else {
                    Applic::Yes
                }
            }
            Op::FireOld => {
                if self.has_old_fd() {
                    Applic::Yes
                } else {
                    Applic::No
                }
            }
            Op::Remove | Op::Replace | Op::Fill => {
                if blocked {
                    Applic::Steered
                } else {
                    Applic::Yes
                }
            }
            Op::Map | Op::Dispatch => Applic::Yes,
            Op::Enable => {
                if preg {
                    Applic::No
                } else {
                    Applic::Yes
                }
            }
            Op::Disable | Op::Update => {
                if !preg {
                    Applic::No
                } else if blocked {
                    Applic::Steered
                } else {
                    Applic::Yes
                }
            }
        }
    }

    fn handle(&self) -> &LoopHandle<'static, ()> {
        self.handle.as_ref().unwrap()
    }

    fn dispatch(&mut self) -> calloop::Result<()> {
        self.el.as_mut().unwrap().dispatch(Some(Duration::ZERO), &mut ())
    }

    fn parent_call(&mut self) {
        if let Some(n) = self.parent_calls_by_step.last_mut() {
            *n += 1;
        }
    }

    /// `map(|c| c.id)` must reach exactly the current child (READING R3).
    fn check_map(&self, got: Option<usize>, what: &str) -> Option<Violation> {
        if got != self.model.cur {
            return Some(v(
                "C18.forward",
                "map-reaches-non-current",
                format!("{what}: map() reached {got:?}, the current child is {:?}", self.model.cur),
            ));
        }
        None
    }

    /// Feed the recorded calls to the monitor, judge the result of the step, compare states.
    fn settle(&mut self, what: &str, res: calloop::Result<()>, force_kernel: bool) -> Option<Violation> {
        let trace: Vec<Ev> = std::mem::take(&mut self.sh.inner.borrow_mut().trace);
        let mut touched = force_kernel;
        for ev in &trace {
            match ev {
                Ev::Reg { .. } | Ev::Rereg { .. } | Ev::Unreg { .. } | Ev::Drop { .. } => touched = true,
                Ev::Cb { .. } => self.events_delivered += 1,
                Ev::Fired { id, ret } => {
                    if self.model.cur == Some(*id) {
                        match ret {
                            Ret::Disable => {
                                class(self, "child_requested_disable");
                                self.change_step.get_or_insert(self.parent_calls_by_step.len().saturating_sub(1));
                                self.parent_call();
                            }
                            Ret::Remove => {
                                class(self, "child_requested_remove");
                                self.change_step.get_or_insert(self.parent_calls_by_step.len().saturating_sub(1));
                                self.parent_call();
                            }
                            Ret::Reregister => {
                                class(self, "child_requested_reregister");
                                self.parent_call();
                            }
                            Ret::Continue => {}
                        }
                    }
                }
                Ev::DidRemove => {
                    if self.in_dispatch {
                        self.parent_call();
                    }
                }
                Ev::DidReplace { was_none, .. } => {
                    if self.in_dispatch {
                        self.parent_call();
                    }
                    if !*was_none {
                        class(self, "replace_nonempty");
                        self.change_step.get_or_insert(self.parent_calls_by_step.len().saturating_sub(1));
                    } else {
                        class(self, "replace_on_empty");
                    }
                }
                Ev::DidFill { .. } => {
                    if self.in_dispatch {
                        self.parent_call();
                    }
                    class(self, if self.model.parent_reg { "refill_empty_wrapper_of_registered_parent" } else { "refill_empty_wrapper_of_disabled_parent" });
                    self.change_step.get_or_insert(self.parent_calls_by_step.len().saturating_sub(1));
                }
                Ev::TRet { was_none: true, .. } => class(self, "process_events_on_empty"),
                _ => {}
            }
            if let Some(viol) = self.model.feed(*ev) {
                return Some(Violation { detail: format!("step {what}: {}", viol.detail), ..viol });
            }
        }
        if let Err(e) = res {
            let (rule, sig) = match e {
                calloop::Error::InvalidToken => ("C18.ret", "top-level-source-left-the-loop"),
                _ => ("C18.reg", "registration-call-failed"),
            };
            return Some(v(rule, sig, format!("step {what}: calloop returned {e:?} on a protocol-conforming sequence")));
        }
        // the instrumented flags
        for id in 0..self.model.ch.len() {
            let c = &self.model.ch[id];
            if c.sibling {
                continue;
            }
            let exp = self.model.expected(id);
            if c.flag != exp {
                return Some(v(
                    "C18.reg",
                    if exp { "current-child-not-registered" } else { "non-current-child-registered" },
                    format!(
                        "after step {what}: child {id} (status {:?}, current {:?}, parent registered {}) registered={} expected {exp}",
                        c.status, self.model.cur, self.model.parent_reg, c.flag
                    ),
                ));
            }
        }
        // ground truth
        match self.kind {
            Kind::Fd => {
                if touched {
                    self.kernel_reads += 1;
                    let table = kernel::epoll_table(self.epfd);
                    let fds: Vec<RawFd> = self.sh.inner.borrow().fds.clone();
                    for id in 0..self.model.ch.len() {
                        if self.model.ch[id].sibling || fds[id] < 0 {
                            continue;
                        }
                        // children over one shared fd: the fd is in the table exactly when one of them is expected there
                        let exp = (0..self.model.ch.len()).any(|k| !self.model.ch[k].sibling && fds[k] == fds[id] && self.model.expected(k));
                        let present = table.iter().any(|e| e.tfd == fds[id]);
                        if present && exp && self.sh.same_fd && self.model.expected(id) {
                            // the entry carries the mode of the child that registered last: the current one
                            let et = table.iter().any(|e| e.tfd == fds[id] && e.events & kernel::EPOLLET != 0);
                            if et != (id % 2 == 1) {
                                return Some(v(
                                    "C18.reg",
                                    "kernel-entry-of-another-child",
                                    format!(
                                        "after step {what}: the kernel epoll entry of shared fd {} is {}-triggered, the current child {id} registered it {}-triggered: the entry is still the one of a child that was replaced",
                                        fds[id],
                                        if et { "edge" } else { "level" },
                                        if id % 2 == 1 { "edge" } else { "level" }
                                    ),
                                ));
                            }
                        }
                        if present != exp {
                            return Some(v(
                                "C18.reg",
                                if exp { "kernel-missing-current-child" } else { "kernel-has-non-current-child" },
                                format!(
                                    "after step {what}: kernel epoll table {} fd {} of child {id} (status {:?}, current {:?}, parent registered {}), expected {}",
                                    if present { "contains" } else { "lacks" },
                                    fds[id],
                                    self.model.ch[id].status,
                                    self.model.cur,
                                    self.model.parent_reg,
                                    if exp { "present" } else { "absent" }
                                ),
                            ));
                        }
                    }
                }
            }
            Kind::Timer => {
                let heap = self.handle().verif_stats().timer_heap_len;
                let exp = (0..self.model.ch.len()).filter(|&id| !self.model.ch[id].sibling && self.model.expected(id)).count();
                if heap != exp {
                    return Some(v(
                        "C18.reg",
                        "timer-heap",
                        format!("after step {what}: timer heap holds {heap} entries, expected {exp} (current {:?}, parent registered {})", self.model.cur, self.model.parent_reg),
                    ));
                }
            }
        }
        // Top: TransientSource's return value goes straight to the loop; Remove would empty the slot
        if self.emb == Emb::Top && self.handle().verif_stats().occupied_slots != 1 {
            return Some(v("C18.ret", "top-level-source-left-the-loop", format!("after step {what}: the loop no longer holds the TransientSource (it must have returned Remove)")));
        }
        None
    }

    /// Execute one op. Returns (executed?, violation).
    fn step(&mut self, idx: usize, op: Op) -> (bool, Option<Violation>) {
        let op = self.normalise(op);
        let mut op = op;
        match self.applicable(op) {
            Applic::No => return (false, None),
            Applic::Steered => {
                self.excluded += 1;
                class(self, "steered_around_F11");
                if let Op::FireSibling { .. } = op {
                    op = Op::FireSibling { act: Act::None }; // keep the ping, drop the re-registration
                } else {
                    return (false, None);
                }
            }
            Applic::Yes => {}
        }
        self.executed.push(op);
        self.parent_calls_by_step.push(0);
        let what = format!("#{idx} {op:?}");
        let preg = self.model.parent_reg;
        self.in_dispatch = matches!(op, Op::Fire { .. } | Op::FireSibling { .. } | Op::FireOld | Op::Dispatch);
        let disp = self.disp.take().unwrap();
        let mut pre: Option<Violation> = None;
        let res: calloop::Result<()> = match op {
            Op::Fire { ret, act } => {
                let id = self.model.cur.unwrap();
                {
                    let mut g = self.sh.inner.borrow_mut();
                    g.script[id] = Some(ret);
                    g.child_act = if act == Act::None { None } else { Some(act) };
                }
                if act != Act::None {
                    class(self, "parent_act_on_child_fire");
                }
                let mut r = Ok(());
                match self.kind {
                    Kind::Fd => {
                        let fd = self.sh.inner.borrow().fds[id];
                        kernel::eventfd_write(fd, 1);
                    }
                    Kind::Timer => {
                        let got = disp.with_t(|t| {
                            t.map(|c| {
                                c.arm_now();
                                c.id
                            })
                        });
                        pre = self.check_map(got, &what);
                        if preg {
                            if self.blocked() {
                                self.excluded += 1;
                                class(self, "steered_around_F11");
                            } else {
                                self.parent_call();
                                r = self.handle().update(&self.token);
                            }
                        }
                    }
                }
                if r.is_ok() && pre.is_none() {
                    r = self.dispatch();
                }
                r
            }
            Op::FireSibling { act } => {
                let sib = self.sh.inner.borrow().sibling.unwrap();
                {
                    let mut g = self.sh.inner.borrow_mut();
                    g.sib_act = if act == Act::None { None } else { Some(act) };
                }
                if act != Act::None {
                    class(self, "parent_act_on_sibling_fire");
                }
                let fd = self.sh.inner.borrow().fds[sib];
                kernel::eventfd_write(fd, 1);
                self.dispatch()
            }
            Op::FireOld if self.sh.same_fd => {
                // the old children's fd is the current child's fd: nothing to ping separately
                self.dispatch()
            }
            Op::FireOld => {
                class(self, "ping_old_child");
                let fds: Vec<RawFd> = self.sh.inner.borrow().fds.clone();
                for id in 0..self.model.ch.len() {
                    let c = &self.model.ch[id];
                    if !c.sibling && c.wrapped && c.status == St::Gone && fds[id] >= 0 {
                        kernel::eventfd_write(fds[id], 1);
                    }
                }
                self.dispatch()
            }
            Op::Remove | Op::Replace | Op::Fill => {
                let act = match op {
                    Op::Remove => Act::Remove,
                    Op::Replace => Act::Replace,
                    _ => Act::Fill,
                };
                class(
                    self,
                    match op {
                        Op::Remove => "remove_outside",
                        Op::Replace => "replace_outside",
                        _ => "fill_outside",
                    },
                );
                if !preg {
                    class(self, "change_while_parent_disabled");
                }
                let sh = self.sh.clone();
                disp.with_t(|t| apply_act(t, &sh, act));
                if preg {
                    self.parent_call();
                    self.handle().update(&self.token)
                } else {
                    Ok(())
                }
            }
            Op::Map => {
                let got = disp.with_t(|t| t.map(|c| c.id));
                pre = self.check_map(got, &what);
                Ok(())
            }
            Op::Enable => {
                self.model.in_enable = true;
                self.model.parent_reg = true;
                self.parent_call();
                self.handle().enable(&self.token)
            }
            Op::Disable => {
                self.model.parent_reg = false;
                self.parent_call();
                self.handle().disable(&self.token)
            }
            Op::Update => {
                self.parent_call();
                self.handle().update(&self.token)
            }
            Op::Dispatch => self.dispatch(),
        };
        self.disp = Some(disp);
        let viol = match pre {
            Some(p) => Some(p),
            None => self.settle(&what, res, false),
        };
        self.model.in_enable = false;
        self.in_dispatch = false;
        (true, viol)
    }

    /// Remove the source from the loop, drop everything, check the drop bookkeeping (READING R5).
    fn teardown(mut self) -> (World2, Option<Violation>) {
        let mut viol = None;
        if self.model.parent_reg {
            if self.blocked() {
                // handle.remove() is a parent unregister: exactly the F11 shape
                self.excluded += 1;
                class(&mut self, "steered_around_F11");
            } else {
                self.parent_calls_by_step.push(0);
                self.parent_call();
                self.handle().remove(self.token);
                self.model.parent_reg = false;
                viol = self.settle_teardown();
            }
        }
        let sh = self.sh.clone();
        self.handle = None;
        self.el = None;
        self.disp = None;
        if viol.is_none() {
            let trace: Vec<Ev> = std::mem::take(&mut sh.inner.borrow_mut().trace);
            for ev in trace {
                if let Some(x) = self.model.feed(ev) {
                    viol = Some(Violation { detail: format!("teardown (loop and dispatcher dropped): {}", x.detail), ..x });
                    break;
                }
            }
        }
        if viol.is_none() {
            let n = sh.inner.borrow().fds.len();
            for id in 0..n {
                let drops = self.model.ch.get(id).map(|c| c.drops).unwrap_or(0);
                if drops != 1 {
                    viol = Some(v("C18.drop", "never-dropped", format!("child {id} was dropped {drops} times by the time the loop and the dispatcher were gone, expected once")));
                    break;
                }
            }
        }
        let w2 = World2 {
            executed: std::mem::take(&mut self.executed),
            excluded: self.excluded,
            parent_calls_by_step: std::mem::take(&mut self.parent_calls_by_step),
            change_step: self.change_step,
            classes: std::mem::take(&mut self.classes),
            events_delivered: self.events_delivered,
            kernel_reads: self.kernel_reads,
        };
        (w2, viol)
    }

    fn settle_teardown(&mut self) -> Option<Violation> {
        // the top-level slot is empty now, so the occupied_slots probe of settle() does not apply
        let emb = self.emb;
        self.emb = Emb::Comp;
        let r = self.settle("teardown handle.remove(token)", Ok(()), true);
        self.emb = emb;
        r
    }
}

/// What survives the world for evidence.
struct World2 {
    executed: Vec<Op>,
    excluded: u64,
    parent_calls_by_step: Vec<u32>,
    change_step: Option<usize>,
    classes: Vec<&'static str>,
    events_delivered: u64,
    kernel_reads: u64,
}

struct RunOut {
    info: CaseInfo,
    viol: Option<Violation>,
    /// ops that would be executed next (for the enumerator), by alphabet index
    next: Vec<bool>,
    steered_next: u64,
}

fn run_ops(case: &Case, avoid_f11: bool, alphabet: Option<&[Op]>) -> RunOut {
    let (mut w, mut viol) = World::new(case, avoid_f11);
    if viol.is_none() {
        for (i, op) in case.ops.iter().enumerate() {
            let (_, x) = w.step(i, *op);
            if x.is_some() {
                viol = x;
                break;
            }
        }
    }
    let mut next = Vec::new();
    let mut steered_next = 0;
    if let Some(alpha) = alphabet {
        for op in alpha {
            let a = w.applicable(w.normalise(*op));
            // a steered FireSibling still executes (without its action) but then duplicates FireSibling{None}
            next.push(a == Applic::Yes && w.normalise(*op) == *op);
            if a == Applic::Steered {
                steered_next += 1;
            }
        }
    }
    let emb = w.emb;
    let kind = w.kind;
    let w2 = if viol.is_none() {
        let (w2, x) = w.teardown();
        viol = x;
        w2
    } else {
        // still tear the world down in an orderly way, ignoring what it says
        let (w2, _) = w.teardown();
        w2
    };
    let mut info = CaseInfo::default();
    info.fingerprint = fingerprint(&(emb, kind, case.from, &w2.executed));
    info.nontrivial = match w2.change_step {
        Some(s) => w2.parent_calls_by_step.iter().skip(s + 1).any(|n| *n > 0),
        None => false,
    };
    info.excluded_known = w2.excluded;
    info.classes = w2.classes;
    info.classes.push(match (emb, kind) {
        (Emb::Top, Kind::Fd) => "top_fd",
        (Emb::Top, Kind::Timer) => "top_timer",
        (Emb::Comp, Kind::Fd) => "comp_fd",
        (Emb::Comp, Kind::Timer) => "comp_timer",
    });
    info.classes.push(if case.from { "start_from" } else { "start_default" });
    if w2.events_delivered > 0 {
        info.classes.push("event_delivered");
    }
    info.counters.push(("events_delivered", w2.events_delivered));
    info.counters.push(("ops_executed", w2.executed.len() as u64));
    info.counters.push(("kernel_table_reads", w2.kernel_reads));
    RunOut { info, viol, next, steered_next }
}

pub fn run_case_with(case: &Case, avoid_f11: bool) -> CaseOutcome {
    let out = run_ops(case, avoid_f11, None);
    (out.info, out.viol)
}

/// Strict: no steering (used for replays, so that an open finding stays visible).
pub fn run_case(case: &Case) -> CaseOutcome {
    run_case_with(case, false)
}

// ------------------------------------------------------------------------------------------
// bounded-exhaustive enumeration
// ------------------------------------------------------------------------------------------

/// Comp: the ops that change something, with the parent actions limited to the combinations the
/// calloop tests and docs name (replace right after the child's Remove/Disable, remove on Continue).
fn core_alphabet() -> Vec<Op> {
    vec![
        Op::Fire { ret: Ret::Continue, act: Act::None },
        Op::Fire { ret: Ret::Reregister, act: Act::None },
        Op::Fire { ret: Ret::Disable, act: Act::None },
        Op::Fire { ret: Ret::Remove, act: Act::None },
        Op::Fire { ret: Ret::Continue, act: Act::Remove },
        Op::Fire { ret: Ret::Continue, act: Act::Replace },
        Op::Fire { ret: Ret::Remove, act: Act::Replace },
        Op::Fire { ret: Ret::Disable, act: Act::Replace },
        Op::FireSibling { act: Act::None },
        Op::FireSibling { act: Act::Remove },
        Op::FireSibling { act: Act::Replace },
        Op::Fire { ret: Ret::Remove, act: Act::Fill },
        Op::FireSibling { act: Act::Fill },
        Op::Remove,
        Op::Replace,
        Op::Fill,
        Op::Enable,
        Op::Disable,
        Op::Update,
    ]
}

fn alphabet(emb: Emb, kind: Kind) -> Vec<Op> {
    let rets = [Ret::Continue, Ret::Reregister, Ret::Disable, Ret::Remove];
    let acts = [Act::None, Act::Remove, Act::Replace];
    let mut a = Vec::new();
    for r in rets {
        match emb {
            Emb::Top => a.push(Op::Fire { ret: r, act: Act::None }),
            Emb::Comp => {
                for act in acts {
                    a.push(Op::Fire { ret: r, act });
                }
            }
        }
    }
    if emb == Emb::Comp {
        match kind {
            Kind::Fd => {
                for act in acts {
                    a.push(Op::FireSibling { act });
                }
            }
            Kind::Timer => a.push(Op::FireSibling { act: Act::None }),
        }
    }
    if emb == Emb::Comp {
        a.push(Op::Fire { ret: Ret::Remove, act: Act::Fill });
        if kind == Kind::Fd {
            a.push(Op::FireSibling { act: Act::Fill });
        }
    }
    if kind == Kind::Fd {
        a.push(Op::FireOld);
    }
    a.extend([Op::Remove, Op::Replace, Op::Fill, Op::Map, Op::Enable, Op::Disable, Op::Update, Op::Dispatch]);
    a
}

struct EnumStats {
    runs: AtomicU64,
    nontrivial: AtomicU64,
    steered: AtomicU64,
    leaves: AtomicU64,
}

/// Depth-first: run the sequence `ops` (all its steps are judged), then extend it by every op the
/// discipline would actually execute in the state reached. Sequences that contain a discipline
/// no-op are skipped: they behave exactly like the shorter sequence without it, which is visited.
#[allow(clippy::too_many_arguments)]
fn dfs(
    case: &mut Case,
    depth: usize,
    alpha: &[Op],
    avoid: bool,
    stats: &EnumStats,
    stop: &AtomicBool,
    deadline: Instant,
    bad: &Mutex<Option<(Case, Violation)>>,
) {
    if stop.load(Ordering::Relaxed) {
        return;
    }
    if Instant::now() > deadline {
        stop.store(true, Ordering::Relaxed);
        return;
    }
    let out = run_ops(case, avoid, Some(alpha));
    stats.runs.fetch_add(1, Ordering::Relaxed);
    stats.steered.fetch_add(out.steered_next, Ordering::Relaxed);
    if out.info.nontrivial {
        stats.nontrivial.fetch_add(1, Ordering::Relaxed);
    }
    if let Some(x) = out.viol {
        let mut g = bad.lock().unwrap();
        if g.is_none() {
            *g = Some((case.clone(), x));
        }
        stop.store(true, Ordering::Relaxed);
        return;
    }
    if case.ops.len() >= depth {
        stats.leaves.fetch_add(1, Ordering::Relaxed);
        return;
    }
    for (i, op) in alpha.iter().enumerate() {
        if !out.next[i] {
            continue;
        }
        case.ops.push(*op);
        dfs(case, depth, alpha, avoid, stats, stop, deadline, bad);
        case.ops.pop();
    }
}

/// Enumerate one configuration on `workers` threads. Returns (violation, complete?).
#[allow(clippy::too_many_arguments)]
fn enumerate(ctx: &CheckCtx, emb: Emb, kind: Kind, from: bool, depth: usize, alpha: &[Op], label: &str, workers: usize, avoid: bool, deadline: Instant) -> (Option<Found>, bool) {
    let stats = EnumStats { runs: AtomicU64::new(0), nontrivial: AtomicU64::new(0), steered: AtomicU64::new(0), leaves: AtomicU64::new(0) };
    let stop = AtomicBool::new(false);
    let bad: Mutex<Option<(Case, Violation)>> = Mutex::new(None);
    // work items: executed prefixes of length <= 2
    let mut items: Vec<Vec<Op>> = Vec::new();
    let mut root = Case { emb, kind, from, ops: Vec::new(), same_fd: false };
    let r0 = run_ops(&root, avoid, Some(alpha));
    stats.runs.fetch_add(1, Ordering::Relaxed);
    if let Some(x) = r0.viol {
        *bad.lock().unwrap() = Some((root.clone(), x));
    } else if depth >= 1 {
        for (i, a) in alpha.iter().enumerate() {
            if !r0.next[i] {
                continue;
            }
            root.ops.push(*a);
            let r1 = run_ops(&root, avoid, Some(alpha));
            stats.runs.fetch_add(1, Ordering::Relaxed);
            if r1.info.nontrivial {
                stats.nontrivial.fetch_add(1, Ordering::Relaxed);
            }
            stats.steered.fetch_add(r1.steered_next, Ordering::Relaxed);
            if let Some(x) = r1.viol {
                let mut g = bad.lock().unwrap();
                if g.is_none() {
                    *g = Some((root.clone(), x));
                }
            } else if depth >= 2 {
                for (j, b) in alpha.iter().enumerate() {
                    if r1.next[j] {
                        items.push(vec![*a, *b]);
                    }
                }
            }
            root.ops.pop();
        }
    }
    if bad.lock().unwrap().is_none() {
        let next_item = AtomicUsize::new(0);
        std::thread::scope(|sc| {
            for _ in 0..workers.max(1) {
                sc.spawn(|| loop {
                    let i = next_item.fetch_add(1, Ordering::Relaxed);
                    if i >= items.len() || stop.load(Ordering::Relaxed) {
                        break;
                    }
                    let mut case = Case { emb, kind, from, ops: items[i].clone(), same_fd: false };
                    // a harness panic must not be mistaken for anything else: let it propagate
                    dfs(&mut case, depth, alpha, avoid, &stats, &stop, deadline, &bad);
                });
            }
        });
    }
    let tag = format!("{emb:?}_{kind:?}_{}_{label}_len<={depth}", if from { "From" } else { "Default" });
    ctx.col.record_enumerated(&tag, stats.runs.load(Ordering::Relaxed), stats.nontrivial.load(Ordering::Relaxed));
    ctx.col.add_excluded(stats.steered.load(Ordering::Relaxed));
    let found = bad.into_inner().unwrap();
    let complete = found.is_none() && !stop.load(Ordering::Relaxed);
    (
        found.map(|(c, x)| Found { sub: "enum".into(), violation: x, case: serde_json::to_value(&c).unwrap(), replay_path: None }),
        complete,
    )
}

// ------------------------------------------------------------------------------------------
// entry points
// ------------------------------------------------------------------------------------------

const SUBS: [&str; 3] = ["hist", "hist_long", "enum"];

pub fn check(ctx: &CheckCtx) -> Option<Found> {
    // replays run without steering so that an open finding is re-confirmed (KNOWN-FINDING line)
    for sub in SUBS {
        if let Some(f) = ctx.run_replays::<Case, _>(sub, run_case) {
            return Some(f);
        }
    }
    let avoid = ctx.known_open(SIG_F11);
    if avoid {
        ctx.col.note("open known finding F11: histories are steered around 'parent (re/un)registration while the current child is self-disabled' (each steered op / each sequence not enumerated for that reason is counted in excluded_known)");
    }
    let t = ctx.tier;
    let run = move |c: &Case| run_case_with(c, avoid);
    if let Some(f) = ctx.search("hist", case_strategy(14, avoid), t.pick(300_000, 1_500_000), 16, Some(Duration::from_secs(t.pick(60, 240))), run) {
        return Some(f);
    }
    if t == Tier::Thorough {
        if let Some(f) = ctx.search("hist_long", case_strategy(30, avoid), 600_000, 16, Some(Duration::from_secs(240)), run) {
            return Some(f);
        }
    }
    if t == Tier::Thorough {
        if let Some(f) = crate::fuzz::campaign(ctx, &fuzz_subs(ctx), 400_000, 16) {
            return Some(f);
        }
    }
    // every executed sequence up to the depth given, per configuration:
    // (embedding, kind, start, depth quick, depth thorough, core alphabet?)
    let deadline = Instant::now() + Duration::from_secs(t.pick(60, 420));
    let plan: [(Emb, Kind, bool, usize, usize, bool); 9] = [
        (Emb::Top, Kind::Fd, true, 4, 6, false),
        (Emb::Top, Kind::Timer, true, 4, 6, false),
        (Emb::Top, Kind::Fd, false, 4, 6, false),
        (Emb::Top, Kind::Timer, false, 4, 6, false),
        (Emb::Comp, Kind::Fd, false, 4, 6, false),
        (Emb::Comp, Kind::Timer, false, 4, 6, false),
        (Emb::Comp, Kind::Fd, true, 3, 5, false),
        (Emb::Comp, Kind::Fd, true, 4, 6, true),
        (Emb::Comp, Kind::Timer, true, 3, 6, false),
    ];
    for (emb, kind, from, dq, dt, core) in plan {
        let depth = t.pick(dq, dt);
        let alpha = if core { core_alphabet() } else { alphabet(emb, kind) };
        let label = if core { "core" } else { "full" };
        let (found, complete) = enumerate(ctx, emb, kind, from, depth, &alpha, label, 16, avoid, deadline);
        if found.is_some() {
            return found;
        }
        let what = format!(
            "all executed op sequences of length <= {depth} for embedding {emb:?}, child kind {kind:?}, start {} ({label} alphabet of {} ops; sequences containing a discipline no-op are represented by the shorter sequence without it{})",
            if from { "From<T>" } else { "Default" },
            alpha.len(),
            if avoid { "; sequences that need a parent (re/un)registration behind a child-requested Disable are excluded while F11 is open" } else { "" }
        );
        if complete {
            ctx.col.exhaustive(&what);
        } else {
            ctx.col.note(format!("enumeration budget reached, NOT exhaustive: {what}"));
        }
    }
    None
}

/// Byte decoder for the libFuzzer target: same alphabet and weights as `case_strategy`.
fn case_from_bytes(data: &[u8], max_len: usize, avoid_f11: bool) -> Case {
    use crate::hist::fuzzgen::Dec;
    let mut d = Dec::new(data);
    let emb = if d.bool() { Emb::Comp } else { Emb::Top };
    let kind = if d.pickw(&[2, 1]) == 0 { Kind::Fd } else { Kind::Timer };
    let from = d.pickw(&[5, 1]) == 0;
    let act = |d: &mut Dec| match d.pickw(&[4, 1, 2, 1]) {
        0 => Act::None,
        1 => Act::Remove,
        2 => Act::Replace,
        _ => Act::Fill,
    };
    let mut ops = Vec::new();
    while ops.len() < max_len && !d.is_empty() {
        ops.push(match d.pickw(&[6, 2, 1, 1, 3, 1, 2, 2, 2, 1, 2]) {
            0 => {
                let ret = match d.pickw(&[6, 4, if avoid_f11 { 1 } else { 4 }, 2]) {
                    0 => Ret::Continue,
                    1 => Ret::Reregister,
                    2 => Ret::Disable,
                    _ => Ret::Remove,
                };
                Op::Fire { ret, act: act(&mut d) }
            }
            1 => Op::FireSibling { act: act(&mut d) },
            2 => Op::FireOld,
            3 => Op::Remove,
            4 => Op::Replace,
            5 => Op::Map,
            6 => Op::Enable,
            7 => Op::Disable,
            8 => Op::Update,
            9 => Op::Dispatch,
            _ => Op::Fill,
        });
    }
    let same_fd = kind == Kind::Fd && d.pct(30);
    Case { emb, kind, from, ops, same_fd }
}

pub fn fuzz_subs(ctx: &CheckCtx) -> Vec<crate::fuzz::FuzzSub> {
    let avoid = ctx.known_open(SIG_F11);
    vec![
        crate::fuzz::sub("hist", move |data: &[u8]| case_from_bytes(data, 14, avoid), move |c: &Case| run_case_with(c, avoid)),
        crate::fuzz::sub("hist_long", move |data: &[u8]| case_from_bytes(data, 30, avoid), move |c: &Case| run_case_with(c, avoid)),
    ]
}

pub fn replay(_ctx: &CheckCtx, _sub: &str, case: serde_json::Value) -> Result<Option<Violation>, String> {
    let c: Case = serde_json::from_value(case).map_err(|e| e.to_string())?;
    Ok(run_case(&c).1)
}
