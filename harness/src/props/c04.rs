//! C04 — channel: exactly-once in-order delivery, then exactly one Closed.
//!
//! (a) sched: 1..3 sender threads (send / try_send / clone / drop on channel() and sync_channel(b))
//!     against a dispatching loop thread; the schedule over enqueue / wake / wake-on-drop / try_recv /
//!     self re-wake sites is generated; blocking sends are detected through /proc.
//! (b) hist: single-thread histories through the history machine (queue lengths, sender drops, disable/enable).
//! (c) batch: queue lengths below, at and above the 1024 batch limit.

use crate::driver::{CaseOutcome, CheckCtx, Found, PropMeta, Tier, Violation};
use crate::evidence::{fingerprint, CaseInfo};
use crate::hist::ops::Profile;
use crate::props::c03::schedule_strategy;
use crate::props::histprops::{hist_replay, run_case_for, HistProp};
use crate::sched::{self, CaseCtl, RunEnd};
use calloop::channel::{channel, sync_channel, Channel, Event, Sender, SyncSender};
use calloop::{Dispatcher, EventLoop};
use proptest::prelude::*;
use serde::{Deserialize, Serialize};
use std::sync::atomic::{AtomicBool, Ordering};
use std::sync::{mpsc, Arc, Mutex};
use std::time::{Duration, Instant};

pub static META: PropMeta = PropMeta {
    id: "C04",
    level: "exploration",
    rule: "cases: (a) sched: 1..3 sender threads with programs of send/try_send/clone/drop (1..6 steps, values tagged sender+sequence) on channel() or sync_channel(b), b in {0,1,2,8}, against a loop thread doing zero-timeout dispatches; the schedule over the sites before enqueue, between enqueue and wake, at the wake-on-drop, before every try_recv, before the self re-wake and around every eventfd write/drain is generated; a sender blocked in the kernel is detected via /proc and the loop keeps dispatching. oracle at quiescence: per sender the delivered values equal the values whose send returned Ok, in order, each once; Closed exactly once, only after every sender is gone and after all messages, nothing after it, then the slot is free; with a sender kept alive no Closed; try_send(Full) hands the value back; a blocking send returns while the loop keeps dispatching. (b) hist: single-thread histories judged by the history monitor. (d) free: the same sender programs on 2..3 free-running OS threads released together by a spin barrier (real concurrency, for races whose window holds no yield site; bounds None/1/2/8) against the dispatching loop, end-state oracle: per sender delivered == sent-Ok in order after every sender finished and 4 more dispatches, Closed exactly once (never with a kept sender), nothing after it, slot freed. (c) batch: 0/1/1023/1024/1025/3000 queued messages and bound+1 batches drain completely over consecutive dispatches without external wake. non-trivial (sched): sites of >= 2 threads interleave (a sender step between another thread's enqueue and wake, or between the loop's drain and dispatch end), or a sync channel was Full/blocked at least once; distinct by case fingerprint",
    assumptions: &[
        "interleavings are explored at the granularity of the yield sites of the hook commit, on x86-TSO with the real atomics",
        "a sender blocked in mpsc::SyncSender::send is detected through /proc/self/task/<tid>/stat; 'blocked for ever' is decided by state (loop kept dispatching 8 more times with the sender still blocked and no callback), never by a timeout alone",
    ],
};

pub const SIG_SYNC0: &str = "C04.blocked/sync0-blocking-send";
static STEER_SYNC0: AtomicBool = AtomicBool::new(false);

#[derive(Serialize, Deserialize, Debug, Clone, Copy, Hash, PartialEq, Eq)]
pub enum SOp {
    Send,
    TrySend,
    Clone,
    Drop,
    /// wait (yielding) until the loop has completed two more dispatches, then require that every message
    /// whose send had returned Ok before has been delivered ("never queued without a pending wake-up")
    Settle,
}

#[derive(Serialize, Deserialize, Debug, Clone, Hash)]
pub struct Case {
    /// None = channel(), Some(b) = sync_channel(b)
    pub bound: Option<u8>,
    pub actors: Vec<Vec<SOp>>,
    pub schedule: Vec<u8>,
    pub keep_one: bool,
    #[serde(default)]
    pub exact: bool,
    #[serde(default)]
    pub loop_dispatches: Option<u8>,
    /// every sender an actor drops is dropped while the actor's thread unwinds from a panic (a worker that owns the
    /// sender dies): "after every sender is gone" does not depend on how it went
    #[serde(default)]
    pub unwinding: bool,
}

/// Drop `t` while this thread is unwinding (std::thread::panicking() is true in its destructor); no panic message
/// (resume_unwind bypasses the hook), the unwind ends here.
fn drop_unwinding<T>(t: T) {
    let _ = std::panic::catch_unwind(std::panic::AssertUnwindSafe(move || {
        let _t = t;
        std::panic::resume_unwind(Box::new(()));
    }));
}

fn drop_tx(t: Tx, unwinding: bool) {
    if unwinding {
        drop_unwinding(t);
    } else {
        drop(t);
    }
}

fn sop() -> impl Strategy<Value = SOp> {
    prop_oneof![5 => Just(SOp::Send), 3 => Just(SOp::TrySend), 1 => Just(SOp::Clone), 2 => Just(SOp::Drop), 2 => Just(SOp::Settle)]
}

fn case_strategy() -> impl Strategy<Value = Case> {
    (
        prop_oneof![3 => Just(None), 4 => proptest::sample::select(vec![Some(0u8), Some(1), Some(2), Some(8)])],
        proptest::collection::vec(proptest::collection::vec(sop(), 1..=6), 1..=3),
        schedule_strategy(200),
        prop::bool::weighted(0.2),
        prop::bool::weighted(0.2),
    )
        .prop_map(|(bound, actors, schedule, keep_one, unwinding)| Case { bound, actors, schedule, keep_one, exact: false, loop_dispatches: None, unwinding })
}

enum Tx {
    U(Sender<u32>),
    S(SyncSender<u32>),
}
impl Tx {
    fn dup(&self) -> Tx {
        match self {
            Tx::U(s) => Tx::U(s.clone()),
            Tx::S(s) => Tx::S(s.clone()),
        }
    }
}

#[derive(Debug, Clone)]
enum Rec {
    /// a send/try_send call: value, ticks, result ok
    Sent { v: u32, b: u64, e: u64, ok: bool, full: bool, blocking: bool },
    Drop { b: u64, e: u64 },
    Msg { v: u32, t: u64 },
    Closed { t: u64 },
    DispEnd { t: u64 },
    HandBackWrong { v: u32, got: u32 },
    Settle { b: u64, e: u64 },
}

pub struct SchedOut {
    pub viol: Option<Violation>,
    pub nontrivial: bool,
    pub classes: Vec<&'static str>,
    pub branching: Vec<u8>,
    pub infra: Option<String>,
    pub excluded: u64,
}

pub fn run_sched(case: &Case) -> SchedOut {
    sched::install_hook();
    let n_actors = case.actors.len();
    let ctl = CaseCtl::new(n_actors + 1);
    let loop_idx = n_actors;
    let rec: Arc<Mutex<Vec<Rec>>> = Arc::new(Mutex::new(Vec::new()));
    let (tx_handles, rx_handles) = mpsc::channel::<Vec<Tx>>();
    let actors_done = Arc::new(AtomicBool::new(false));
    let stalled = Arc::new(AtomicBool::new(false));
    let disp_count = Arc::new(std::sync::atomic::AtomicU32::new(0));
    let loop_left = Arc::new(AtomicBool::new(false));
    let result: Arc<Mutex<Option<(usize, u32)>>> = Arc::new(Mutex::new(None));
    let mut out = SchedOut { viol: None, nontrivial: false, classes: vec![], branching: vec![], infra: None, excluded: 0 };
    let keep_one = case.keep_one;
    let fixed_dispatches = case.loop_dispatches;
    let bound = case.bound;
    let steer_sync0 = STEER_SYNC0.load(Ordering::Relaxed) && bound == Some(0);
    if steer_sync0 {
        out.excluded = case.actors.iter().flatten().filter(|o| **o == SOp::Send).count() as u64;
    }

    let info = std::thread::scope(|sc| {
        let loop_join;
        {
            let ctl = ctl.clone();
            let rec = rec.clone();
            let actors_done = actors_done.clone();
            let stalled = stalled.clone();
            let result = result.clone();
            let disp_count = disp_count.clone();
            let loop_left = loop_left.clone();
            loop_join = sc.spawn(move || {
                let mut el: EventLoop<'static, ()> = EventLoop::try_new().expect("event loop");
                let (first, chan): (Tx, Channel<u32>) = match bound {
                    None => {
                        let (s, c) = channel();
                        (Tx::U(s), c)
                    }
                    Some(b) => {
                        let (s, c) = sync_channel(b as usize);
                        (Tx::S(s), c)
                    }
                };
                let rec2 = rec.clone();
                let disp = Dispatcher::new(chan, move |ev: Event<u32>, _: &mut (), _: &mut ()| {
                    let t = sched::tick();
                    match ev {
                        Event::Msg(v) => rec2.lock().unwrap().push(Rec::Msg { v, t }),
                        Event::Closed => rec2.lock().unwrap().push(Rec::Closed { t }),
                    }
                });
                el.handle().register_dispatcher(disp.clone()).expect("insert channel");
                let mut handles: Vec<Tx> = (0..n_actors).map(|_| first.dup()).collect();
                if keep_one {
                    handles.push(first.dup());
                }
                tx_handles.send(handles).unwrap();
                drop(first);
                let mut disp_no = 0u32;
                ctl.enrolled(loop_idx, || {
                    let mut after = 0;
                    let mut stalled_for = 0;
                    let mut last_msgs = 0usize;
                    loop {
                        sched::harness_yield();
                        disp_no += 1;
                        el.dispatch(Some(Duration::ZERO), &mut ()).expect("dispatch");
                        rec.lock().unwrap().push(Rec::DispEnd { t: sched::tick() });
                        disp_count.fetch_add(1, Ordering::SeqCst);
                        if let Some(n) = fixed_dispatches {
                            if disp_no >= n as u32 {
                                break;
                            }
                            continue;
                        }
                        if actors_done.load(Ordering::SeqCst) {
                            after += 1;
                            if after >= 2 {
                                break;
                            }
                        }
                        // stall detection: every unfinished actor is blocked in the kernel and nothing was delivered
                        let unfinished: Vec<usize> = (0..n_actors).filter(|i| ctl.slots[*i].state.load(Ordering::SeqCst) != sched::FINISHED).collect();
                        let all_blocked = !unfinished.is_empty() && unfinished.iter().all(|i| ctl.slots[*i].state.load(Ordering::SeqCst) == sched::BLOCKED);
                        let msgs = rec.lock().unwrap().iter().filter(|r| matches!(r, Rec::Msg { .. })).count();
                        if all_blocked && msgs == last_msgs {
                            stalled_for += 1;
                            if stalled_for >= 8 {
                                stalled.store(true, Ordering::SeqCst);
                                break;
                            }
                        } else {
                            stalled_for = 0;
                        }
                        last_msgs = msgs;
                        if disp_no >= 120 {
                            break;
                        }
                    }
                });
                loop_left.store(true, Ordering::SeqCst);
                // rescue stranded blocked senders so that the case can be torn down
                let tw = Instant::now();
                let mut rescued = 0u32;
                while !actors_done.load(Ordering::SeqCst) && tw.elapsed() < Duration::from_secs(20) {
                    if stalled.load(Ordering::SeqCst) {
                        if disp.as_source_ref().try_recv().is_ok() {
                            rescued += 1;
                        }
                    }
                    std::thread::sleep(Duration::from_micros(50));
                }
                for _ in 0..4 {
                    el.dispatch(Some(Duration::ZERO), &mut ()).expect("dispatch");
                }
                let occupied = el.handle().verif_stats().occupied_slots;
                *result.lock().unwrap() = Some((occupied, rescued));
                drop(disp);
            });
        }
        let mut handles = rx_handles.recv().expect("handles");
        let kept = if keep_one { handles.pop() } else { None };
        let mut joins = vec![];
        for (ai, prog) in case.actors.iter().enumerate().rev() {
            let h = handles.pop().unwrap();
            let ctl = ctl.clone();
            let rec = rec.clone();
            let prog = prog.clone();
            let disp_count = disp_count.clone();
            let loop_left = loop_left.clone();
            let unwinding = case.unwinding;
            joins.push(sc.spawn(move || {
                ctl.enrolled(ai, || {
                    let mut hs: Vec<Tx> = vec![h];
                    let mut seq = 0u32;
                    for op in prog {
                        sched::harness_yield();
                        match op {
                            SOp::Send | SOp::TrySend => {
                                let Some(tx) = hs.last() else { continue };
                                seq += 1;
                                let v = ((ai as u32) << 16) | seq;
                                let blocking = op == SOp::Send && !steer_sync0;
                                let b = sched::tick();
                                let (ok, full) = match tx {
                                    Tx::U(s) => (s.send(v).is_ok(), false),
                                    Tx::S(s) => {
                                        if blocking {
                                            (s.send(v).is_ok(), false)
                                        } else {
                                            match s.try_send(v) {
                                                Ok(()) => (true, false),
                                                Err(mpsc::TrySendError::Full(got)) => {
                                                    if got != v {
                                                        rec.lock().unwrap().push(Rec::HandBackWrong { v, got });
                                                    }
                                                    (false, true)
                                                }
                                                Err(mpsc::TrySendError::Disconnected(_)) => (false, false),
                                            }
                                        }
                                    }
                                };
                                let e = sched::tick();
                                rec.lock().unwrap().push(Rec::Sent { v, b, e, ok, full, blocking });
                            }
                            SOp::Settle => {
                                let b = sched::tick();
                                let start = disp_count.load(Ordering::SeqCst);
                                let mut ok = true;
                                let mut spins = 0;
                                while disp_count.load(Ordering::SeqCst) < start + 2 {
                                    if loop_left.load(Ordering::SeqCst) || spins > 400 {
                                        ok = false;
                                        break;
                                    }
                                    spins += 1;
                                    sched::harness_yield();
                                }
                                if ok {
                                    let e = sched::tick();
                                    rec.lock().unwrap().push(Rec::Settle { b, e });
                                }
                            }
                            SOp::Clone => {
                                if hs.len() < 3 {
                                    if let Some(t) = hs.last().map(|t| t.dup()) {
                                        hs.push(t);
                                    }
                                }
                            }
                            SOp::Drop => {
                                if let Some(t) = hs.pop() {
                                    let b = sched::tick();
                                    drop_tx(t, unwinding);
                                    let e = sched::tick();
                                    rec.lock().unwrap().push(Rec::Drop { b, e });
                                }
                            }
                        }
                    }
                    while let Some(t) = hs.pop() {
                        sched::harness_yield();
                        let b = sched::tick();
                        drop_tx(t, unwinding);
                        let e = sched::tick();
                        rec.lock().unwrap().push(Rec::Drop { b, e });
                    }
                })
            }));
        }
        let ctl2 = ctl.clone();
        let actors_done2 = actors_done.clone();
        let watcher = sc.spawn(move || {
            let t0 = Instant::now();
            loop {
                if (0..n_actors).all(|i| ctl2.slots[i].state.load(Ordering::SeqCst) == sched::FINISHED) {
                    actors_done2.store(true, Ordering::SeqCst);
                    return;
                }
                if t0.elapsed() > Duration::from_secs(25) {
                    actors_done2.store(true, Ordering::SeqCst);
                    return;
                }
                std::thread::sleep(Duration::from_micros(50));
            }
        });
        let info = sched::drive(&ctl, &case.schedule, case.exact, 6000, Duration::from_millis(2500));
        if info.end != RunEnd::AllFinished {
            sched::release_all(&ctl);
        }
        let _ = watcher.join();
        for j in joins {
            let _ = j.join();
        }
        let _ = loop_join.join();
        drop(kept);
        info
    });

    out.branching = info.branching.clone();
    let was_stalled = stalled.load(Ordering::SeqCst);
    if info.end != RunEnd::AllFinished && !was_stalled {
        out.infra = Some(format!("channel schedule ended {:?} after {} steps without a stall verdict", info.end, info.steps));
        return out;
    }
    let Some((occupied, rescued)) = *result.lock().unwrap() else {
        out.infra = Some("loop thread produced no result".into());
        return out;
    };
    let recs = rec.lock().unwrap().clone();
    let log = ctl.log.lock().unwrap().clone();

    if was_stalled {
        let sig = if bound == Some(0) { SIG_SYNC0.to_string() } else { format!("C04.blocked/sync{}", bound.map(|b| b as i32).unwrap_or(-1)) };
        out.viol = Some(
            Violation::new(
                "C04.blocked",
                format!(
                    "a blocking send on sync_channel({:?}) never returned although the loop dispatched 8 more times with every unfinished sender blocked and nothing delivered ({} message(s) had to be taken out by the harness to end the case)",
                    bound, rescued
                ),
            )
            .with_sig(sig),
        );
        return out;
    }
    for r in &recs {
        if let Rec::HandBackWrong { v, got } = r {
            out.viol = Some(Violation::new("C04.once", format!("try_send(Full) handed back {got:#x} instead of {v:#x}")));
            return out;
        }
    }
    // settle points: everything sent (Ok) before the settle began must have been delivered when it ended
    for r in &recs {
        if let Rec::Settle { b, e } = r {
            for s in &recs {
                if let Rec::Sent { v, e: se, ok: true, .. } = s {
                    if *se < *b {
                        let delivered = recs.iter().any(|m| matches!(m, Rec::Msg { v: mv, t } if mv == v && (*t < *e)));
                        if !delivered {
                            out.viol = Some(Violation::new(
                                "C04.stranded",
                                format!("message {v:#x} whose send returned at tick {se} was still undelivered at tick {e}, after the loop completed two dispatches that began after tick {b}: queued without a pending wake-up"),
                            ));
                            return out;
                        }
                    }
                }
            }
        }
    }
    if recs.iter().any(|r| matches!(r, Rec::Settle { .. })) {
        out.classes.push("settle_point_checked");
    }
    // per sender: delivered == sent-ok, in order
    let delivered: Vec<u32> = recs.iter().filter_map(|r| if let Rec::Msg { v, .. } = r { Some(*v) } else { None }).collect();
    for ai in 0..n_actors as u32 {
        let sent: Vec<u32> = recs.iter().filter_map(|r| if let Rec::Sent { v, ok: true, .. } = r { if v >> 16 == ai { Some(*v) } else { None } } else { None }).collect();
        let got: Vec<u32> = delivered.iter().copied().filter(|v| v >> 16 == ai).collect();
        if sent != got {
            let rule = if got.len() != sent.len() || { let mut a = sent.clone(); let mut b = got.clone(); a.sort(); b.sort(); a != b } { "C04.once" } else { "C04.order" };
            out.viol = Some(Violation::new(
                rule,
                format!("sender {ai}: sent (Ok) {sent:x?}, delivered {got:x?} (bound {bound:?}, all delivered {delivered:x?})"),
            ));
            return out;
        }
    }
    // Closed
    let closed: Vec<u64> = recs.iter().filter_map(|r| if let Rec::Closed { t } = r { Some(*t) } else { None }).collect();
    let pos_closed = recs.iter().position(|r| matches!(r, Rec::Closed { .. }));
    if keep_one {
        if !closed.is_empty() {
            out.viol = Some(Violation::new("C04.closed", "Closed delivered although a sender is still alive".to_string()));
            return out;
        }
        if occupied != 1 {
            out.viol = Some(Violation::new("C04.closed", format!("channel left the loop ({occupied} slots occupied) although a sender is alive")));
            return out;
        }
    } else {
        if closed.len() != 1 {
            out.viol = Some(Violation::new("C04.closed", format!("Closed delivered {} times after every sender was dropped", closed.len())));
            return out;
        }
        let pc = pos_closed.unwrap();
        if recs[pc + 1..].iter().any(|r| matches!(r, Rec::Msg { .. } | Rec::Closed { .. })) {
            out.viol = Some(Violation::new("C04.closed", "an event was delivered after Closed".to_string()));
            return out;
        }
        // Closed only after every sender is gone: it must start after the last drop began
        let ct = closed[0];
        if ct != 0 {
            let last_drop_begin = recs.iter().filter_map(|r| if let Rec::Drop { b, .. } = r { Some(*b) } else { None }).max().unwrap_or(0);
            if ct < last_drop_begin {
                out.viol = Some(Violation::new("C04.closed", format!("Closed delivered at tick {ct}, before the last sender started to drop at {last_drop_begin}")));
                return out;
            }
        }
        if occupied != 0 {
            out.viol = Some(Violation::new("C04.closed", format!("{occupied} slot(s) still occupied after Closed")));
            return out;
        }
    }

    // evidence
    let any_full = recs.iter().any(|r| matches!(r, Rec::Sent { full: true, .. }));
    let any_blocked = (0..n_actors).any(|i| ctl.slots[i].blocked_count.load(Ordering::Relaxed) > 0);
    // interleaving: a step of another thread between CH_SEND_PRE/MID..eventfd write of one sender, or in the loop's drain window
    let mut interleaved = false;
    for r in &recs {
        if let Rec::Sent { b, e, .. } = r {
            let me = log.iter().find(|l| l.tick > *b && l.tick < *e).map(|l| l.thread);
            if let Some(me) = me {
                if log.iter().any(|l| l.tick > *b && l.tick < *e && l.thread != me) {
                    interleaved = true;
                }
            }
        }
    }
    if interleaved {
        out.classes.push("other_thread_step_inside_a_send");
    }
    if any_full {
        out.classes.push("sync_channel_full");
    }
    if any_blocked {
        out.classes.push("sender_blocked_in_kernel");
    }
    if keep_one {
        out.classes.push("sender_kept_alive");
    }
    if case.unwinding {
        out.classes.push("senders_dropped_while_unwinding");
    }
    out.classes.push(match bound {
        None => "unbounded",
        Some(0) => "sync0",
        Some(_) => "sync_n",
    });
    let drop_overlap = recs.iter().any(|r| {
        if let Rec::Drop { b, e } = r {
            recs.iter().any(|s| if let Rec::Sent { b: sb, e: se, .. } = s { *sb < *e && *se > *b } else { false })
        } else {
            false
        }
    });
    if drop_overlap {
        out.classes.push("sender_drop_overlaps_send");
    }
    out.nontrivial = interleaved || drop_overlap || any_full || any_blocked;
    out
}

pub fn run_case(case: &Case) -> CaseOutcome {
    let mut info = CaseInfo::default();
    info.fingerprint = fingerprint(case);
    let mut out = run_sched(case);
    if out.infra.is_some() {
        out = run_sched(case);
        if let Some(m) = out.infra {
            panic!("sched infrastructure: {m}");
        }
    }
    info.nontrivial = out.nontrivial;
    info.classes = out.classes;
    info.excluded_known = out.excluded;
    (info, out.viol)
}

// ------------------------------------------------------------------------------------------ batch

#[derive(Serialize, Deserialize, Debug, Clone, Hash)]
pub struct BatchCase {
    pub bound: Option<u16>,
    pub n: u32,
    /// every sender is dropped BEFORE the loop dispatches for the first time: the messages and then exactly one Closed
    /// have to arrive without any further wake-up
    #[serde(default)]
    pub drop_first: bool,
}

fn run_batch(c: &BatchCase) -> CaseOutcome {
    let mut info = CaseInfo::default();
    info.fingerprint = fingerprint(c);
    info.nontrivial = c.n >= 1024 || c.bound.is_some();
    info.classes.push(if c.n > 1024 { "queue_above_batch_limit" } else { "queue_within_batch_limit" });
    let mut el: EventLoop<'static, Vec<u32>> = EventLoop::try_new().expect("loop");
    let got_closed = std::rc::Rc::new(std::cell::Cell::new(0u32));
    let gc = got_closed.clone();
    let mut sent = 0u32;
    let viol;
    match c.bound {
        None => {
            let (tx, rx) = channel::<u32>();
            el.handle()
                .insert_source(rx, move |ev, _, d: &mut Vec<u32>| match ev {
                    Event::Msg(v) => d.push(v),
                    Event::Closed => gc.set(gc.get() + 1),
                })
                .unwrap();
            for i in 0..c.n {
                tx.send(i).unwrap();
                sent += 1;
            }
            viol = drain_and_check(&mut el, sent, &got_closed, Some(Box::new(tx)), c.drop_first);
        }
        Some(b) => {
            let (tx, rx) = sync_channel::<u32>(b as usize);
            el.handle()
                .insert_source(rx, move |ev, _, d: &mut Vec<u32>| match ev {
                    Event::Msg(v) => d.push(v),
                    Event::Closed => gc.set(gc.get() + 1),
                })
                .unwrap();
            for i in 0..c.n {
                if tx.try_send(i).is_ok() {
                    sent += 1;
                } else {
                    break;
                }
            }
            viol = drain_and_check(&mut el, sent, &got_closed, Some(Box::new(tx)), c.drop_first);
        }
    }
    (info, viol)
}

fn drain_and_check(el: &mut EventLoop<'static, Vec<u32>>, sent: u32, closed: &std::rc::Rc<std::cell::Cell<u32>>, tx: Option<Box<dyn std::any::Any>>, drop_first: bool) -> Option<Violation> {
    let mut got: Vec<u32> = vec![];
    if drop_first {
        drop(tx);
        let needed = sent / 1024 + 3;
        for _ in 0..needed {
            el.dispatch(Some(Duration::ZERO), &mut got).expect("dispatch");
        }
        let want: Vec<u32> = (0..sent).collect();
        if got != want {
            return Some(Violation::new(
                "C04.stranded",
                format!("sender dropped before the first dispatch: {} of {} queued messages delivered after {} dispatches without external wake-up (first missing {:?})", got.len(), sent, needed, want.get(got.len())),
            ));
        }
        if closed.get() != 1 {
            return Some(Violation::new(
                "C04.closed",
                format!("sender dropped before the first dispatch with {sent} messages queued: Closed delivered {} times after {needed} dispatches without external wake-up", closed.get()),
            ));
        }
        if el.handle().verif_stats().occupied_slots != 0 {
            return Some(Violation::new("C04.closed", "channel still in the loop after Closed".to_string()));
        }
        return None;
    }
    // no external wake-up between dispatches: the channel must re-arm itself while work remains
    let needed = sent / 1024 + 2;
    for _ in 0..needed {
        el.dispatch(Some(Duration::ZERO), &mut got).expect("dispatch");
    }
    let want: Vec<u32> = (0..sent).collect();
    if got != want {
        return Some(Violation::new(
            "C04.stranded",
            format!("{} of {} queued messages delivered after {} dispatches without external wake-up (first missing {:?})", got.len(), sent, needed, want.get(got.len())),
        ));
    }
    if closed.get() != 0 {
        return Some(Violation::new("C04.closed", "Closed delivered while the sender is alive".to_string()));
    }
    drop(tx);
    for _ in 0..2 {
        el.dispatch(Some(Duration::ZERO), &mut got).expect("dispatch");
    }
    if closed.get() != 1 {
        return Some(Violation::new("C04.closed", format!("Closed delivered {} times after the sender was dropped", closed.get())));
    }
    if got.len() != sent as usize {
        return Some(Violation::new("C04.once", "messages delivered after the queue was drained".to_string()));
    }
    if el.handle().verif_stats().occupied_slots != 0 {
        return Some(Violation::new("C04.closed", "channel still in the loop after Closed".to_string()));
    }
    None
}

// ------------------------------------------------------------------------------------------ hist

fn hist_profile() -> Vec<(&'static str, Profile, u32, u32)> {
    let mut p = Profile::base();
    p.k_ping = 1;
    p.k_chan = 10;
    p.k_timer = 1;
    p.k_gen = 0;
    p.o_handle = 8;
    p.o_token = 8;
    p.o_cause = 14;
    p.post_pct = 10;
    p.max_ops = 35;
    vec![("hist", p, 20_000, 300_000)]
}

pub static HIST: HistProp = HistProp {
    id: "C04",
    meta: &META,
    profiles: hist_profile,
    nontrivial: |f| f.removal_paths.contains("channel_closed") || f.disabled_cause_delivered > 0,
    classes: |f, c| {
        if f.removal_paths.contains("channel_closed") {
            c.push("hist_channel_closed");
        }
    },
    epoll_each_step: false,
    workers: 8,
    table: None,
    extra: None,
};

// ------------------------------------------------------------------------------------------ free-running stress
//
// Same sender programs on free OS threads released together by a spin barrier (real concurrency, for races whose
// window holds no yield site) against the dispatching loop. End-state oracle only.

#[derive(Serialize, Deserialize, Debug, Clone, Hash)]
pub struct FreeCase {
    /// None = channel(), Some(b) = sync_channel(b), b >= 1 (bound 0 is the open finding F6)
    pub bound: Option<u8>,
    pub actors: Vec<Vec<SOp>>,
    pub keep_one: bool,
    /// see `Case::unwinding`
    #[serde(default)]
    pub unwinding: bool,
}

fn free_strategy() -> impl Strategy<Value = FreeCase> {
    (
        prop_oneof![3 => Just(None), 4 => proptest::sample::select(vec![Some(1u8), Some(2), Some(8)])],
        proptest::collection::vec(proptest::collection::vec(prop_oneof![5 => Just(SOp::Send), 3 => Just(SOp::TrySend), 1 => Just(SOp::Clone), 3 => Just(SOp::Drop)], 0..=5), 2..=3),
        prop::bool::weighted(0.2),
        prop::bool::weighted(0.2),
    )
        .prop_map(|(bound, actors, keep_one, unwinding)| FreeCase { bound, actors, keep_one, unwinding })
}

pub fn run_free(case: &FreeCase) -> CaseOutcome {
    // free-running threads: not a pure function of the case; while a failure is being confirmed the case is repeated
    let mut last = run_free_once(case);
    let (reps, budget, t0) = (crate::driver::free_reps(), crate::driver::free_budget(), std::time::Instant::now());
    let mut n = 1;
    while last.1.is_none() && (n < reps || t0.elapsed() < budget) {
        last = run_free_once(case);
        n += 1;
    }
    last
}

fn run_free_once(case: &FreeCase) -> CaseOutcome {
    use std::sync::atomic::AtomicUsize;
    let mut info = CaseInfo { fingerprint: fingerprint(case), ..CaseInfo::default() };
    let bound = case.bound.map(|b| b.max(1));
    let n = case.actors.len().clamp(1, 4);
    #[derive(Default)]
    struct Got {
        msgs: Vec<u32>,
        closed: u32,
        after_closed: u32,
    }
    let mut el: EventLoop<'static, Got> = EventLoop::try_new().expect("event loop");
    let (first, chan): (Tx, Channel<u32>) = match bound {
        None => {
            let (s, c) = channel();
            (Tx::U(s), c)
        }
        Some(b) => {
            let (s, c) = sync_channel(b as usize);
            (Tx::S(s), c)
        }
    };
    el.handle()
        .insert_source(chan, |ev: Event<u32>, _: &mut (), g: &mut Got| match ev {
            Event::Msg(v) => {
                if g.closed > 0 {
                    g.after_closed += 1;
                }
                g.msgs.push(v)
            }
            Event::Closed => g.closed += 1,
        })
        .expect("insert channel");
    let keep = if case.keep_one { Some(first.dup()) } else { None };
    let go = Arc::new(AtomicUsize::new(0));
    let done = Arc::new(AtomicUsize::new(0));
    let sent: Arc<Mutex<Vec<Vec<u32>>>> = Arc::new(Mutex::new(vec![Vec::new(); n]));
    let handback_wrong = Arc::new(AtomicBool::new(false));
    let mut got = Got::default();
    let mut timed_out = false;
    std::thread::scope(|sc| {
        for (ai, prog) in case.actors.iter().take(n).enumerate() {
            let mut hs = vec![first.dup()];
            let go = go.clone();
            let done = done.clone();
            let sent = sent.clone();
            let prog = prog.clone();
            let handback_wrong = handback_wrong.clone();
            let unwinding = case.unwinding;
            sc.spawn(move || {
                go.fetch_add(1, Ordering::SeqCst);
                while go.load(Ordering::SeqCst) < n + 1 {
                    std::hint::spin_loop();
                }
                let mut seq = 0u32;
                let mut mine = Vec::new();
                for op in prog {
                    match op {
                        SOp::Send | SOp::TrySend => {
                            let Some(tx) = hs.last() else { continue };
                            seq += 1;
                            let v = ((ai as u32) << 16) | seq;
                            let ok = match tx {
                                Tx::U(s) => s.send(v).is_ok(),
                                Tx::S(s) => {
                                    if op == SOp::Send {
                                        s.send(v).is_ok()
                                    } else {
                                        match s.try_send(v) {
                                            Ok(()) => true,
                                            Err(mpsc::TrySendError::Full(back)) => {
                                                if back != v {
                                                    handback_wrong.store(true, Ordering::SeqCst);
                                                }
                                                false
                                            }
                                            Err(_) => false,
                                        }
                                    }
                                }
                            };
                            if ok {
                                mine.push(v);
                            }
                        }
                        SOp::Clone => {
                            if hs.len() < 3 {
                                if let Some(t) = hs.last().map(|t| t.dup()) {
                                    hs.push(t);
                                }
                            }
                        }
                        SOp::Drop => {
                            if let Some(t) = hs.pop() {
                                drop_tx(t, unwinding);
                            }
                        }
                        SOp::Settle => {}
                    }
                }
                while let Some(t) = hs.pop() {
                    drop_tx(t, unwinding);
                }
                sent.lock().unwrap()[ai] = mine;
                done.fetch_add(1, Ordering::SeqCst);
            });
        }
        drop(first);
        while go.load(Ordering::SeqCst) < n {
            std::hint::spin_loop();
        }
        go.fetch_add(1, Ordering::SeqCst);
        let t0 = Instant::now();
        while done.load(Ordering::SeqCst) < n {
            el.dispatch(Some(Duration::ZERO), &mut got).expect("dispatch");
            if t0.elapsed() > Duration::from_secs(20) {
                timed_out = true;
                break;
            }
        }
        if timed_out {
            // blocked senders: take their messages out so that the threads can end (the verdict is already fixed)
            let t1 = Instant::now();
            while done.load(Ordering::SeqCst) < n && t1.elapsed() < Duration::from_secs(10) {
                el.dispatch(Some(Duration::from_millis(1)), &mut got).ok();
            }
        }
    });
    // all senders finished: whatever is queued has a pending wake-up, so a few dispatches must drain it
    for _ in 0..4 {
        el.dispatch(Some(Duration::ZERO), &mut got).expect("dispatch");
    }
    let occupied = el.handle().verif_stats().occupied_slots;
    let sent = sent.lock().unwrap().clone();
    let total: usize = sent.iter().map(|v| v.len()).sum();
    info.nontrivial = case.actors.iter().take(n).filter(|p| !p.is_empty()).count() >= 2;
    info.classes.push("free_running");
    if case.unwinding {
        info.classes.push("senders_dropped_while_unwinding");
    }
    info.counters.push(("free_sent_ok", total as u64));
    let mut viol = None;
    if timed_out {
        viol = Some(Violation::new("C04.blocked", format!("free-running: senders on sync_channel({bound:?}) still blocked after the loop dispatched for 20 s")));
    }
    if viol.is_none() && handback_wrong.load(Ordering::SeqCst) {
        viol = Some(Violation::new("C04.once", "free-running: try_send(Full) handed back a different value".to_string()));
    }
    if viol.is_none() {
        for (ai, want) in sent.iter().enumerate() {
            let have: Vec<u32> = got.msgs.iter().copied().filter(|v| (v >> 16) as usize == ai).collect();
            if &have != want {
                let rule = if have.len() < want.len() { "C04.stranded" } else if have.len() > want.len() { "C04.once" } else { "C04.order" };
                viol = Some(Violation::new(rule, format!("free-running: sender {ai} sent (Ok) {want:x?}, delivered {have:x?} after every sender finished and 4 more dispatches")));
                break;
            }
        }
    }
    if viol.is_none() {
        let want_closed = if case.keep_one { 0 } else { 1 };
        if got.closed != want_closed || got.after_closed > 0 {
            viol = Some(Violation::new(
                "C04.closed",
                format!("free-running: Closed delivered {} time(s) (expected {want_closed}), {} message(s) after it; all actor handles dropped, kept by harness: {}", got.closed, got.after_closed, case.keep_one),
            ));
        } else if occupied != if case.keep_one { 1 } else { 0 } {
            viol = Some(Violation::new("C04.closed", format!("free-running: loop holds {occupied} sources after the channel closed / with a sender kept ({})", case.keep_one)));
        }
    }
    drop(keep);
    (info, viol)
}

pub fn check(ctx: &CheckCtx) -> Option<Found> {
    STEER_SYNC0.store(ctx.known_open(SIG_SYNC0), Ordering::SeqCst);
    // replays run with the steering off so that a listed finding is visible
    let steer = STEER_SYNC0.swap(false, Ordering::SeqCst);
    let r = ctx.run_replays::<Case, _>("sched", run_case);
    STEER_SYNC0.store(steer, Ordering::SeqCst);
    if let Some(f) = r {
        return Some(f);
    }
    if let Some(f) = ctx.run_replays::<BatchCase, _>("batch", run_batch) {
        return Some(f);
    }
    if let Some(f) = ctx.run_replays::<crate::hist::ops::HistCase, _>("hist", |c| run_case_for(&HIST, c)) {
        return Some(f);
    }
    if let Some(f) = ctx.run_replays::<FreeCase, _>("free", run_free) {
        return Some(f);
    }
    let t = ctx.tier;
    let child = crate::ship::is_child();
    // (the ship-profile child runs a short schedule search only)
    if let Some(f) = ctx.search("sched", case_strategy(), if child { 800 } else { t.pick(12_000, 200_000) }, 6, None, run_case) {
        return Some(f);
    }
    if let Some(f) = ctx.search("free", free_strategy(), if child { 300 } else { t.pick(3_000, 100_000) }, 4, None, run_free) {
        return Some(f);
    }
    // batch limit family (fixed list + random)
    let mut fixed: Vec<BatchCase> = vec![];
    for n in [0u32, 1, 1023, 1024, 1025, 2048, 2049, 3000] {
        fixed.push(BatchCase { bound: None, n, drop_first: false });
        fixed.push(BatchCase { bound: None, n, drop_first: true });
    }
    for b in [0u16, 1, 2, 8, 1023, 1024, 2000] {
        for n in [b as u32, b as u32 + 1, b as u32 + 5] {
            fixed.push(BatchCase { bound: Some(b), n, drop_first: false });
            fixed.push(BatchCase { bound: Some(b), n, drop_first: true });
        }
    }
    for c in &fixed {
        let (info, v) = run_batch(c);
        ctx.col.record(&info, || serde_json::to_value(c).unwrap());
        if let Some(v) = v {
            return Some(Found { sub: "batch".into(), violation: v, case: serde_json::to_value(c).unwrap(), replay_path: None });
        }
    }
    let batch_strat = (prop::option::weighted(0.4, 0u16..2100), prop_oneof![3 => 0u32..3300, 1 => (0u32..4, 0u32..3).prop_map(|(k, d)| (1024 + k * 1025 + d).saturating_sub(1))], any::<bool>()).prop_map(|(bound, n, drop_first)| BatchCase { bound, n, drop_first });
    if let Some(f) = ctx.search("batch", batch_strat, t.pick(300, 6000), 8, None, run_batch) {
        return Some(f);
    }
    let (name, profile, q, th) = hist_profile().remove(0);
    if let Some(f) = ctx.search_with(name, || crate::hist::ops::case_strategy(&profile), t.pick(q, th), 8, None, |c| run_case_for(&HIST, c)) {
        return Some(f);
    }
    let _ = Tier::Quick;
    None
}

pub fn replay(_ctx: &CheckCtx, sub: &str, case: serde_json::Value) -> Result<Option<Violation>, String> {
    match sub {
        "hist" => hist_replay(&HIST, case),
        "batch" => {
            let c: BatchCase = serde_json::from_value(case).map_err(|e| e.to_string())?;
            Ok(run_batch(&c).1)
        }
        "free" => {
            let c: FreeCase = serde_json::from_value(case).map_err(|e| e.to_string())?;
            Ok(run_free(&c).1)
        }
        _ => {
            STEER_SYNC0.store(false, Ordering::SeqCst);
            let c: Case = serde_json::from_value(case).map_err(|e| e.to_string())?;
            Ok(run_case(&c).1)
        }
    }
}

// ------------------------------------------------------------------------------------------------
// C02's cross-thread sub-check: the same schedule families, only the lost-wake-up rule (see histprops.rs)

const C02_RULES: &[&str] = &["C04.stranded"];

pub fn xthread_for_c02(ctx: &CheckCtx) -> Option<Found> {
    use crate::props::histprops::xthread_relabel;
    STEER_SYNC0.store(false, Ordering::SeqCst);
    if let Some(f) = ctx.run_replays::<Case, _>("xthread.chan", |c| xthread_relabel(run_case(c), C02_RULES)) {
        return Some(f);
    }
    if let Some(f) = ctx.run_replays::<FreeCase, _>("xthread.chan_free", |c| xthread_relabel(run_free(c), C02_RULES)) {
        return Some(f);
    }
    STEER_SYNC0.store(ctx.known_open(SIG_SYNC0), Ordering::SeqCst);
    let t = ctx.tier;
    if let Some(f) = ctx.search("xthread.chan", case_strategy(), t.pick(4_000, 60_000), 6, None, |c| xthread_relabel(run_case(c), C02_RULES)) {
        return Some(f);
    }
    ctx.search("xthread.chan_free", free_strategy(), t.pick(800, 20_000), 4, None, |c| xthread_relabel(run_free(c), C02_RULES))
}

pub fn xthread_replay(sub: &str, case: serde_json::Value) -> Result<Option<Violation>, String> {
    use crate::props::histprops::xthread_relabel;
    STEER_SYNC0.store(false, Ordering::SeqCst);
    if sub == "xthread.chan_free" {
        let c: FreeCase = serde_json::from_value(case).map_err(|e| e.to_string())?;
        return Ok(xthread_relabel(run_free(&c), C02_RULES).1);
    }
    let c: Case = serde_json::from_value(case).map_err(|e| e.to_string())?;
    Ok(xthread_relabel(run_case(&c), C02_RULES).1)
}
