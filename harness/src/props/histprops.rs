//! The history-machine properties: C01 C02 C05 C06 C07 C08 C09 C13 C14 C15 C16.
//! One engine (hist::world + hist::monitor), per-property generator bias, rule set and non-trivial rule.

use crate::driver::{CaseOutcome, CheckCtx, Found, PropMeta, Tier, Violation};
use crate::hist::monitor::Facts;
use crate::hist::ops::{case_strategy, HistCase, Profile};
use crate::evidence::CaseInfo;
use proptest::prelude::*;
use crate::hist::{base_info, run_for};

pub struct HistProp {
    pub id: &'static str,
    pub meta: &'static PropMeta,
    /// (sub-check name, profile, quick cases, thorough cases)
    pub profiles: fn() -> Vec<(&'static str, Profile, u32, u32)>,
    pub nontrivial: fn(&Facts) -> bool,
    pub classes: fn(&Facts, &mut Vec<&'static str>),
    pub epoll_each_step: bool,
    pub workers: usize,
    /// a fixed, constructed list of cases run completely in both tiers before the random search (sub-check "table")
    pub table: Option<fn() -> Vec<HistCase>>,
    /// an additional sub-check of its own shape, run after the profile searches
    pub extra: Option<fn(&CheckCtx, &'static HistProp) -> Option<Found>>,
}

pub fn run_case_for(hp: &HistProp, case: &HistCase) -> CaseOutcome {
    let any = std::env::var("VERIF_HIST_ANY").is_ok();
    let (facts, viol, foreign) = run_for(hp.id, case, hp.epoll_each_step);
    let mut info = base_info(case, &facts, &foreign);
    info.nontrivial = (hp.nontrivial)(&facts) && foreign.is_none();
    (hp.classes)(&facts, &mut info.classes);
    if any {
        if let Some(v) = &foreign {
            return (info, Some(v.clone()));
        }
    }
    (info, viol)
}

pub fn hist_check(ctx: &CheckCtx, hp: &HistProp) -> Option<Found> {
    let profiles = (hp.profiles)();
    for (name, _, _, _) in &profiles {
        if let Some(f) = ctx.run_replays::<HistCase, _>(name, |c| run_case_for(hp, c)) {
            return Some(f);
        }
    }
    if let Some(table) = hp.table {
        if let Some(f) = ctx.run_replays::<HistCase, _>("table", |c| run_case_for(hp, c)) {
            return Some(f);
        }
        let cases = table();
        let n = cases.len();
        for c in &cases {
            let (info, v) = run_case_for(hp, c);
            ctx.col.record(&info, || serde_json::to_value(c).unwrap_or_default());
            if let Some(v) = v {
                if ctx.known_open(&v.sig) {
                    ctx.col.add_excluded(1);
                    continue;
                }
                // same discipline as the search: confirm twice more
                let again = (0..2).filter(|_| matches!(run_case_for(hp, c).1, Some(ref v2) if v2.rule == v.rule)).count();
                if again == 2 {
                    return Some(Found { sub: "table".into(), violation: v, case: serde_json::to_value(c).unwrap_or_default(), replay_path: None });
                }
                ctx.infra_error(format!("table: failure {} did not reproduce: {}", v.rule, v.detail));
            }
        }
        ctx.col.set_sub("table", serde_json::json!({ "cases": n }));
        ctx.col.exhaustive(&format!("constructed table of {n} single-operation callback programs (see the rule text)"));
    }
    for (name, profile, q, t) in &profiles {
        let cases = match ctx.tier {
            Tier::Quick => *q,
            Tier::Thorough => *t,
        };
        if let Some(f) = ctx.search_with(name, || case_strategy(profile), cases, hp.workers, None, |c| run_case_for(hp, c)) {
            return Some(f);
        }
    }
    if let Some(extra) = hp.extra {
        if let Some(hp_static) = by_id(hp.id) {
            if let Some(f) = extra(ctx, hp_static) {
                return Some(f);
            }
        }
    }
    // the same generators and oracle once more in the build without overflow checks and debug assertions (see ship.rs)
    if !crate::ship::is_child() {
        if let Some(f) = crate::ship::check(ctx, "a quarter of the history cases of every profile re-run in a build of harness + calloop with overflow-checks = false, debug-assertions = false") {
            return Some(f);
        }
    }
    if ctx.tier == Tier::Thorough {
        // coverage-guided campaign over the same generators and the same oracle
        let hp_static = by_id(hp.id)?;
        if let Some(f) = crate::fuzz::campaign(ctx, &hist_fuzz_subs(hp_static), 150_000, 16) {
            return Some(f);
        }
    }
    None
}


/// Child side of the ship-profile sub-check of a history property (see ship.rs): the profile searches at a quarter of
/// their size, or the replay of one case.
pub fn ship_child(ctx: &CheckCtx, hp: &HistProp) -> i32 {
    if let Err(e) = crate::ship::child_profile_ok() {
        crate::ship::child_error(&e);
        return 2;
    }
    let mut found: Option<Found> = None;
    if let Some((sub, case)) = crate::ship::child_replay_request() {
        match hist_replay(hp, case.clone()) {
            Ok(Some(v)) => found = Some(Found { sub, violation: v, case, replay_path: None }),
            Ok(None) => {}
            Err(e) => {
                crate::ship::child_error(&format!("bad replay case: {e}"));
                return 2;
            }
        }
    } else {
        for (name, profile, q, t) in (hp.profiles)() {
            let cases = match ctx.tier {
                Tier::Quick => q / 4,
                Tier::Thorough => t / 4,
            };
            if let Some(f) = ctx.search_with(name, || case_strategy(&profile), cases.max(1), hp.workers, None, |c| run_case_for(hp, c)) {
                found = Some(f);
                break;
            }
        }
    }
    crate::ship::child_report(ctx, found);
    0
}

pub fn by_id(id: &str) -> Option<&'static HistProp> {
    [&C01, &C02, &C05, &C06, &C07, &C08, &C09, &C13, &C14, &C15, &C16].into_iter().find(|h| h.id == id)
}

pub fn hist_fuzz_subs(hp: &'static HistProp) -> Vec<crate::fuzz::FuzzSub> {
    (hp.profiles)()
        .into_iter()
        .map(|(name, profile, _, _)| crate::fuzz::sub(name, move |data: &[u8]| crate::hist::fuzzgen::case(&profile, data), move |c: &HistCase| run_case_for(hp, c)))
        .collect()
}

pub fn hist_replay(hp: &HistProp, case: serde_json::Value) -> Result<Option<Violation>, String> {
    let c: HistCase = serde_json::from_value(case).map_err(|e| e.to_string())?;
    Ok(run_case_for(hp, &c).1)
}

const ASSUME: &[&str] = &[
    "trace-checking monitor (harness/src/hist/monitor.rs) encodes the statement; it judges only what the statement fixes and taints sources after documented misuse (enable while enabled, update while disabled, failed unregister)",
    "fd readiness ground truth is poll(2) taken before each dispatch and after every harness write/read; time is the real monotonic clock",
    "single thread per case; real epoll/eventfd/timer heap, no mocks",
];


// ------------------------------------------------------------------------------------------ C02: cross-thread causes
// "A queued message / an unconsumed ping / a runnable task is dispatched" also has to hold when the cause is produced by
// another thread while the loop is dispatching; single-threaded histories cannot show that. C02 therefore re-runs the
// schedule families of C03 (ping), C04 (channel) and C10 (executor) and keeps exactly their lost-wake-up rules.

/// Keep only the violations whose rule is in `keep`, re-labelled as C02's.
pub fn xthread_relabel((info, v): CaseOutcome, keep: &[&str]) -> CaseOutcome {
    let v = v.filter(|v| keep.contains(&v.rule.as_str())).map(|v| {
        let sig = format!("C02.xthread/{}", v.sig);
        Violation::new("C02.xthread", format!("[{}] {}", v.rule, v.detail)).with_sig(sig)
    });
    (info, v)
}

fn c02_xthread(ctx: &CheckCtx, _hp: &'static HistProp) -> Option<Found> {
    crate::props::c04::xthread_for_c02(ctx).or_else(|| crate::props::c03::xthread_for_c02(ctx)).or_else(|| crate::props::c10::xthread_for_c02(ctx))
}

pub fn c02_replay(sub: &str, case: serde_json::Value) -> Result<Option<Violation>, String> {
    match sub {
        "xthread.chan" | "xthread.chan_free" => crate::props::c04::xthread_replay(sub, case),
        "xthread.ping" => crate::props::c03::xthread_replay(sub, case),
        "xthread.exec" => crate::props::c10::xthread_replay(sub, case),
        _ => hist_replay(&C02, case),
    }
}


// ------------------------------------------------------------------------------------------ slot generations (C01, C06)
// A stale token must stay dead - and a stale event of the batch must stay undeliverable - for every number of reuses
// of its slot below 65536. Histories are far too short for that, so this sub-check walks one slot through up to 65535
// occupants (a generated pattern of insert_source / register_dispatcher / adapt_io cycles, every occupant removed again,
// optionally all of it from inside one callback, i.e. within a single dispatch) and compares every token handed out for
// the slot with the first one.

#[derive(serde::Serialize, serde::Deserialize, Debug, Clone, Hash, PartialEq, Eq)]
pub struct GenCase {
    /// kinds of the successive occupants, repeated cyclically: 0 = insert_source + remove, 1 = register_dispatcher +
    /// remove, 2 = adapt_io + drop of the adapter
    pub pattern: Vec<u8>,
    /// number of reuses of the slot (1..=65535)
    pub reuses: u32,
    /// run all cycles from inside the callback of another source (one dispatch) and end with a source over an fd whose
    /// predecessor had an event collected in that batch
    pub in_callback: bool,
}

fn gen_case_strategy() -> impl Strategy<Value = GenCase> {
    (
        proptest::collection::vec(0u8..3, 1..=4),
        prop_oneof![4 => 1u32..=70, 2 => 250u32..=260, 3 => 32_760u32..=32_775, 3 => 65_520u32..=65_535, 2 => 1u32..=65_535],
        any::<bool>(),
    )
        .prop_map(|(pattern, reuses, in_callback)| GenCase { pattern, reuses, in_callback })
}

pub fn run_generations(c: &GenCase) -> CaseOutcome {
    use calloop::generic::Generic;
    use calloop::timer::{TimeoutAction, Timer};
    use calloop::{EventLoop, Interest, Mode, PostAction, RegistrationToken};
    crate::driver::HEARTBEAT.fetch_add(1, std::sync::atomic::Ordering::Relaxed);
    let mut info = CaseInfo::default();
    info.fingerprint = crate::evidence::fingerprint(c);
    info.nontrivial = c.reuses >= 256;
    info.classes.push(if c.in_callback { "generations_inside_one_dispatch" } else { "generations_between_dispatches" });
    if c.reuses >= 32_768 {
        info.classes.push("generations_32768_or_more_reuses");
    }
    let reuses = c.reuses.clamp(1, 65_535);
    let pattern = if c.pattern.is_empty() { vec![0] } else { c.pattern.clone() };
    struct St {
        viol: Option<Violation>,
        removed: bool,
        victim_cb: u32,
        last_cb: u32,
    }
    let mut el: EventLoop<'static, St> = EventLoop::try_new().expect("event loop");
    let h = el.handle();
    // slot 0: a ping source that drives the in-callback variant; slot 1: the victim whose token goes stale
    let (ping, psrc) = calloop::ping::make_ping().expect("make_ping");
    let (va, vb) = crate::kernel::socketpair();
    let (la, lb) = crate::kernel::socketpair();
    let _peers = (crate::kernel::OwnedRaw(vb), crate::kernel::OwnedRaw(lb));
    let victim_fd = crate::kernel::OwnedRaw(va);
    let last_fd = crate::kernel::OwnedRaw(la);
    let cycles = std::rc::Rc::new(move |h: &calloop::LoopHandle<'static, St>, first: RegistrationToken, st: &mut St| {
        let adapt_fd = crate::kernel::OwnedRaw(crate::kernel::eventfd_nonblock());
        // `reuses - 1` throw-away occupants, the last reuse is the source over `last_fd`
        for i in 0..reuses.saturating_sub(1) {
            let tok = match pattern[i as usize % pattern.len()] % 3 {
                0 => Some(h.insert_source(Timer::from_duration(std::time::Duration::from_secs(3600)), |_, _, _: &mut St| TimeoutAction::Drop).expect("insert timer")),
                1 => {
                    let d = calloop::Dispatcher::new(Timer::from_duration(std::time::Duration::from_secs(3600)), |_, _, _: &mut St| TimeoutAction::Drop);
                    Some(h.register_dispatcher(d).expect("register dispatcher"))
                }
                _ => {
                    drop(h.adapt_io(crate::kernel::BorrowedRaw(adapt_fd.0)).expect("adapt_io"));
                    None
                }
            };
            if let Some(tok) = tok {
                if tok == first && st.viol.is_none() {
                    st.viol = Some(Violation::new("C01.key", format!("after {} reuses of its slot the stale token of the removed source was handed out again", i + 1)).with_sig("C01.key/stale-token-revived"));
                }
                h.remove(tok);
            }
            if i % 4096 == 0 && h.enable(&first).is_ok() && st.viol.is_none() {
                st.viol = Some(Violation::new("C06.dead_token", format!("enable() on the token of the removed source returned Ok after {} reuses of its slot", i + 1)).with_sig("C06.dead_token/revived"));
            }
        }
    });
    let last_src = std::rc::Rc::new(std::cell::RefCell::new(Some(Generic::new(last_fd, Interest::READ, Mode::Level))));
    let insert_last: std::rc::Rc<dyn Fn(&calloop::LoopHandle<'static, St>, &mut St, RegistrationToken)> = std::rc::Rc::new(move |h: &calloop::LoopHandle<'static, St>, st: &mut St, first: RegistrationToken| {
        let tok = h
            .insert_source(last_src.borrow_mut().take().expect("once"), |_, _, st: &mut St| {
                st.last_cb += 1;
                Ok(PostAction::Continue)
            })
            .expect("insert last");
        if tok == first && st.viol.is_none() {
            st.viol = Some(Violation::new("C01.key", format!("after {reuses} reuses of its slot the stale token of the removed source was handed out again")).with_sig("C01.key/stale-token-revived"));
        }
    });
    // the ping source goes in first (and is pinged first), so that the poller reports it ahead of the victim; its callback
    // does the work of the in-callback variant (weak handle: no reference cycle through the loop)
    let victim_tok: std::rc::Rc<std::cell::Cell<Option<RegistrationToken>>> = Default::default();
    {
        let weak = h.downgrade();
        let (cycles2, insert_last2, victim_tok2) = (cycles.clone(), insert_last.clone(), victim_tok.clone());
        let in_cb = c.in_callback;
        h.insert_source(psrc, move |_, _, st: &mut St| {
            let (true, Some(victim), Some(h2)) = (in_cb, victim_tok2.take(), weak.upgrade()) else { return };
            h2.remove(victim);
            st.removed = true;
            cycles2(&h2, victim, st);
            insert_last2(&h2, st, victim);
        })
        .expect("insert ping");
    }
    if c.in_callback {
        ping.ping();
    }
    // the victim: readable, so that (in_callback) its event sits in the batch behind the ping's
    crate::kernel::raw_write(_peers.0 .0, b"x");
    let victim = h
        .insert_source(Generic::new(victim_fd, Interest::READ, Mode::Level), |_, _, st: &mut St| {
            // (should the poller report the victim ahead of the ping: only callbacks after its removal count)
            if st.removed {
                st.victim_cb += 1;
            }
            Ok(PostAction::Continue)
        })
        .expect("insert victim");
    victim_tok.set(Some(victim));
    let mut st = St { viol: None, removed: false, victim_cb: 0, last_cb: 0 };
    if !c.in_callback {
        h.remove(victim);
        st.removed = true;
        cycles(&h, victim, &mut st);
        insert_last(&h, &mut st, victim);
    }
    el.dispatch(Some(std::time::Duration::ZERO), &mut st).expect("dispatch");
    el.dispatch(Some(std::time::Duration::ZERO), &mut st).expect("dispatch");
    let mut viol = st.viol.take();
    if viol.is_none() && st.victim_cb > 0 {
        viol = Some(Violation::new("C06.after_remove", format!("the removed source was called back {} time(s) after its removal", st.victim_cb)).with_sig("C06.after_remove/generations"));
    }
    // the last occupant's fd never became readable: a callback can only be the removed source's stale event
    if viol.is_none() && st.last_cb > 0 {
        viol = Some(
            Violation::new("C01.cause", format!("after {reuses} reuses of the slot its new occupant was called back {} time(s) for an event of the removed source (its own fd was never readable)", st.last_cb))
                .with_sig("C01.cause/stale-event-after-slot-reuse"),
        );
    }
    if viol.is_none() && h.enable(&victim).is_ok() {
        viol = Some(Violation::new("C06.dead_token", format!("enable() on the token of the removed source returned Ok after {reuses} reuses of its slot")).with_sig("C06.dead_token/revived"));
    }
    drop(ping);
    (info, viol)
}

fn slot_generations(ctx: &CheckCtx, _hp: &'static HistProp) -> Option<Found> {
    if let Some(f) = ctx.run_replays::<GenCase, _>("generations", run_generations) {
        return Some(f);
    }
    // fixed boundary cases first, then generated ones
    for (reuses, in_callback) in [(255u32, false), (256, true), (32_767, true), (32_768, true), (32_768, false), (65_535, false), (65_535, true)] {
        for pattern in [vec![0u8], vec![2, 0], vec![1, 2, 0]] {
            let c = GenCase { pattern, reuses, in_callback };
            let (info, v) = run_generations(&c);
            ctx.col.record(&info, || serde_json::to_value(&c).unwrap());
            if let Some(v) = v {
                return Some(Found { sub: "generations".into(), violation: v, case: serde_json::to_value(&c).unwrap(), replay_path: None });
            }
        }
    }
    ctx.search("generations", gen_case_strategy(), ctx.tier.pick(400, 8_000), 8, None, run_generations)
}


// ------------------------------------------------------------------------------------------ C13 under run() / block_on()
// "An idle inserted by an idle callback runs in the following dispatch, never in the same one" also has to hold for the
// dispatches run() and block_on() perform, including the last one before they return. C13 re-runs C11's deterministic
// in-loop family and keeps its idle rule.

fn c13_keep((info, v): CaseOutcome) -> CaseOutcome {
    (info, v.filter(|v| v.rule.starts_with("C13.")))
}

fn c13_inloop(ctx: &CheckCtx, _hp: &'static HistProp) -> Option<Found> {
    use crate::props::c11;
    if let Some(f) = ctx.run_replays::<c11::InCase, _>("inloop", |c| c13_keep(c11::run_inloop(c))) {
        return Some(f);
    }
    ctx.search("inloop", c11::in_strategy(), ctx.tier.pick(5_000, 150_000), 8, None, |c| c13_keep(c11::run_inloop(c)))
}

// A dispatch whose poll comes back with a completely full event buffer (1024 events) is still ONE dispatch: its idle
// callbacks run after all of its source callbacks, an idle queued by an idle callback runs in a later dispatch, and
// whatever did not fit is delivered by the following dispatches. Family over n ping sources all pinged at once,
// n around and above the buffer size.
#[derive(serde::Serialize, serde::Deserialize, Debug, Clone, Hash, PartialEq, Eq)]
pub struct FbCase {
    /// number of ping sources, all ready at the first dispatch
    pub n: u16,
    /// idle callbacks queued before the first dispatch
    pub idles: u8,
    /// every idle callback queues a follow-up idle when it runs
    pub chain: bool,
    /// timeout of each dispatch in ms (0 = non-blocking)
    pub timeout_ms: u8,
    /// this many more idle callbacks (0, or around and above 1024) queued before the first dispatch, after the others:
    /// all of them run in dispatch #0, in insertion order - the idle phase has no batch limit
    #[serde(default)]
    pub many_idles: u16,
}

fn fb_strategy() -> impl Strategy<Value = FbCase> {
    (prop_oneof![2 => 1000u16..1030, 2 => 1030u16..1300, 1 => 2040u16..2060, 1 => 1u16..1000], 1u8..=3, any::<bool>(), prop_oneof![3 => Just(0u8), 1 => 1u8..4], prop_oneof![3 => Just(0u16), 1 => 1000u16..1100, 1 => 1100u16..2600])
        .prop_map(|(n, idles, chain, timeout_ms, many_idles)| FbCase { n: if many_idles > 0 { n % 64 + 1 } else { n }, idles, chain, timeout_ms, many_idles })
}

fn run_full_batch(c: &FbCase) -> CaseOutcome {
    use calloop::EventLoop;
    use std::cell::RefCell;
    use std::rc::Rc;
    #[derive(Clone, Copy, PartialEq, Debug)]
    enum L {
        Src(u16),
        Idle(u16),
    }
    let n = c.n.clamp(1, 2100) as usize;
    let mut info = CaseInfo { fingerprint: crate::evidence::fingerprint(c), ..CaseInfo::default() };
    info.classes.push(if n >= 1024 { "full_event_buffer" } else { "below_event_buffer" });
    info.nontrivial = n >= 1024;
    let mut el: EventLoop<()> = EventLoop::try_new().expect("event loop");
    let h = el.handle();
    let log: Rc<RefCell<Vec<L>>> = Default::default();
    let mut pings = Vec::with_capacity(n);
    for i in 0..n {
        let (p, s) = match calloop::ping::make_ping() {
            Ok(x) => x,
            Err(_) => {
                info.classes.push("inconclusive:fd_limit");
                info.nontrivial = false;
                return (info, None);
            }
        };
        let l = log.clone();
        h.insert_source(s, move |_, _, _| l.borrow_mut().push(L::Src(i as u16))).expect("insert ping");
        p.ping();
        pings.push(p);
    }
    // idle callbacks: ids 0.. for the initial ones, 100 + parent for the chained ones
    for k in 0..c.idles.clamp(1, 3) as u16 {
        let l = log.clone();
        let h2 = h.clone();
        let chain = c.chain;
        let _ = h.insert_idle(move |_| {
            l.borrow_mut().push(L::Idle(k));
            if chain {
                let l2 = l.clone();
                let _ = h2.insert_idle(move |_| l2.borrow_mut().push(L::Idle(100 + k)));
            }
        });
    }
    let many = c.many_idles.min(3000);
    if many > 0 {
        info.classes.push(if many > 1024 { "more_than_1024_idles_queued" } else { "many_idles_queued" });
        info.nontrivial = info.nontrivial || many > 1024;
    }
    for k in 0..many {
        let l = log.clone();
        let _ = h.insert_idle(move |_| l.borrow_mut().push(L::Idle(1000 + k)));
    }
    let v = |sig: &str, d: String| Some(Violation::new("C13.phase", d).with_sig(format!("C13.phase/{sig}")));
    let mut delivered = vec![0u32; n];
    let mut idle_at: Vec<(u16, usize)> = Vec::new();
    let mut viol = None;
    let max_dispatches = n / 1024 + 4;
    for d in 0..max_dispatches {
        log.borrow_mut().clear();
        if let Err(e) = el.dispatch(Some(std::time::Duration::from_millis(c.timeout_ms.min(4) as u64)), &mut ()) {
            viol = v("full-batch-dispatch-error", format!("dispatch #{d} over {n} ready ping sources failed: {e}"));
            break;
        }
        let lg = log.borrow().clone();
        let first_idle = lg.iter().position(|e| matches!(e, L::Idle(_)));
        if let Some(fi) = first_idle {
            if let Some(off) = lg[fi..].iter().position(|e| matches!(e, L::Src(_))) {
                viol = v(
                    "full-batch-source-after-idle",
                    format!(
                        "dispatch #{d} over {n} ready ping sources: a source callback ran after an idle callback within one dispatch call ({} source callbacks, first idle at position {fi}, next source callback at position {})",
                        lg.iter().filter(|e| matches!(e, L::Src(_))).count(),
                        fi + off
                    ),
                );
                break;
            }
        }
        if many > 0 {
            let got: Vec<u16> = lg.iter().filter_map(|e| if let L::Idle(k) = e { if *k >= 1000 { Some(*k - 1000) } else { None } } else { None }).collect();
            let want: Vec<u16> = if d == 0 { (0..many).collect() } else { vec![] };
            if got != want {
                let first_bad = got.iter().zip(want.iter()).position(|(a, b)| a != b).unwrap_or(got.len().min(want.len()));
                viol = Some(Violation::new("C13.once", format!("{many} idle callbacks were queued before dispatch #0; dispatch #{d} ran {} of them (expected {}), first difference at position {first_bad}: every queued idle runs once, in insertion order, in the first dispatch that returns Ok", got.len(), want.len())).with_sig("C13.once/many-idles"));
                break;
            }
        }
        for e in &lg {
            match e {
                L::Src(i) => delivered[*i as usize] += 1,
                L::Idle(k) => idle_at.push((*k, d)),
            }
        }
        if d == 0 && n >= 1024 && lg.iter().filter(|e| matches!(e, L::Src(_))).count() < n {
            info.classes.push("first_dispatch_left_events_for_the_next");
        }
    }
    if viol.is_none() {
        for k in 0..c.idles.clamp(1, 3) as u16 {
            let first = idle_at.iter().filter(|(i, _)| *i == k).map(|(_, d)| *d).collect::<Vec<_>>();
            if first != vec![0] {
                viol = v("full-batch-idle-count", format!("idle callback {k} queued before the first dispatch ran in dispatches {first:?}, expected exactly once in dispatch #0 ({n} ready sources)"));
                break;
            }
            if c.chain {
                let second = idle_at.iter().filter(|(i, _)| *i == 100 + k).map(|(_, d)| *d).collect::<Vec<_>>();
                if second != vec![1] {
                    viol = v(
                        "full-batch-chained-idle",
                        format!("the idle callback queued by idle callback {k} (which ran in dispatch #0) ran in dispatches {second:?}, expected exactly once, in dispatch #1 ({n} ready sources)"),
                    );
                    break;
                }
            }
        }
    }
    if viol.is_none() {
        if let Some(i) = delivered.iter().position(|c| *c != 1) {
            // (C02's business; reported here under C13's name only as part of this family's end state)
            viol = v("full-batch-delivery", format!("ping source {i} of {n} (each pinged once) ran its callback {} time(s) over {max_dispatches} dispatches", delivered[i]));
        }
    }
    drop(pings);
    (info, viol)
}

fn c13_extra(ctx: &CheckCtx, hp: &'static HistProp) -> Option<Found> {
    if let Some(f) = c13_inloop(ctx, hp) {
        return Some(f);
    }
    if let Some(f) = ctx.run_replays::<FbCase, _>("full_batch", run_full_batch) {
        return Some(f);
    }
    ctx.search("full_batch", fb_strategy(), ctx.tier.pick(300, 6_000), 4, None, run_full_batch)
}

pub fn c13_replay(sub: &str, case: serde_json::Value) -> Result<Option<Violation>, String> {
    if sub == "full_batch" {
        let c: FbCase = serde_json::from_value(case).map_err(|e| e.to_string())?;
        return Ok(run_full_batch(&c).1);
    }
    if sub == "inloop" {
        let c: crate::props::c11::InCase = serde_json::from_value(case).map_err(|e| e.to_string())?;
        return Ok(c13_keep(crate::props::c11::run_inloop(&c)).1);
    }
    hist_replay(&C13, case)
}


// ------------------------------------------------------------------------------------------ C14: lifecycle source with a timer
// The iterator handed to before_handle_events must yield exactly the real events the source is then asked to process in
// that dispatch - also the expiries of a Timer sub-source, which do not come from the poller but from the loop's timer
// wheel, and also when a hook takes long enough for a deadline to pass meanwhile. Small timing family over a custom
// lifecycle source {PingSource, Timer}; the comparison is exact whatever the timing turns out to be.

#[derive(serde::Serialize, serde::Deserialize, Debug, Clone, Hash, PartialEq, Eq)]
pub struct LtCase {
    /// the timer child is due this long after the source is inserted
    pub timer_us: u16,
    /// before_handle_events takes this long
    pub hook_us: u16,
    /// the ping child is pinged before the first dispatch
    pub pinged: bool,
    /// how often the timer child re-arms itself (ToDuration(timer_us)) before it stops
    pub repeats: u8,
    /// 2..=5 dispatches with this timeout in 100 us steps (0 = non-blocking)
    pub dispatches: u8,
    pub timeout_100us: u8,
    /// a second lifecycle source (ping only) whose hook is the slow one instead
    pub other_is_slow: bool,
}

fn lt_strategy() -> impl Strategy<Value = LtCase> {
    (0u16..4000, prop_oneof![1 => Just(0u16), 3 => 100u16..3000], any::<bool>(), 0u8..3, 2u8..=5, prop_oneof![2 => Just(0u8), 1 => 1u8..20], any::<bool>())
        .prop_map(|(timer_us, hook_us, pinged, repeats, dispatches, timeout_100us, other_is_slow)| LtCase { timer_us, hook_us, pinged, repeats, dispatches, timeout_100us, other_is_slow })
}

#[derive(Default)]
struct LtLog {
    bs: u32,
    bh: u32,
    shown: Vec<usize>,
    processed: Vec<usize>,
}

struct LtSource {
    ping: calloop::ping::PingSource,
    timer: Option<calloop::timer::Timer>,
    repeats: u8,
    period: std::time::Duration,
    hook: std::time::Duration,
    log: std::rc::Rc<std::cell::RefCell<LtLog>>,
}

impl calloop::EventSource for LtSource {
    type Event = ();
    type Metadata = ();
    type Ret = ();
    type Error = Box<dyn std::error::Error + Sync + Send>;
    const NEEDS_EXTRA_LIFECYCLE_EVENTS: bool = true;
    fn process_events<F>(&mut self, r: calloop::Readiness, t: calloop::Token, mut cb: F) -> Result<calloop::PostAction, Self::Error>
    where
        F: FnMut((), &mut ()),
    {
        self.log.borrow_mut().processed.push(t.verif_key());
        self.ping.process_events(r, t, |_, _| cb((), &mut ()))?;
        if let Some(timer) = self.timer.as_mut() {
            let (repeats, period) = (&mut self.repeats, self.period);
            timer.process_events(r, t, |_, _| {
                cb((), &mut ());
                if *repeats > 0 {
                    *repeats -= 1;
                    calloop::timer::TimeoutAction::ToDuration(period)
                } else {
                    // keep the child (and its sub-token) around, unarmed
                    calloop::timer::TimeoutAction::ToDuration(std::time::Duration::MAX)
                }
            })?;
        }
        Ok(calloop::PostAction::Continue)
    }
    fn register(&mut self, p: &mut calloop::Poll, f: &mut calloop::TokenFactory) -> calloop::Result<()> {
        self.ping.register(p, f)?;
        if let Some(t) = self.timer.as_mut() {
            t.register(p, f)?;
        }
        Ok(())
    }
    fn reregister(&mut self, p: &mut calloop::Poll, f: &mut calloop::TokenFactory) -> calloop::Result<()> {
        self.ping.reregister(p, f)?;
        if let Some(t) = self.timer.as_mut() {
            t.reregister(p, f)?;
        }
        Ok(())
    }
    fn unregister(&mut self, p: &mut calloop::Poll) -> calloop::Result<()> {
        self.ping.unregister(p)?;
        if let Some(t) = self.timer.as_mut() {
            t.unregister(p)?;
        }
        Ok(())
    }
    fn before_sleep(&mut self) -> calloop::Result<Option<(calloop::Readiness, calloop::Token)>> {
        self.log.borrow_mut().bs += 1;
        Ok(None)
    }
    fn before_handle_events(&mut self, events: calloop::EventIterator<'_>) {
        {
            let mut l = self.log.borrow_mut();
            l.bh += 1;
            l.shown.extend(events.map(|(_, t)| t.verif_key()));
        }
        if !self.hook.is_zero() {
            std::thread::sleep(self.hook);
        }
    }
}

pub fn run_lifecycle_timer(c: &LtCase) -> CaseOutcome {
    use calloop::EventLoop;
    use std::time::Duration;
    crate::driver::HEARTBEAT.fetch_add(1, std::sync::atomic::Ordering::Relaxed);
    let mut info = CaseInfo::default();
    info.fingerprint = crate::evidence::fingerprint(c);
    let mut el: EventLoop<'static, u32> = EventLoop::try_new().expect("event loop");
    let h = el.handle();
    let hook = Duration::from_micros(c.hook_us as u64);
    let log = std::rc::Rc::new(std::cell::RefCell::new(LtLog::default()));
    let (ping, psrc) = calloop::ping::make_ping().expect("make_ping");
    let (ping2, psrc2) = calloop::ping::make_ping().expect("make_ping");
    let log2 = std::rc::Rc::new(std::cell::RefCell::new(LtLog::default()));
    // the other lifecycle source goes in first: its hooks run first
    h.insert_source(LtSource { ping: psrc2, timer: None, repeats: 0, period: Duration::ZERO, hook: if c.other_is_slow { hook } else { Duration::ZERO }, log: log2.clone() }, |_, _, n: &mut u32| *n += 1)
        .expect("insert other lifecycle source");
    let period = Duration::from_micros(c.timer_us as u64);
    h.insert_source(
        LtSource { ping: psrc, timer: Some(calloop::timer::Timer::from_duration(period)), repeats: c.repeats, period, hook: if c.other_is_slow { Duration::ZERO } else { hook }, log: log.clone() },
        |_, _, n: &mut u32| *n += 1,
    )
    .expect("insert lifecycle source with a timer");
    if c.pinged {
        ping.ping();
    }
    let mut viol = None;
    let mut hit = false;
    let mut n = 0u32;
    for d in 0..c.dispatches.clamp(2, 5) {
        for l in [&log, &log2] {
            *l.borrow_mut() = LtLog::default();
        }
        let r = el.dispatch(Some(Duration::from_micros(c.timeout_100us as u64 * 100)), &mut n);
        if let Err(e) = r {
            viol = Some(Violation::new("C14.iter", format!("dispatch #{d} failed: {e}")));
            break;
        }
        for (which, l) in [("timer", &log), ("other", &log2)] {
            let l = l.borrow();
            if l.bs != 1 || l.bh != 1 {
                viol = Some(Violation::new("C14.sleep_once", format!("dispatch #{d}: the {which} lifecycle source got {} before_sleep and {} before_handle_events calls", l.bs, l.bh)).with_sig("C14.sleep_once/lifecycle-timer"));
                break;
            }
            let (mut a, mut b) = (l.shown.clone(), l.processed.clone());
            a.sort_unstable();
            b.sort_unstable();
            if a != b {
                viol = Some(
                    Violation::new(
                        "C14.iter",
                        format!("dispatch #{d}: the iterator given to before_handle_events of the {which} lifecycle source yielded the events {a:x?}, the source was then asked to process {b:x?} (hook {} us, timer {} us)", c.hook_us, c.timer_us),
                    )
                    .with_sig("C14.iter/lifecycle-timer"),
                );
                break;
            }
            if which == "timer" && b.len() > (c.pinged && d == 0) as usize {
                hit = true;
            }
        }
        if viol.is_some() {
            break;
        }
    }
    drop((ping, ping2));
    info.nontrivial = hit && c.hook_us > 0;
    info.classes.push(if hit { "lifecycle_timer_expiry_processed" } else { "lifecycle_timer_never_due" });
    if c.hook_us as u32 >= c.timer_us as u32 && c.hook_us > 0 {
        info.classes.push("lifecycle_hook_outlasts_the_timer");
    }
    (info, viol)
}

fn c14_lifecycle_timer(ctx: &CheckCtx, _hp: &'static HistProp) -> Option<Found> {
    if let Some(f) = ctx.run_replays::<LtCase, _>("lifecycle_timer", run_lifecycle_timer) {
        return Some(f);
    }
    ctx.search("lifecycle_timer", lt_strategy(), ctx.tier.pick(3_000, 80_000), 8, None, run_lifecycle_timer)
}

pub fn c14_replay(sub: &str, case: serde_json::Value) -> Result<Option<Violation>, String> {
    if sub == "lifecycle_timer" {
        let c: LtCase = serde_json::from_value(case).map_err(|e| e.to_string())?;
        return Ok(run_lifecycle_timer(&c).1);
    }
    hist_replay(&C14, case)
}

// ------------------------------------------------------------------------------------------ C01

pub static C01_META: PropMeta = PropMeta {
    id: "C01",
    level: "exploration",
    rule: "cases: generated histories (<= 40 top-level ops, scripts of <= 4 in-callback ops nested to depth 2) over ping/channel/timer/generic/probe sources on a real loop, judged entry by entry by the monitor (live registration + own unconsumed cause + own registration key for every callback). non-trivial: a source with a pending cause at dispatch start was removed/disabled/re-registered by another source's callback before its own callback ran (event already in the batch), or a slot was reused; distinct by case fingerprint",
    assumptions: ASSUME,
};

fn c01_profiles() -> Vec<(&'static str, Profile, u32, u32)> {
    let mut p = Profile::base();
    p.k_probe = 2;
    p.k_comp = 4;
    p.probe_lifecycle_pct = 0;
    p.o_token = 10;
    p.o_async = 4;
    p.max_ops = 40;
    let mut p2 = p.clone();
    // slot-reuse heavy: few kinds, many remove/insert
    p2.o_insert = 10;
    p2.o_token = 14;
    p2.k_timer = 1;
    p2.max_ops = 50;
    // adapters that are armed, made ready and released from another callback of the same batch, with immediate slot reuse
    let mut p3 = Profile::base();
    p3.k_ping = 6;
    p3.k_gen = 2;
    p3.k_chan = 1;
    p3.k_timer = 1;
    p3.k_probe = 0;
    p3.k_comp = 0;
    p3.o_async = 16;
    p3.o_insert = 8;
    p3.o_cause = 10;
    p3.o_token = 4;
    p3.o_handle = 0;
    p3.max_ops = 30;
    vec![("hist", p, 48000, 1000000), ("reuse", p2, 24000, 500000), ("adapters", p3, 24000, 500000)]
}

pub static C01: HistProp = HistProp {
    id: "C01",
    meta: &C01_META,
    profiles: c01_profiles,
    nontrivial: |f| f.in_batch_mutation > 0 || f.slot_reuse > 0 || f.comp_rereg_in_batch > 0,
    classes: |f, c| {
        if f.comp_sources > 0 {
            c.push("composite_source");
        }
        if f.comp_rereg_in_batch > 0 {
            c.push("composite_children_renumbered_mid_batch");
        }
    },
    epoll_each_step: false,
    workers: 8,
    table: None,
    extra: Some(slot_generations),
};

// ------------------------------------------------------------------------------------------ C02

pub static C02_META: PropMeta = PropMeta {
    id: "C02",
    level: "exploration",
    rule: "(hist) cases: generated histories biased to many simultaneously pending causes of mixed kinds (pings, messages, closed channels, expired timers, fds of every interest x mode pair on eventfd/socketpair/pipe, readiness predating insert/enable/update). oracle: obligation snapshot at dispatch start (poll(2) ground truth for fds) must be served by an Ok dispatch unless a callback of the same dispatch removed/disabled/re-registered the source; one-shot fds at most once per arming; edge fds at least once per harness-made transition. non-trivial: >= 3 sources of >= 2 kinds obligated in one dispatch, or an Edge/OneShot registration obligated after a transition; distinct by case fingerprint. (xthread.*) the generated thread schedules of the C03 / C04 / C10 families (ping, channel, executor causes produced by other threads while the loop dispatches; their own case descriptions and non-trivial rules apply), judged only by their lost-wake-up rules",
    assumptions: ASSUME,
};

fn c02_profiles() -> Vec<(&'static str, Profile, u32, u32)> {
    let mut p = Profile::base();
    p.k_comp = 2;
    p.k_probe = 1;
    p.probe_lifecycle_pct = 0;
    p.k_gen = 7;
    p.k_exec = 2;
    p.o_exec = 5;
    p.o_wakeup = 2;
    p.o_async = 3;
    p.o_cause = 16;
    p.o_insert = 8;
    p.o_token = 5;
    p.o_dispatch = 7;
    p.max_ops = 50;
    p.post_pct = 10;
    vec![("hist", p, 48000, 750000)]
}

pub static C02: HistProp = HistProp {
    id: "C02",
    meta: &C02_META,
    profiles: c02_profiles,
    nontrivial: |f| (f.max_owed_in_dispatch >= 3 && f.owed_kinds_max >= 2) || f.edge_or_oneshot_transitions > 0,
    classes: |f, c| {
        if f.edge_or_oneshot_transitions > 0 {
            c.push("edge_or_oneshot_obligated");
        }
        if f.max_owed_in_dispatch >= 3 {
            c.push("three_or_more_owed_in_one_dispatch");
        }
    },
    epoll_each_step: false,
    workers: 8,
    table: None,
    extra: Some(c02_xthread),
};

// ------------------------------------------------------------------------------------------ C05

pub static C05_META: PropMeta = PropMeta {
    id: "C05",
    level: "exploration",
    rule: "cases: histories over 1..12 timers (deadlines past / now / +0..20 ms / equal / far future / none) sharing batches with pings and fds; insert, remove, disable, enable, set_deadline+update, Drop/ToInstant/ToDuration returns, actions on timer A from the callback of source B in the same dispatch, errors from other sources. oracle per arming: never before the deadline, event == current deadline, non-decreasing order within a dispatch, fired in the first Ok dispatch that starts at/after the deadline, cancelled armings never fire, heap length == live unfired armings after every step. non-trivial: >= 2 timers due in one dispatch, or a timer acted upon from another callback while its expiry was owed in that dispatch, or an arming cancelled after expiry but before delivery; distinct by case fingerprint",
    assumptions: ASSUME,
};

fn c05_profiles() -> Vec<(&'static str, Profile, u32, u32)> {
    let mut p = Profile::base();
    p.k_comp = 2;
    p.k_timer = 10;
    p.k_ping = 4;
    p.k_chan = 1;
    p.k_gen = 2;
    p.o_cause = 14;
    p.o_token = 10;
    p.max_ops = 40;
    p.timer_future_pct = 20;
    p.max_timeout_ms = 3;
    p.o_wakeup = 2;
    p.err_pct = 3;
    vec![("hist", p, 40000, 600000)]
}

pub static C05: HistProp = HistProp {
    id: "C05",
    meta: &C05_META,
    profiles: c05_profiles,
    nontrivial: |f| f.timers_due_same_dispatch > 0 || f.timer_acted_in_batch > 0 || f.timer_cancel_after_expiry > 0,
    classes: |f, c| {
        if f.timers_due_same_dispatch > 0 {
            c.push("two_timers_due_in_one_dispatch");
        }
        if f.timer_acted_in_batch > 0 {
            c.push("timer_acted_upon_while_expiry_in_batch");
        }
        if f.timer_cancel_after_expiry > 0 {
            c.push("arming_cancelled_after_expiry");
        }
    },
    epoll_each_step: false,
    workers: 8,
    table: None,
    extra: None,
};

// ------------------------------------------------------------------------------------------ C06

pub static C06_META: PropMeta = PropMeta {
    id: "C06",
    level: "exploration",
    rule: "cases: histories mixing every removal path (remove from outside / own callback / another callback, PostAction::Remove, timer Drop, last ping handle dropped, channel closed) with immediate re-insertions that reuse the slot, every token ever issued exercised afterwards with enable/disable/update/remove, half the sources kept through a Dispatcher clone, loop and handles dropped in both orders. oracle: no callback after removal, dead tokens return InvalidToken and touch no source (register/unregister call counts of all instrumented sources), occupied slots == live sources, into_source_inner succeeds once the dispatch ended, every source/callback/idle dropped exactly once. non-trivial: >= 2 different removal paths and >= 1 slot reuse with a stale token used afterwards; distinct by case fingerprint",
    assumptions: ASSUME,
};

fn c06_profiles() -> Vec<(&'static str, Profile, u32, u32)> {
    let mut p = Profile::base();
    p.k_comp = 2;
    p.o_insert = 10;
    p.o_token = 14;
    p.o_handle = 5;
    p.o_idle = 2;
    p.k_exec = 2;
    p.o_exec = 5;
    p.post_pct = 35;
    p.max_ops = 50;
    p.k_probe = 3;
    p.probe_lifecycle_pct = 50;
    // adapters take slots of the source list as well (slot reuse by an adapter, adapters owned by callback closures)
    p.o_async = 4;
    vec![("hist", p, 48000, 1000000)]
}

pub static C06: HistProp = HistProp {
    id: "C06",
    meta: &C06_META,
    profiles: c06_profiles,
    nontrivial: |f| f.removal_paths.len() >= 2 && f.slot_reuse > 0 && f.stale_token_ops > 0,
    classes: |f, c| {
        for p in &f.removal_paths {
            c.push(p);
        }
    },
    epoll_each_step: false,
    workers: 8,
    table: None,
    extra: Some(slot_generations),
};

// ------------------------------------------------------------------------------------------ C07

pub static C07_META: PropMeta = PropMeta {
    id: "C07",
    level: "exploration",
    rule: "cases: histories of disable/enable/update from outside, from the own callback and from another source's callback while the target's event is already in the batch, with causes produced before, during and after the disabled interval (pings, messages, bytes, passed deadlines). oracle: zero callbacks between disable and the next successful enable (self-requested disable: from the end of the running event processing), token stays valid, slot stays occupied, causes pending at enable are obligated in the next Ok dispatch, no register/unregister call on any other source. non-trivial: a disable issued while the target's event was owed in the current dispatch, or a cause that was pending at enable() and was delivered afterwards; distinct by case fingerprint",
    assumptions: ASSUME,
};

fn c07_profiles() -> Vec<(&'static str, Profile, u32, u32)> {
    let mut p = Profile::base();
    p.o_async = 2;
    p.k_comp = 2;
    p.o_token = 16;
    p.o_cause = 12;
    p.k_exec = 2;
    p.o_exec = 5;
    p.o_insert = 5;
    p.k_probe = 1;
    p.probe_lifecycle_pct = 30;
    p.post_pct = 25;
    p.max_ops = 45;
    vec![("hist", p, 48000, 750000)]
}

pub static C07: HistProp = HistProp {
    id: "C07",
    meta: &C07_META,
    profiles: c07_profiles,
    nontrivial: |f| f.in_batch_mutation > 0 || f.disabled_cause_delivered > 0,
    classes: |f, c| {
        if f.disabled_cause_delivered > 0 {
            c.push("cause_survived_disabled_interval");
        }
    },
    epoll_each_step: false,
    workers: 8,
    table: None,
    extra: None,
};

// ------------------------------------------------------------------------------------------ C08

pub static C08_META: PropMeta = PropMeta {
    id: "C08",
    level: "exploration",
    rule: "cases: callback/idle programs of 1..5 handle operations (insert_source, register_dispatcher, insert_idle, remove, disable, update, enable of another source, ping/send on calloop handles, timer re-arm) aimed at the running source, another idle source, a source with an event in the same batch, a stale token or a fresh insert, nested to depth 3, for every source kind as runner and target (second profile hist_timers: up to 10 timers, several due in one batch or waiting in the wheel, re-armed from callbacks of the same dispatch); plus, in both tiers, the complete constructed table of single-operation programs: 7 runners (ping, channel, timer, generic, lifecycle probe, composite, idle callback) x {remove, disable, enable, update} x {self, idle source, source with an event in the same batch, stale token, source inserted one step earlier in the same program} (enable of the running source excluded as documented misuse), insertion of each of 6 source kinds, insert/cancel idle, ping/clone/drop handle, adapt_io, kind-specific re-arming, each x the runner's 4 post-actions. oracle: no panic anywhere (caught at the dispatch boundary, attributed by location), every in-callback operation has the model effect it has outside a dispatch (result class, register/unregister calls, later deliveries), self-directed disable/update deferred to the end of the running event processing. non-trivial: a program touching the running source itself or a source whose event is owed in the same dispatch, or nesting depth >= 2; distinct by case fingerprint",
    assumptions: ASSUME,
};

fn c08_profiles() -> Vec<(&'static str, Profile, u32, u32)> {
    let mut p = Profile::base();
    p.k_comp = 2;
    p.max_cb_ops = 5;
    p.max_depth = 3;
    p.o_insert = 8;
    p.o_token = 12;
    p.o_idle = 4;
    p.o_async = 3;
    p.k_exec = 2;
    p.o_exec = 4;
    p.k_probe = 2;
    p.probe_lifecycle_pct = 50;
    p.post_pct = 20;
    p.max_ops = 35;
    // second profile: timer-heavy histories - several timers due in one batch (or an earlier one waiting in the
    // wheel) while a callback of the same dispatch re-arms them through update() / disable()+enable() /
    // set_deadline()+update(): the in-callback operation must have the effect it has outside a dispatch
    let mut t = p.clone();
    t.k_timer = 10;
    t.k_ping = 4;
    t.k_chan = 1;
    t.k_gen = 1;
    t.k_exec = 0;
    t.o_exec = 0;
    t.k_probe = 0;
    t.k_comp = 1;
    t.o_async = 0;
    t.o_cause = 12;
    t.o_token = 14;
    t.o_insert = 5;
    t.timer_future_pct = 20;
    t.max_ops = 40;
    vec![("hist", p, 40000, 750000), ("hist_timers", t, 15000, 250000)]
}

/// Index value that `ops::pick` maps onto entry `k` of a table of `len` entries.
fn enc(k: usize, len: usize) -> u16 {
    ((((k as u32) << 16) + len as u32 - 1) / len as u32) as u16
}

/// The full table of length-1 callback programs: runner kind x operation x target relation x post-action.
/// Layout of every case: [runner (token 0; absent for the idle runner), idle ping, in-batch ping, ping that is
/// removed again (stale token)], a cause for the runner and for the in-batch ping, three dispatches.
fn c08_table() -> Vec<HistCase> {
    use crate::hist::ops::{CKind, FdKind, Kind, Op, PostRet, Prog, TRet};
    let runners: Vec<Option<Kind>> = vec![
        Some(Kind::Ping),
        Some(Kind::Chan { bound: None }),
        Some(Kind::Timer { delta_us: Some(-1000) }),
        Some(Kind::Gen { fd: FdKind::EventFd, interest: 1, mode: 0 }),
        Some(Kind::Probe { subs: 2, lifecycle: true, synthetic: None, fail_reg: None }),
        Some(Kind::Comp { children: vec![(CKind::Ping, false), (CKind::Gen, false)] }),
        None, // an idle callback runs the program
    ];
    let insertable = [
        Kind::Ping,
        Kind::Chan { bound: Some(1) },
        Kind::Timer { delta_us: Some(-500) },
        Kind::Gen { fd: FdKind::Sock, interest: 3, mode: 1 },
        Kind::Probe { subs: 1, lifecycle: true, synthetic: Some(0), fail_reg: None },
        Kind::Comp { children: vec![(CKind::Timer { delta_us: -100 }, true), (CKind::Ping, false)] },
    ];
    let plain = |kind: Kind| Op::Insert { kind, script: vec![], via_disp: false };
    let mut out = Vec::new();
    let mut flip = false;
    for runner in &runners {
        let has_runner = runner.is_some();
        let ntok = if has_runner { 4 } else { 3 };
        let base = if has_runner { 1 } else { 0 };
        let runner_is_ping = matches!(runner, Some(Kind::Ping));
        let ping_off = if runner_is_ping { 1 } else { 0 };
        // programs: (ops, touches which relation)
        let mut programs: Vec<Vec<Op>> = Vec::new();
        for which in 0..4u8 {
            let mk = |tok: u16| match which {
                0 => Op::Remove { tok },
                1 => Op::Disable { tok },
                2 => Op::Enable { tok },
                _ => Op::Update { tok },
            };
            if has_runner && which != 2 {
                programs.push(vec![mk(enc(0, ntok))]); // self (enable of the running source is documented misuse)
            }
            programs.push(vec![mk(enc(base, ntok))]); // other, idle
            programs.push(vec![mk(enc(base + 1, ntok))]); // other, event in the same batch
            programs.push(vec![mk(enc(base + 2, ntok))]); // stale token
            programs.push(vec![plain(Kind::Ping), mk(enc(ntok, ntok + 1))]); // fresh insert, then the op on it
        }
        for k in &insertable {
            programs.push(vec![plain(k.clone())]);
        }
        programs.push(vec![Op::InsertIdle { prog: Box::new(Prog::plain()) }]);
        programs.push(vec![Op::CancelIdle { idle: 0 }]);
        programs.push(vec![Op::Ping { src: enc(ping_off, 3 + ping_off) }]); // ping the idle source
        programs.push(vec![Op::Ping { src: enc(ping_off + 1, 3 + ping_off) }]); // ping the in-batch source again
        programs.push(vec![Op::CloneHandle { src: 0 }]);
        programs.push(vec![Op::DropHandle { src: 0 }]); // for a ping runner: the last handle of the running source
        programs.push(vec![Op::Adapt { fd: 0, blocking: false }]);
        match runner {
            Some(Kind::Timer { .. }) => {
                programs.push(vec![Op::SetDeadline { src: 0, delta_us: 500 }]);
                programs.push(vec![Op::SetDeadline { src: 0, delta_us: -500 }]);
            }
            Some(Kind::Gen { .. }) => {
                programs.push(vec![Op::SetInterest { src: 0, interest: 3, mode: 2 }]);
                programs.push(vec![Op::PeerWrite { src: 0, n: 0 }]);
                programs.push(vec![Op::OwnRead { src: 0, n: 0 }]);
            }
            Some(Kind::Chan { .. }) => {
                programs.push(vec![Op::Send { src: 0, val: 9 }]);
                programs.push(vec![Op::DropSender { src: 0 }]);
            }
            Some(Kind::Probe { .. }) => programs.push(vec![Op::ProbePing { src: 0, sub: 1 }]),
            Some(Kind::Comp { .. }) => programs.push(vec![Op::CompPoke { src: 0, child: 1 }]),
            _ => {}
        }
        for prog_ops in programs {
            let posts: &[PostRet] = if has_runner { &[PostRet::Continue, PostRet::Reregister, PostRet::Disable, PostRet::Remove] } else { &[PostRet::Continue] };
            for post in posts {
                let prog = Prog { ops: prog_ops.clone(), post: *post, timer: TRet::Drop };
                let mut ops: Vec<Op> = Vec::new();
                if let Some(k) = runner {
                    ops.push(Op::Insert { kind: k.clone(), script: vec![prog.clone(), Prog::plain()], via_disp: flip });
                }
                ops.push(plain(Kind::Ping));
                ops.push(plain(Kind::Ping));
                ops.push(plain(Kind::Ping));
                ops.push(Op::Remove { tok: enc(base + 2, ntok) });
                match runner {
                    Some(Kind::Ping) => ops.push(Op::Ping { src: 0 }),
                    Some(Kind::Chan { .. }) => ops.push(Op::Send { src: 0, val: 1 }),
                    Some(Kind::Timer { .. }) => {}
                    Some(Kind::Gen { .. }) => ops.push(Op::PeerWrite { src: 0, n: 0 }),
                    Some(Kind::Probe { .. }) => ops.push(Op::ProbePing { src: 0, sub: 0 }),
                    Some(Kind::Comp { .. }) => ops.push(Op::CompPoke { src: 0, child: 0 }),
                    _ => ops.push(Op::InsertIdle { prog: Box::new(prog.clone()) }),
                }
                ops.push(Op::Ping { src: enc(ping_off + 1, 3 + ping_off) });
                ops.push(Op::Dispatch { timeout_ms: 0 });
                ops.push(Op::Ping { src: enc(ping_off, 3 + ping_off) });
                ops.push(Op::Dispatch { timeout_ms: 0 });
                ops.push(Op::Dispatch { timeout_ms: 0 });
                out.push(HistCase { ops, loop_first: flip });
                flip = !flip;
            }
        }
    }
    out
}

pub static C08: HistProp = HistProp {
    id: "C08",
    meta: &C08_META,
    profiles: c08_profiles,
    nontrivial: |f| f.self_ops > 0 || f.in_batch_mutation > 0 || f.nesting_depth2 > 0,
    classes: |f, c| {
        if f.self_ops > 0 {
            c.push("op_on_running_source");
        }
        if f.nesting_depth2 > 0 {
            c.push("nesting_depth_2_or_more");
        }
    },
    epoll_each_step: false,
    workers: 8,
    table: Some(c08_table),
    extra: None,
};

// ------------------------------------------------------------------------------------------ C09

pub static C09_META: PropMeta = PropMeta {
    id: "C09",
    level: "exploration",
    rule: "cases: histories where callbacks return every PostAction, request deferred disable/update on themselves, remove + re-insert in the same callback (slot reuse under the action) or fail with an error, with other sources ready in the same and the following dispatch; plus all 16 PostAction pairs for | and |= (exhaustive). oracle: instrumented sources count register/reregister/unregister calls; after each process_events return the effective action (explicit non-Continue wins over a deferred request) must show exactly its calls on exactly that source, nothing on any other; the deferred cell must be empty whenever no event processing is on the stack. non-trivial: a deferred self-request combined with an Err return, a slot reuse inside a callback, or >= 2 sources acting in one dispatch; distinct by case fingerprint",
    assumptions: ASSUME,
};

fn c09_profiles() -> Vec<(&'static str, Profile, u32, u32)> {
    let mut p = Profile::base();
    p.o_async = 2;
    p.k_comp = 2;
    p.post_pct = 45;
    p.err_pct = 8;
    p.o_token = 12;
    p.o_cause = 14;
    p.k_probe = 3;
    p.probe_lifecycle_pct = 50;
    p.max_ops = 40;
    // second profile: mostly lifecycle probes that remove / replace themselves from their own callbacks (the lifecycle
    // list is one of the things a post-action has to keep exact for the requester and for whoever reuses its slot)
    let mut q = Profile::base();
    q.k_probe = 12;
    q.probe_lifecycle_pct = 85;
    q.k_ping = 2;
    q.k_timer = 1;
    q.post_pct = 55;
    q.err_pct = 5;
    q.o_insert = 12;
    q.o_token = 14;
    q.o_cause = 12;
    q.max_ops = 30;
    vec![("hist", p, 36000, 600000), ("lifecycle", q, 16000, 250000)]
}

pub static C09: HistProp = HistProp {
    id: "C09",
    meta: &C09_META,
    profiles: c09_profiles,
    nontrivial: |f| f.deferred_with_err > 0 || f.slot_reuse_in_cb > 0 || f.multi_act_batch > 0,
    classes: |f, c| {
        if f.deferred_with_err > 0 {
            c.push("deferred_request_plus_err");
        }
        if f.slot_reuse_in_cb > 0 {
            c.push("slot_reuse_inside_callback");
        }
        if f.multi_act_batch > 0 {
            c.push("two_or_more_acting_in_one_dispatch");
        }
    },
    epoll_each_step: false,
    workers: 8,
    table: None,
    extra: None,
};

// ------------------------------------------------------------------------------------------ C13

pub static C13_META: PropMeta = PropMeta {
    id: "C13",
    level: "exploration",
    rule: "cases: histories of insert_idle / cancel / drop-handle issued between dispatches, from source callbacks and from idle callbacks (idles inserting idles, idles cancelling other idles), interleaved with dispatches that process 0..n events or fail with an error from a source. oracle: model queue in insertion order; in an Ok dispatch every idle inserted before its idle phase runs exactly once in insertion order after every source callback; idles inserted during the idle phase run first in the next Ok dispatch; a failed dispatch runs none; cancelled idles never run; every idle closure dropped exactly once. non-trivial: >= 3 idles run with at least one inserted from a callback or an idle, or a cancel issued inside a dispatch, or a failed dispatch in between; distinct by case fingerprint. sub-check inloop: C11's deterministic run()/block_on() family, its idle rule. sub-check full_batch: n ping sources (n around and above the poller's event buffer of 1024) all ready at once plus 1..3 queued idle callbacks (optionally each queueing a follow-up): per dispatch call no source callback after an idle callback, queued idles run once in dispatch #0, follow-ups once in dispatch #1, every ping delivered once over the following dispatches",
    assumptions: ASSUME,
};

fn c13_profiles() -> Vec<(&'static str, Profile, u32, u32)> {
    let mut p = Profile::base();
    p.o_idle = 14;
    p.o_insert = 4;
    p.o_token = 3;
    p.o_cause = 8;
    p.err_pct = 6;
    p.k_timer = 1;
    p.k_gen = 1;
    p.max_ops = 40;
    vec![("hist", p, 64000, 1000000)]
}

pub static C13: HistProp = HistProp {
    id: "C13",
    meta: &C13_META,
    profiles: c13_profiles,
    nontrivial: |f| (f.idles_run >= 3 && f.idle_from_cb > 0) || f.idle_cancel_in_dispatch > 0 || (f.failed_dispatches > 0 && f.idles_run > 0),
    classes: |f, c| {
        if f.idle_from_cb > 0 {
            c.push("idle_inserted_from_callback_or_idle");
        }
        if f.idle_cancel_in_dispatch > 0 {
            c.push("idle_cancelled_inside_dispatch");
        }
    },
    epoll_each_step: false,
    workers: 8,
    table: None,
    extra: Some(c13_extra),
};

// ------------------------------------------------------------------------------------------ C14

pub static C14_META: PropMeta = PropMeta {
    id: "C14",
    level: "exploration",
    rule: "cases: histories over 1..5 lifecycle probes (1..4 ping sub-sources each, optional synthetic event) mixed with non-lifecycle sources: insert / update / disable / enable / remove / post-actions and registrations that fail at a generated step, interleaved with dispatches. oracle per dispatch whose hooks succeed: each inserted+enabled lifecycle source gets exactly one before_sleep then exactly one before_handle_events before any process_events; disabled/removed ones neither; a synthetic event is delivered to its source in the same dispatch; the iterator shows only own real sub-tokens, every pinged sub-source, and covers the real events processed afterwards; lifecycle set size == distinct == enabled lifecycle sources after every step. non-trivial: >= 2 lifecycle sources and at least one update, or a failed registration, before a judged dispatch; distinct by case fingerprint",
    assumptions: ASSUME,
};

fn c14_profiles() -> Vec<(&'static str, Profile, u32, u32)> {
    let mut p = Profile::base();
    p.k_probe = 12;
    p.probe_lifecycle_pct = 80;
    p.k_gen = 1;
    p.k_chan = 1;
    p.k_timer = 1;
    p.o_token = 12;
    p.o_fail = 4;
    p.o_cause = 10;
    p.post_pct = 30;
    p.max_ops = 35;
    p.long_dispatch_pct = 6;
    // the same zoo with failing callbacks (process_events returns Err): a source that leaves in the callback that
    // then fails must still leave the hook set (seed c14i)
    let mut q = p.clone();
    q.err_pct = 12;
    q.post_pct = 40;
    vec![("hist", p, 40000, 750000), ("faults", q, 20000, 300000)]
}

pub static C14: HistProp = HistProp {
    id: "C14",
    meta: &C14_META,
    profiles: c14_profiles,
    nontrivial: |f| f.dispatches > 0 && ((f.lifecycle_sources >= 2 && f.lifecycle_updates > 0) || f.failed_registrations > 0) && f.lifecycle_sources > 0,
    classes: |f, c| {
        if f.lifecycle_updates > 0 {
            c.push("lifecycle_source_updated");
        }
        if f.long_dispatch_with_synthetic > 0 {
            c.push("long_timeout_dispatch_with_synthetic_event_pending");
        }
        if f.failed_registrations > 0 {
            c.push("failed_registration");
        }
        if f.synthetic_events > 0 {
            c.push("synthetic_event_delivered");
        }
    },
    epoll_each_step: false,
    workers: 8,
    table: None,
    extra: Some(c14_lifecycle_timer),
};

// ------------------------------------------------------------------------------------------ C15

pub static C15_META: PropMeta = PropMeta {
    id: "C15",
    level: "fault_enumeration",
    rule: "cases: (a) positions: fault-free base histories (probe-heavy, <= 30 ops) run once to count their fault sites (every register sub-step, reregister, unregister, process_events and before_sleep call of every probe source, in execution order) and then once per site with exactly that call failing, each run continuing to the end of the history: all positions of every base history. (b) histories with injected faults: a probe registration that fails at sub-source step k (rolled back by the source), a book-style composite with a child the poller rejects (regular file: siblings' registrations, incl. armed timer children, are performed and not rolled back), Generic/adapt_io over closed / duplicate / regular-file fds, failing reregister/unregister/process_events/before_sleep, scripted Err returns from any source kind, while other sources have events in the same batch; the history continues afterwards (retries, dispatches). oracle: failing insert returns Err and hands the source back, occupied slots / lifecycle set / kernel table unchanged, no callback for the rejected source, no panic in any later dispatch; failing enable/update/disable returns its error and calls nothing on other sources; an Err from event processing is returned by that dispatch, and every cause that was pending before it (incl. timers already expired into that batch) is served by the following Ok dispatches; behind any such fault every callback-legality, obligation, timer and removal rule of the monitor (C01/C02/C05/C06 rule sets) keeps being enforced for all sources (rule C15.intact: e.g. a stale sub-registration left by the rejected source must never reach the source that takes over its slot). non-trivial: a fault at step > 0 of a multi-sub-source registration, or an Err from process_events while another event was still owed in that dispatch; distinct by case fingerprint",
    assumptions: ASSUME,
};

fn c15_profiles() -> Vec<(&'static str, Profile, u32, u32)> {
    let mut p = Profile::base();
    p.k_comp = 3;
    p.k_probe = 8;
    p.probe_lifecycle_pct = 60;
    p.o_fail = 10;
    p.o_async = 4;
    p.o_badfd = 3;
    p.err_pct = 12;
    p.o_token = 8;
    p.o_cause = 14;
    p.max_ops = 35;
    vec![("hist", p, 40000, 600000)]
}

/// Fault enumeration proper: a fault-free base history is run once to count its fault sites (every register
/// sub-step, reregister, unregister, process_events and before_sleep call of every probe source, in execution
/// order), then once per site with exactly that call failing; each run continues to the end of the history and is
/// judged by the same monitor.
#[derive(serde::Serialize, serde::Deserialize, Debug, Clone, Hash)]
pub struct PosCase {
    pub base: HistCase,
}

fn run_positions(c: &PosCase) -> CaseOutcome {
    let ((facts, viol, foreign), sites) = crate::hist::run_for_fault("C15", &c.base, true, None);
    let mut info = base_info(&c.base, &facts, &foreign);
    info.classes.push("fault_positions_base_history");
    if let Some(v) = viol {
        return (info, Some(v));
    }
    let sites = sites.min(160);
    let mut ran = 0u64;
    let mut failed_something = 0u64;
    for k in 0..sites {
        let ((f2, v2, _), _) = crate::hist::run_for_fault("C15", &c.base, true, Some(k));
        ran += 1;
        if f2.failed_registrations > 0 || f2.failed_dispatches > 0 || f2.sources_returned_err > 0 {
            failed_something += 1;
        }
        if let Some(mut v) = v2 {
            v.detail = format!("with fault site #{k} of {sites} failing: {}", v.detail);
            info.counters.push(("fault_positions_run", ran));
            return (info, Some(v));
        }
    }
    info.counters.push(("fault_positions_run", ran));
    info.counters.push(("fault_positions_that_failed_a_call", failed_something));
    info.nontrivial = sites >= 3 && failed_something >= 1;
    if sites >= 10 {
        info.classes.push("fault_positions_10_or_more");
    }
    (info, None)
}

fn c15_positions(ctx: &CheckCtx, _hp: &'static HistProp) -> Option<Found> {
    if let Some(f) = ctx.run_replays::<PosCase, _>("positions", run_positions) {
        return Some(f);
    }
    let mut p = c15_profiles().remove(0).1;
    p.o_fail = 0; // base histories are fault-free: the faults come from the enumeration
    p.err_pct = 0;
    p.k_probe = 14;
    p.k_gen = 1;
    p.k_chan = 1;
    p.o_insert = 10;
    p.o_token = 14;
    p.o_cause = 12;
    p.o_dispatch = 8;
    p.o_async = 1;
    p.o_badfd = 1;
    p.post_pct = 25;
    p.max_ops = 30;
    let cases = ctx.tier.pick(6_000, 120_000);
    let found = ctx.search_with("positions", || case_strategy(&p).prop_map(|base| PosCase { base }), cases, 8, None, run_positions);
    ctx.col.exhaustive("sub-check positions: for every generated fault-free base history, every fault site it passes (probe register sub-steps, reregister, unregister, process_events, before_sleep; at most 160 per history) was failed in a run of its own");
    found
}

pub static C15: HistProp = HistProp {
    id: "C15",
    meta: &C15_META,
    profiles: c15_profiles,
    nontrivial: |f| f.failed_registrations > 0 || f.err_with_pending_batch > 0,
    classes: |f, c| {
        if f.failed_registrations > 0 {
            c.push("failed_registration");
        }
        if f.err_with_pending_batch > 0 {
            c.push("err_with_other_events_owed");
        }
        if f.failed_adapts > 0 {
            c.push("failed_adapt_io");
        }
        if f.failed_comp_left_timer > 0 {
            c.push("composite_insert_failed_halfway_timer_child_left_registered");
        }
    },
    epoll_each_step: true,
    workers: 8,
    table: None,
    extra: Some(c15_positions),
};

// ------------------------------------------------------------------------------------------ C16

pub static C16_META: PropMeta = PropMeta {
    id: "C16",
    level: "exploration",
    rule: "cases: histories over fd-backed sources (Generic on eventfd/socketpair/pipe with all interest x mode pairs, ping, channel, probe sub-pings): insert, remove, disable, enable, update with changed interest/mode, into_source_inner + Generic::unwrap followed by re-insertion of the same fd, loop dropped before or after the sources. oracle after every step: /proc/self/fdinfo/<epoll fd> minus polling's own entries must hold exactly the keys of enabled sources; for Generic fds exact interest bits, mode bits and key. non-trivial: a released fd re-inserted, or interest/mode changed by update; distinct by case fingerprint; Generic sources may also be created over one of two shared eventfds (borrowed fd: at most one of the sources over it is registered at a time). sub-check transient_same_fd: C18's family of TransientSource children over one shared eventfd (alternately level/edge triggered; replace/remove/refill + update or Reregister), judged by the kernel-table rules (fd present iff a current kept child of a registered parent, entry mode = the current child's) and by 'no registration call fails'",
    assumptions: ASSUME,
};

fn c16_profiles() -> Vec<(&'static str, Profile, u32, u32)> {
    let mut p = Profile::base();
    p.k_comp = 3;
    p.k_gen = 10;
    p.k_timer = 0;
    p.k_probe = 1;
    p.probe_lifecycle_pct = 0;
    p.o_recycle = 5;
    p.k_exec = 2;
    p.o_exec = 3;
    p.o_async = 7;
    p.o_token = 12;
    p.o_insert = 8;
    p.post_pct = 25;
    // a callback that fails is not a registration failure: the table must be right afterwards as well
    p.err_pct = 4;
    p.max_ops = 40;
    vec![("hist", p, 40000, 750000)]
}

// C16 also holds for an fd that changes hands INSIDE a wrapper: TransientSource children over one shared descriptor
// (replace / remove / refill followed by update or Reregister). C16 re-runs C18's shared-fd family and keeps the rules
// about the kernel table and about registration calls that fail although nothing is wrong with the fd.
fn c16_keep((info, v): CaseOutcome) -> CaseOutcome {
    let v = v.filter(|v| v.rule == "C18.reg").map(|mut v| {
        v.sig = v.sig.replace("C18.reg", "C16.transient");
        v.rule = "C16.transient".to_string();
        v
    });
    (info, v)
}

fn c16_transient(ctx: &CheckCtx, _hp: &'static HistProp) -> Option<Found> {
    use crate::props::c18;
    let avoid = ctx.known_open(c18::SIG_F11);
    if let Some(f) = ctx.run_replays::<c18::Case, _>("transient_same_fd", |c| c16_keep(c18::run_case(c))) {
        return Some(f);
    }
    ctx.search("transient_same_fd", c18::same_fd_strategy(14, avoid), ctx.tier.pick(60_000, 600_000), 16, Some(std::time::Duration::from_secs(ctx.tier.pick(30, 180))), move |c| c16_keep(c18::run_case_with(c, avoid)))
}

pub fn c16_replay(sub: &str, case: serde_json::Value) -> Result<Option<Violation>, String> {
    if sub == "transient_same_fd" {
        let c: crate::props::c18::Case = serde_json::from_value(case).map_err(|e| e.to_string())?;
        return Ok(c16_keep(crate::props::c18::run_case(&c)).1);
    }
    hist_replay(&C16, case)
}

pub static C16: HistProp = HistProp {
    id: "C16",
    meta: &C16_META,
    profiles: c16_profiles,
    nontrivial: |f| f.recycles > 0 || f.interest_changes > 0 || f.readapts > 0,
    classes: |f, c| {
        if f.recycles > 0 {
            c.push("fd_released_and_reinserted");
        }
        if f.interest_changes > 0 {
            c.push("interest_or_mode_changed");
        }
        if f.adapts > 0 {
            c.push("async_adapter");
        }
        if f.readapts > 0 {
            c.push("fd_re_adapted_after_release");
        }
    },
    epoll_each_step: true,
    workers: 8,
    table: None,
    extra: Some(c16_transient),
};

pub fn all() -> Vec<&'static HistProp> {
    vec![&C01, &C02, &C05, &C06, &C07, &C08, &C09, &C13, &C14, &C15, &C16]
}
