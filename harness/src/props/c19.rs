//! C19 — Signals: signal-mask bookkeeping is exact; each pending signal is reported once.
//!
//! History PBT against a reference model, in a SINGLE-THREADED process: signal masks are per
//! thread and a process-directed signal may be taken by any thread that does not block it, so this
//! module never spawns a thread (`ctx.search(.., workers = 1, ..)` runs inline on the caller).
//!
//! Kernel facts the model encodes (Linux, standard signals 1..31):
//!  * A signal generated for a thread that blocks it stays pending; it does not queue: a second
//!    instance of the same signal in the same queue is dropped. There are TWO queues though: the
//!    thread-private one (`raise`/`tgkill`, si_code SI_TKILL) and the process-wide shared one
//!    (`kill(getpid())`, si_code SI_USER). One signal can be pending once in each, which makes two
//!    instances. `sigpending()` reports the union.
//!  * Reading the signalfd dequeues the instance (it leaves the pending set).
//!  * Unblocking a pending signal delivers every pending instance to its handler before the
//!    unblocking call returns; `raise`/`kill` to oneself with the signal unblocked runs the handler
//!    before the call returns (single-threaded process).

use crate::driver::{CaseOutcome, CheckCtx, Found, PropMeta, Violation};
use crate::evidence::{fingerprint, CaseInfo};
use calloop::signals::{Event, Signal, Signals};
use calloop::{Dispatcher, EventLoop, RegistrationToken};
use proptest::prelude::*;
use serde::{Deserialize, Serialize};
use std::panic::{catch_unwind, AssertUnwindSafe};
use std::sync::atomic::{AtomicBool, AtomicI32, AtomicU32, Ordering};
use std::time::Duration;

pub const META: PropMeta = PropMeta {
    id: "C19",
    level: "exploration",
    rule: "cases: histories of <= 14 ops over one or two Signals sources (two side by side only over disjoint sets): new/add_signals/remove_signals/set_signals with lists over D = {HUP,USR1,USR2,WINCH,URG,CHLD,CONT,IO} (empty lists, duplicates, overlap with the current set), raise(s) thread-directed (libc::raise) or process-directed (kill(getpid())), the application blocking/unblocking a signal outside D for itself (the source must leave it alone), the application blocking/unblocking a signal of D for itself while the source does not have it configured (raised meanwhile it stays pending; once the source configures it, remove/set/drop unblock it like any configured signal), insert into / remove from an EventLoop (Dispatcher), dispatch(0), drop. After EVERY op the thread mask, sigpending() and per-signal handler counters are compared with a model (configured set, thread-private and shared pending sets, handler counts); on dispatch the callback events are compared with the pending configured instances (signal, pid, uid, si_code). non-trivial: >= 1 add/remove/set call that changed the configured set after creation AND >= 1 signal raised while configured (so it went pending) that saw a later add/remove/set call while still pending and whose delivery (callback or handler) was then checked. distinct: fingerprint of the effective op list (no-op ops removed)",
    assumptions: &[
        "the check process has exactly one thread (verified via /proc/self/task before and after)",
        "no foreign process sends signals of D to the check process (handler-side sender check turns that into an infrastructure error)",
        "Linux standard-signal semantics: one pending instance per signal per queue (thread-private, shared); dequeue by signalfd read removes it from the pending set; unblocking delivers before the call returns",
        "reading of the statement: one dispatch(0) with the source inserted reports every pending instance of every configured signal (the source drains the signalfd until empty, anchor signals.rs:292-316)",
        "glibc raise() is tgkill(getpid(), gettid(), s) (si_code SI_TKILL); kill(getpid(), s) gives SI_USER",
    ],
};

/// Narrow signature of candidate finding F8.
pub const SIG_SET_KEEPS_PENDING: &str = "C19.handler/set_signals-keeps-pending";

const SUB: &str = "hist";
/// Histories per tier. One history costs about 30 µs (the design estimated 40 µs per *op*), so the
/// counts are well above the design's 6 000 / 300 000 at a wall time of about 5 s / 1 min.
const QUICK_CASES: u32 = 150_000;
const THOROUGH_CASES: u32 = 2_000_000;
const N: usize = 8;
const SI_USER: i32 = 0;
const SI_TKILL: i32 = -6;

/// Signal domain D (index -> calloop signal, number, name).
const D: [(Signal, i32, &str); N] = [
    (Signal::SIGHUP, libc::SIGHUP, "HUP"),
    (Signal::SIGUSR1, libc::SIGUSR1, "USR1"),
    (Signal::SIGUSR2, libc::SIGUSR2, "USR2"),
    (Signal::SIGWINCH, libc::SIGWINCH, "WINCH"),
    (Signal::SIGURG, libc::SIGURG, "URG"),
    (Signal::SIGCHLD, libc::SIGCHLD, "CHLD"),
    (Signal::SIGCONT, libc::SIGCONT, "CONT"),
    (Signal::SIGIO, libc::SIGIO, "IO"),
];

// ---------------------------------------------------------------------------------------------
// counting handlers (async-signal-safe: atomics only)

#[allow(clippy::declare_interior_mutable_const)]
const ZERO: AtomicU32 = AtomicU32::new(0);
static COUNTS: [AtomicU32; N] = [ZERO; N];
/// handler invocations whose sender is not this process / not raise|kill (foreign interference)
static FOREIGN: AtomicU32 = AtomicU32::new(0);
/// calloop calls that returned Err (cannot be judged by the property; reported as infrastructure)
static OP_ERRORS: AtomicU32 = AtomicU32::new(0);
static SELF_PID: AtomicI32 = AtomicI32::new(0);
static HANDLERS_ACTIVE: AtomicBool = AtomicBool::new(false);

extern "C" fn on_signal(signo: libc::c_int, info: *mut libc::siginfo_t, _uctx: *mut libc::c_void) {
    let mut i = 0;
    while i < N {
        if D[i].1 == signo {
            COUNTS[i].fetch_add(1, Ordering::Relaxed);
        }
        i += 1;
    }
    if !info.is_null() {
        // SAFETY: the kernel passes a valid siginfo for SA_SIGINFO handlers; si_pid is valid for SI_USER/SI_TKILL
        let (code, pid) = unsafe { ((*info).si_code, (*info).si_pid()) };
        if !(code == SI_USER || code == SI_TKILL) || pid != SELF_PID.load(Ordering::Relaxed) {
            FOREIGN.fetch_add(1, Ordering::Relaxed);
        }
    }
}

fn sigset_of(bits: u8) -> libc::sigset_t {
    unsafe {
        let mut set: libc::sigset_t = std::mem::zeroed();
        libc::sigemptyset(&mut set);
        for (i, d) in D.iter().enumerate() {
            if bits & (1 << i) != 0 {
                libc::sigaddset(&mut set, d.1);
            }
        }
        set
    }
}

/// A signal outside D that the "application" (the harness) blocks for itself; it is never raised.
const FOREIGN_SIG: i32 = libc::SIGVTALRM;

fn foreign_block(on: bool) {
    unsafe {
        let mut set: libc::sigset_t = std::mem::zeroed();
        libc::sigemptyset(&mut set);
        libc::sigaddset(&mut set, FOREIGN_SIG);
        libc::pthread_sigmask(if on { libc::SIG_BLOCK } else { libc::SIG_UNBLOCK }, &set, std::ptr::null_mut());
    }
}

/// Unblock all of D; with the counting handlers installed this drains every pending instance.
fn unblock_domain() {
    foreign_block(false);
    let set = sigset_of(0xFF);
    unsafe {
        libc::pthread_sigmask(libc::SIG_UNBLOCK, &set, std::ptr::null_mut());
    }
}

fn zero_counts() {
    for c in &COUNTS {
        c.store(0, Ordering::Relaxed);
    }
}

/// Installs the counting handlers for D; restores the previous dispositions and the previous thread
/// mask on drop (after unblocking D and draining, so that no pending signal meets a default disposition).
struct Handlers {
    old: Vec<libc::sigaction>,
    /// the thread's signal mask at installation time (restored on drop)
    old_mask: libc::sigset_t,
}

impl Handlers {
    /// Install unless already active. `None` = somebody up the stack owns the installation.
    fn ensure() -> Option<Handlers> {
        if HANDLERS_ACTIVE.swap(true, Ordering::SeqCst) {
            return None;
        }
        SELF_PID.store(unsafe { libc::getpid() }, Ordering::Relaxed);
        let mut old = Vec::with_capacity(N);
        let old_mask = unsafe {
            let mut m: libc::sigset_t = std::mem::zeroed();
            libc::sigemptyset(&mut m);
            libc::pthread_sigmask(libc::SIG_SETMASK, std::ptr::null(), &mut m);
            m
        };
        for d in &D {
            unsafe {
                let mut sa: libc::sigaction = std::mem::zeroed();
                sa.sa_sigaction = on_signal as extern "C" fn(libc::c_int, *mut libc::siginfo_t, *mut libc::c_void) as usize;
                sa.sa_flags = libc::SA_SIGINFO | libc::SA_RESTART;
                libc::sigemptyset(&mut sa.sa_mask);
                let mut prev: libc::sigaction = std::mem::zeroed();
                let r = libc::sigaction(d.1, &sa, &mut prev);
                assert_eq!(r, 0, "sigaction({}) failed", d.2);
                old.push(prev);
            }
        }
        Some(Handlers { old, old_mask })
    }
}

impl Drop for Handlers {
    fn drop(&mut self) {
        unblock_domain();
        for (d, prev) in D.iter().zip(self.old.iter()) {
            unsafe {
                libc::sigaction(d.1, prev, std::ptr::null_mut());
            }
        }
        unsafe {
            libc::pthread_sigmask(libc::SIG_SETMASK, &self.old_mask, std::ptr::null_mut());
        }
        zero_counts();
        HANDLERS_ACTIVE.store(false, Ordering::SeqCst);
    }
}

/// Resets mask and pending state of D when a case ends, however it ends (also on unwinding).
/// Declared before the world in `run_case`, hence dropped after the source.
struct ResetOnDrop;
impl Drop for ResetOnDrop {
    fn drop(&mut self) {
        unblock_domain();
        zero_counts();
    }
}

fn thread_count() -> Option<usize> {
    std::fs::read_dir("/proc/self/task").ok().map(|rd| rd.filter(|e| e.is_ok()).count())
}

// ---------------------------------------------------------------------------------------------
// kernel observations

/// Blocked signals of the calling thread, bit (signo-1).
fn observe_mask() -> u64 {
    unsafe {
        let mut old: libc::sigset_t = std::mem::zeroed();
        libc::sigemptyset(&mut old);
        let r = libc::pthread_sigmask(libc::SIG_SETMASK, std::ptr::null(), &mut old);
        assert_eq!(r, 0, "pthread_sigmask(query) failed");
        set_to_bits(&old)
    }
}

fn observe_pending() -> u64 {
    unsafe {
        let mut set: libc::sigset_t = std::mem::zeroed();
        libc::sigemptyset(&mut set);
        let r = libc::sigpending(&mut set);
        assert_eq!(r, 0, "sigpending failed");
        set_to_bits(&set)
    }
}

fn set_to_bits(set: &libc::sigset_t) -> u64 {
    let mut bits = 0u64;
    for signo in 1..=64 {
        if unsafe { libc::sigismember(set, signo) } == 1 {
            bits |= 1u64 << (signo - 1);
        }
    }
    bits
}

/// D-indexed bitset -> signo-indexed bitset.
fn full_of(bits: u8) -> u64 {
    let mut f = 0u64;
    for (i, d) in D.iter().enumerate() {
        if bits & (1 << i) != 0 {
            f |= 1u64 << (d.1 - 1);
        }
    }
    f
}

fn names(bits: u8) -> String {
    let v: Vec<&str> = D.iter().enumerate().filter(|(i, _)| bits & (1 << i) != 0).map(|(_, d)| d.2).collect();
    format!("{{{}}}", v.join(","))
}

fn names_full(full: u64) -> String {
    let mut v = Vec::new();
    for signo in 1..=64 {
        if full & (1u64 << (signo - 1)) != 0 {
            match D.iter().find(|d| d.1 == signo) {
                Some(d) => v.push(d.2.to_string()),
                None => v.push(format!("sig{signo}")),
            }
        }
    }
    format!("{{{}}}", v.join(","))
}

// ---------------------------------------------------------------------------------------------
// cases

#[derive(Serialize, Deserialize, Debug, Clone, Hash, PartialEq, Eq)]
pub enum Op {
    /// `Signals::new(list)`; no-op while a source exists (one source at a time)
    New(Vec<u8>),
    Add(Vec<u8>),
    Remove(Vec<u8>),
    Set(Vec<u8>),
    /// `process == false`: libc::raise (thread-directed); `true`: kill(getpid()) (process-directed)
    Raise { sig: u8, process: bool },
    /// raise the (pick * |M| >> 8)-th currently configured signal (no-op when none is configured);
    /// lets the generator aim at configured signals without knowing the state
    RaiseCfg { pick: u8, process: bool },
    /// register the source's dispatcher in the loop
    Insert,
    /// remove the source from the loop (it stays alive)
    Unplug,
    /// `dispatch(Some(0))`
    Dispatch,
    /// remove from the loop if inserted, then drop the source
    DropSrc,
    /// the application itself blocks (true) / unblocks (false) a signal outside D (SIGVTALRM, never raised):
    /// the source must leave it alone ("exactly the configured signals" are its business)
    AppBlock(bool),
    /// the application blocks / unblocks a signal of D for itself while the source does NOT have it configured
    /// (no-op otherwise: unblocking a configured signal behind the source's back is outside the contract). A signal
    /// raised meanwhile stays pending. Once the source configures the signal it is the source's: remove/set/drop
    /// unblock it ("dropping the source unblocks them"), whoever blocked it first.
    AppBlockD { sig: u8, on: bool },
    /// Turn to the other of the two source slots: every source op (New/Add/Remove/Set/Insert/Unplug/DropSrc) acts on
    /// the slot turned to. When that slot is empty a source is created there with the list given. Two sources live
    /// side by side only over DISJOINT sets (signals the other source has configured are taken out of every list:
    /// two sources fighting over one signal are outside the statement)
    Switch(Vec<u8>),
}

#[derive(Serialize, Deserialize, Debug, Clone, Hash)]
pub struct Case {
    pub ops: Vec<Op>,
}

fn sig_strategy() -> impl Strategy<Value = u8> {
    // biased towards three signals so that lists overlap with the current set and raises hit it
    prop_oneof![3 => 0u8..3, 2 => 0u8..(N as u8)]
}

fn list_strategy() -> impl Strategy<Value = Vec<u8>> {
    proptest::collection::vec(sig_strategy(), 0..=4)
}

fn op_strategy() -> impl Strategy<Value = Op> {
    prop_oneof![
        1 => list_strategy().prop_map(Op::New),
        3 => list_strategy().prop_map(Op::Add),
        3 => list_strategy().prop_map(Op::Remove),
        4 => list_strategy().prop_map(Op::Set),
        5 => (sig_strategy(), any::<bool>()).prop_map(|(sig, process)| Op::Raise { sig, process }),
        6 => (any::<u8>(), any::<bool>()).prop_map(|(pick, process)| Op::RaiseCfg { pick, process }),
        2 => Just(Op::Insert),
        5 => Just(Op::Dispatch),
        // (nested: prop_oneof! boxes, and loses Sync, beyond 10 arms)
        9 => prop_oneof![1 => Just(Op::Unplug), 1 => Just(Op::DropSrc), 1 => any::<bool>().prop_map(Op::AppBlock), 3 => (sig_strategy(), prop::bool::weighted(0.6)).prop_map(|(sig, on)| Op::AppBlockD { sig, on }), 3 => list_strategy().prop_map(Op::Switch)],
    ]
}

fn case_strategy() -> impl Strategy<Value = Case> {
    // most histories start with a source (and most of those with the source inserted); the rest
    // exercises raises without a source and late creation
    (
        0u8..10,
        proptest::collection::vec(sig_strategy(), 1..=3),
        proptest::collection::vec(op_strategy(), 0..=11),
        (0u8..5, sig_strategy()),
        (0u8..5, proptest::collection::vec(sig_strategy(), 1..=3)),
    )
        .prop_map(|(head, first, rest, (pre, pre_sig), (two, second))| {
            let mut ops = Vec::with_capacity(rest.len() + 3);
            if pre == 0 {
                // the application had a domain signal blocked before the source came to be
                ops.push(Op::AppBlockD { sig: pre_sig, on: true });
            }
            if head >= 1 {
                ops.push(Op::New(first));
            }
            if head >= 5 {
                ops.push(Op::Insert);
            }
            if head >= 1 && two == 0 {
                // a second source over a disjoint set next to the first one
                ops.push(Op::Switch(second));
                if head >= 4 {
                    ops.push(Op::Insert);
                }
            }
            ops.extend(rest);
            ops.truncate(14);
            Case { ops }
        })
}

// ---------------------------------------------------------------------------------------------
// model + world

#[derive(Debug, Clone, Copy, PartialEq, Eq)]
struct Ev {
    signo: i32,
    code: i32,
    pid: u32,
    uid: u32,
    /// an `Event` accessor panicked
    bad: bool,
    /// the source slot whose callback got it
    src: u8,
}

type Data = Vec<Ev>;

struct World {
    el: EventLoop<'static, Data>,
    src: [Option<Dispatcher<'static, Signals, Data>>; 2],
    token: [Option<RegistrationToken>; 2],
}

#[derive(Default)]
struct Model {
    /// the slot the source ops act on
    cur: usize,
    live: [bool; 2],
    /// configured set per source slot (their union == blocked part of D, apart from `app`); 0 while not alive
    m: [u8; 2],
    /// signals of D blocked by the application itself and not configured (disjoint from `m`)
    app: u8,
    /// pending in the thread-private queue (raised with raise/tgkill)
    pt: u8,
    /// pending in the shared queue (raised with kill(getpid()))
    ps: u8,
    /// handler invocations per signal
    h: [u32; N],
    // evidence bookkeeping -----------------------------------------------------------------
    /// pending instances that have seen an add/remove/set call since they were raised
    aged_t: u8,
    aged_s: u8,
    mask_changed: bool,
    delivery_checked_after_mask_op: bool,
}

impl Model {
    /// union of the configured sets of the live sources
    fn cfg(&self) -> u8 {
        self.m[0] | self.m[1]
    }
    /// configured set of the source in the other slot
    fn other(&self) -> u8 {
        self.m[self.cur ^ 1]
    }

    /// Signals in `bits` become unblocked: every pending instance runs its handler.
    /// Returns whether anything was delivered.
    fn unblock(&mut self, bits: u8) -> bool {
        let mut any = false;
        for i in 0..N {
            let b = 1u8 << i;
            if bits & b == 0 {
                continue;
            }
            if self.pt & b != 0 {
                self.h[i] += 1;
                any = true;
                if self.aged_t & b != 0 {
                    self.delivery_checked_after_mask_op = true;
                }
            }
            if self.ps & b != 0 {
                self.h[i] += 1;
                any = true;
                if self.aged_s & b != 0 {
                    self.delivery_checked_after_mask_op = true;
                }
            }
        }
        self.pt &= !bits;
        self.ps &= !bits;
        self.aged_t &= !bits;
        self.aged_s &= !bits;
        any
    }

    /// An add/remove/set call is about to run: every instance pending now "sees" it.
    fn age(&mut self) {
        self.aged_t = self.pt;
        self.aged_s = self.ps;
    }
}

fn bits_of(list: &[u8]) -> u8 {
    list.iter().fold(0u8, |a, &s| a | (1u8 << (s as usize).min(N - 1)))
}

fn signals_of(list: &[u8]) -> Vec<Signal> {
    list.iter().map(|&s| D[(s as usize).min(N - 1)].0).collect()
}

fn has_dup(list: &[u8]) -> bool {
    (bits_of(list).count_ones() as usize) < list.len()
}

fn vio(rule: &str, opi: usize, op: &Op, detail: String) -> Violation {
    Violation::new(rule, format!("after op #{opi} {op:?}: {detail}"))
}

enum Step {
    Ok,
    Skipped,
    /// calloop returned Err / something the property cannot judge: stop the case without verdict
    Abort,
    Bad(Violation),
}

struct Run {
    world: World,
    model: Model,
    base_mask: u64,
    classes: Vec<&'static str>,
    excluded: u64,
    steer_f8: bool,
}

impl Run {
    fn class(&mut self, c: &'static str) {
        if !self.classes.contains(&c) {
            self.classes.push(c);
        }
    }

    /// Compare kernel state and handler counters with the model (after every op).
    fn verify(&self, opi: usize, op: &Op, f8_shape: u8) -> Option<Violation> {
        let m = &self.model;
        // --- thread mask: exactly the configured signals (and whatever was blocked outside D before)
        let want_mask = self.base_mask | full_of(m.cfg()) | full_of(m.app);
        let got_mask = observe_mask();
        if got_mask != want_mask {
            let extra = got_mask & !want_mask;
            let missing = want_mask & !got_mask;
            return Some(vio(
                "C19.mask",
                opi,
                op,
                format!(
                    "thread signal mask differs from the configured set {}: blocked but not configured {}, configured but not blocked {} (source {})",
                    names(m.cfg()),
                    names_full(extra),
                    names_full(missing),
                    match (m.live[0], m.live[1]) {
                        (false, false) => "absent/dropped",
                        (true, true) => "two sources alive",
                        _ => "alive",
                    }
                ),
            ));
        }
        // --- handlers: a configured signal never reaches its handler, an unconfigured one always does
        for i in 0..N {
            let got = COUNTS[i].load(Ordering::SeqCst);
            let want = m.h[i];
            if got != want {
                let b = 1u8 << i;
                let mut v = vio(
                    "C19.handler",
                    opi,
                    op,
                    format!(
                        "handler of SIG{} ran {got} time(s) in total, expected {want} ({})",
                        D[i].2,
                        if got > want {
                            "a signal that was pending and stays configured escaped to the process-level handler"
                        } else {
                            "a signal that is not (or no longer) configured was not delivered to its handler"
                        }
                    ),
                );
                if got > want && f8_shape & b != 0 {
                    v = v.with_sig(SIG_SET_KEEPS_PENDING);
                }
                return Some(v);
            }
        }
        // --- pending set
        let got_p = observe_pending();
        let want_p = full_of(m.pt | m.ps);
        if got_p != want_p {
            return Some(vio(
                "C19.pending",
                opi,
                op,
                format!("sigpending() = {}, expected {}", names_full(got_p), names_full(want_p)),
            ));
        }
        None
    }

    fn step(&mut self, opi: usize, op: &Op) -> Step {
        let mut f8_shape = 0u8;
        match op {
            Op::Switch(list) => {
                self.model.cur ^= 1;
                self.class("switch_source_slot");
                if self.world.src[self.model.cur].is_none() {
                    let new = Op::New(list.clone());
                    return self.step(opi, &new);
                }
            }
            Op::New(list) => {
                let slot = self.model.cur;
                if self.world.src[slot].is_some() {
                    return Step::Skipped;
                }
                let other = self.model.other();
                let list: Vec<u8> = list.iter().copied().filter(|s| bits_of(&[*s]) & other == 0).collect();
                let list = &list;
                let sigs = signals_of(list);
                match catch_unwind(AssertUnwindSafe(|| Signals::new(&sigs))) {
                    Err(_) => return Step::Bad(vio("C19.mask", opi, op, "Signals::new panicked".into())),
                    Ok(Err(_)) => return Step::Abort,
                    Ok(Ok(s)) => {
                        let src = slot as u8;
                        let d = Dispatcher::new(s, move |ev: Event, _: &mut (), data: &mut Data| {
                            let r = catch_unwind(AssertUnwindSafe(|| (ev.signal() as i32, ev.code(), ev.pid(), ev.uid())));
                            data.push(match r {
                                Ok((signo, code, pid, uid)) => Ev { signo, code, pid, uid, bad: false, src },
                                Err(_) => Ev { signo: -1, code: 0, pid: 0, uid: 0, bad: true, src },
                            });
                        });
                        self.world.src[slot] = Some(d);
                    }
                }
                self.model.live[slot] = true;
                self.model.m[slot] = bits_of(list);
                if self.model.app & self.model.m[slot] != 0 {
                    self.class("configured_a_signal_the_application_had_blocked");
                }
                self.model.app &= !self.model.m[slot];
                self.class("new");
                if self.model.live[slot ^ 1] {
                    self.class("two_sources_alive");
                    if self.model.m[0] != 0 && self.model.m[1] != 0 {
                        self.class("two_sources_alive_both_configured");
                    }
                }
                if self.model.app != 0 {
                    self.class("new_while_application_blocks_a_domain_signal");
                }
                if list.is_empty() {
                    self.class("empty_list");
                }
                if has_dup(list) {
                    self.class("dup_in_list");
                }
            }
            Op::Add(list) | Op::Remove(list) | Op::Set(list) => {
                // (a second handle to the same Rc'd source; released at the end of this step)
                let slot = self.model.cur;
                let Some(d) = self.world.src[slot].clone() else { return Step::Skipped };
                let other = self.model.other();
                let list: Vec<u8> = list.iter().copied().filter(|s| bits_of(&[*s]) & other == 0).collect();
                let list = &list;
                let s = bits_of(list);
                let old = self.model.m[slot];
                let pend = self.model.pt | self.model.ps;
                let new = match op {
                    Op::Add(_) => old | s,
                    Op::Remove(_) => old & !s,
                    _ => s,
                };
                if let Op::Set(_) = op {
                    // shape of F8: a pending signal that stays configured across set_signals
                    f8_shape = old & new & pend;
                    if f8_shape != 0 {
                        if self.steer_f8 {
                            self.excluded += 1;
                            self.class("excluded_known:set_keeps_pending");
                            return Step::Skipped;
                        }
                        self.class("set_keeps_pending");
                    }
                }
                let sigs = signals_of(list);
                let r = catch_unwind(AssertUnwindSafe(|| {
                    let mut src = d.as_source_mut();
                    match op {
                        Op::Add(_) => src.add_signals(&sigs),
                        Op::Remove(_) => src.remove_signals(&sigs),
                        _ => src.set_signals(&sigs),
                    }
                }));
                match r {
                    Err(_) => return Step::Bad(vio("C19.mask", opi, op, "the call panicked".into())),
                    Ok(Err(_)) => return Step::Abort,
                    Ok(Ok(())) => {}
                }
                // model: signals leaving the configured set are unblocked: their pending instances go to
                // the handlers; signals in old ∩ new stay pending and must not reach the handler
                self.model.age();
                self.model.m[slot] = new;
                if self.model.live[slot ^ 1] {
                    self.class("mask_op_while_two_sources_alive");
                }
                if self.model.app & new != 0 {
                    self.class("configured_a_signal_the_application_had_blocked");
                }
                self.model.app &= !new;
                if let Op::Remove(_) = op {
                    // remove_signals names a signal that is NOT configured but blocked by the application: the
                    // statement does not say whether the call may touch it (calloop unblocks whatever is listed) -
                    // don't-care: the model follows what is observed for exactly these bits
                    let dc = s & self.model.app;
                    if dc != 0 {
                        self.class("remove_names_unconfigured_app_blocked_signal(dont_care)");
                        let got = observe_mask();
                        for i in 0..N {
                            let b = 1u8 << i;
                            if dc & b != 0 && got & full_of(b) == 0 {
                                self.model.app &= !b;
                                self.model.unblock(b);
                            }
                        }
                    }
                }
                let leaving = old & !new;
                if self.model.unblock(leaving) {
                    self.class("mask_op_delivers_pending_to_handler");
                }
                if old & new & pend != 0 {
                    self.class("mask_op_keeps_pending");
                }
                if new != old {
                    self.model.mask_changed = true;
                }
                self.class(match op {
                    Op::Add(_) => "add_signals",
                    Op::Remove(_) => "remove_signals",
                    _ => "set_signals",
                });
                if list.is_empty() {
                    self.class("empty_list");
                }
                if has_dup(list) {
                    self.class("dup_in_list");
                }
                if s & old != 0 && s & !old != 0 {
                    self.class("list_overlaps_current");
                }
                if self.world.token[slot].is_some() {
                    self.class("mask_op_while_inserted");
                }
            }
            Op::Raise { sig, process } => {
                let i = (*sig as usize).min(N - 1);
                let b = 1u8 << i;
                let r = unsafe {
                    if *process {
                        libc::kill(libc::getpid(), D[i].1)
                    } else {
                        libc::raise(D[i].1)
                    }
                };
                assert_eq!(r, 0, "raise/kill failed");
                let blocked = self.model.cfg() & b != 0 || self.model.app & b != 0;
                if self.model.app & b != 0 {
                    self.class("raise_while_application_blocks_it");
                }
                if blocked {
                    let other = if *process { self.model.pt } else { self.model.ps };
                    let q = if *process { &mut self.model.ps } else { &mut self.model.pt };
                    let again = *q & b != 0;
                    *q |= b; // does not queue: a second instance in the same queue is dropped
                    if again {
                        self.class("raise_coalesced");
                    }
                    if other & b != 0 {
                        self.class("pending_in_both_queues");
                    }
                    if self.model.app & b == 0 {
                        self.class(if *process { "raise_configured_process" } else { "raise_configured_thread" });
                    }
                    if self.model.mask_changed && self.model.app & b == 0 {
                        self.class("raise_configured_after_mask_change");
                    }
                } else {
                    self.model.h[i] += 1;
                    self.class("raise_unconfigured");
                    if self.model.live[0] || self.model.live[1] {
                        self.class("raise_unconfigured_while_source_alive");
                    }
                }
            }
            Op::RaiseCfg { .. } => unreachable!("resolved to Raise by run_case"),
            Op::Insert => {
                let slot = self.model.cur;
                let Some(d) = self.world.src[slot].as_ref() else { return Step::Skipped };
                if self.world.token[slot].is_some() {
                    return Step::Skipped;
                }
                let h = self.world.el.handle();
                match catch_unwind(AssertUnwindSafe(|| h.register_dispatcher(d.clone()))) {
                    Err(_) | Ok(Err(_)) => return Step::Abort,
                    Ok(Ok(t)) => self.world.token[slot] = Some(t),
                }
                self.class("insert");
                if self.model.pt | self.model.ps != 0 {
                    self.class("insert_with_pending");
                }
            }
            Op::Unplug => {
                let Some(t) = self.world.token[self.model.cur].take() else { return Step::Skipped };
                self.world.el.handle().remove(t);
                self.class("unplug");
            }
            Op::Dispatch => {
                let mut evs: Data = Vec::new();
                let r = catch_unwind(AssertUnwindSafe(|| self.world.el.dispatch(Some(Duration::ZERO), &mut evs)));
                match r {
                    Err(_) => return Step::Bad(vio("C19.delivery", opi, op, "dispatch panicked".into())),
                    Ok(Err(_)) => return Step::Abort,
                    Ok(Ok(())) => {}
                }
                // expected: every pending instance of a configured signal, once (pending ⊆ configured
                // in the model because only blocked signals become pending and unblocking flushes them)
                let mut want: Vec<(i32, i32, u8)> = Vec::new();
                let mut inserted_any = false;
                let mut taken = 0u8;
                for slot in 0..2 {
                    if self.world.token[slot].is_none() {
                        continue;
                    }
                    inserted_any = true;
                    let m_slot = self.model.m[slot];
                    taken |= m_slot;
                    for i in 0..N {
                        let b = 1u8 << i;
                        if m_slot & self.model.pt & b != 0 {
                            want.push((D[i].1, SI_TKILL, slot as u8));
                            if self.model.aged_t & b != 0 {
                                self.model.delivery_checked_after_mask_op = true;
                            }
                        }
                        if m_slot & self.model.ps & b != 0 {
                            want.push((D[i].1, SI_USER, slot as u8));
                            if self.model.aged_s & b != 0 {
                                self.model.delivery_checked_after_mask_op = true;
                            }
                        }
                    }
                }
                if inserted_any {
                    self.model.pt &= !taken;
                    self.model.ps &= !taken;
                    self.model.aged_t &= !taken;
                    self.model.aged_s &= !taken;
                    self.class("dispatch_inserted");
                    if self.world.token[0].is_some() && self.world.token[1].is_some() {
                        self.class("dispatch_two_sources_inserted");
                        if want.iter().any(|w| w.2 == 0) && want.iter().any(|w| w.2 == 1) {
                            self.class("dispatch_delivers_to_both_sources");
                        }
                    }
                } else if self.model.pt | self.model.ps != 0 {
                    self.class("dispatch_not_inserted_with_pending");
                }
                match want.len() {
                    0 => {}
                    1 => self.class("dispatch_delivers_1"),
                    _ => self.class("dispatch_delivers_2plus"),
                }
                if let Some(v) = compare_events(opi, op, &evs, &want) {
                    return Step::Bad(v);
                }
            }
            Op::AppBlock(on) => {
                let bit = 1u64 << (FOREIGN_SIG - 1);
                if (self.base_mask & bit != 0) == *on {
                    return Step::Skipped;
                }
                foreign_block(*on);
                if *on {
                    self.base_mask |= bit;
                    self.class("app_blocked_foreign_signal");
                } else {
                    self.base_mask &= !bit;
                }
            }
            Op::AppBlockD { sig, on } => {
                let i = (*sig as usize).min(N - 1);
                let b = 1u8 << i;
                let configured = self.model.cfg() & b != 0;
                if configured || (self.model.app & b != 0) == *on {
                    return Step::Skipped;
                }
                let set = sigset_of(b);
                unsafe {
                    libc::pthread_sigmask(if *on { libc::SIG_BLOCK } else { libc::SIG_UNBLOCK }, &set, std::ptr::null_mut());
                }
                if *on {
                    self.model.app |= b;
                    self.class("app_blocked_domain_signal");
                    if self.model.live[0] || self.model.live[1] {
                        self.class("app_blocked_domain_signal_while_source_alive");
                    }
                } else {
                    self.model.app &= !b;
                    if self.model.unblock(b) {
                        self.class("app_unblock_delivers_pending_to_handler");
                    }
                    if self.model.live[0] || self.model.live[1] {
                        self.class("app_unblocked_domain_signal_while_source_alive");
                    }
                }
            }
            Op::DropSrc => {
                let slot = self.model.cur;
                if self.world.src[slot].is_none() {
                    return Step::Skipped;
                }
                if let Some(t) = self.world.token[slot].take() {
                    self.world.el.handle().remove(t);
                }
                let d = self.world.src[slot].take();
                if catch_unwind(AssertUnwindSafe(move || drop(d))).is_err() {
                    return Step::Bad(vio("C19.mask", opi, op, "dropping the source panicked".into()));
                }
                // dropping unblocks the configured signals: pending ones run their handlers
                let m = self.model.m[slot];
                if self.model.unblock(m) {
                    self.class("drop_with_pending");
                }
                self.model.live[slot] = false;
                self.model.m[slot] = 0;
                self.class("drop");
                if self.model.live[slot ^ 1] {
                    self.class("drop_while_other_source_alive");
                }
            }
        }
        match self.verify(opi, op, f8_shape) {
            Some(v) => Step::Bad(v),
            None => Step::Ok,
        }
    }
}

/// Callback events versus expected (signal, si_code) instances; order is not asserted.
fn compare_events(opi: usize, op: &Op, got: &[Ev], want: &[(i32, i32, u8)]) -> Option<Violation> {
    if got.iter().any(|e| e.bad) {
        return Some(vio("C19.info", opi, op, "an Event accessor (signal/code/pid/uid) panicked".into()));
    }
    let show = |v: &[i32]| {
        let n: Vec<String> = v
            .iter()
            .map(|s| D.iter().find(|d| d.1 == *s).map(|d| d.2.to_string()).unwrap_or_else(|| format!("sig{s}")))
            .collect();
        format!("[{}]", n.join(","))
    };
    let mut g: Vec<i32> = got.iter().map(|e| e.signo).collect();
    let mut w: Vec<i32> = want.iter().map(|e| e.0).collect();
    g.sort_unstable();
    w.sort_unstable();
    if g != w {
        return Some(vio(
            "C19.delivery",
            opi,
            op,
            format!("callback received signals {} , expected the pending configured instances {}", show(&g), show(&w)),
        ));
    }
    let pid = unsafe { libc::getpid() } as u32;
    let uid = unsafe { libc::getuid() };
    for e in got {
        if e.pid != pid || e.uid != uid {
            return Some(vio(
                "C19.info",
                opi,
                op,
                format!("event for signal {} reports pid {} uid {}, sender was pid {pid} uid {uid}", e.signo, e.pid, e.uid),
            ));
        }
    }
    let mut gs: Vec<(i32, u8)> = got.iter().map(|e| (e.signo, e.src)).collect();
    let mut ws: Vec<(i32, u8)> = want.iter().map(|e| (e.0, e.2)).collect();
    gs.sort_unstable();
    ws.sort_unstable();
    if gs != ws {
        return Some(vio(
            "C19.delivery",
            opi,
            op,
            format!("events by (signal, source slot) {gs:?}, expected {ws:?}: a source reported a signal that is configured on the other source"),
        ));
    }
    let mut gc: Vec<(i32, i32)> = got.iter().map(|e| (e.signo, e.code)).collect();
    let mut wc: Vec<(i32, i32)> = want.iter().map(|e| (e.0, e.1)).collect();
    gc.sort_unstable();
    wc.sort_unstable();
    if gc != wc {
        return Some(vio(
            "C19.info",
            opi,
            op,
            format!("events (signal, si_code) {gc:?}, expected {wc:?} (SI_TKILL=-6 for raise, SI_USER=0 for kill)"),
        ));
    }
    None
}

pub fn run_case(case: &Case) -> CaseOutcome {
    run_case_opts(case, false)
}

/// `steer_f8`: skip (and count) `set_signals` calls of the shape of the open known finding F8.
pub fn run_case_opts(case: &Case, steer_f8: bool) -> CaseOutcome {
    let _handlers = Handlers::ensure();
    // clean slate: D unblocked, nothing pending, counters zero
    unblock_domain();
    zero_counts();
    let foreign0 = FOREIGN.load(Ordering::SeqCst);
    let _reset = ResetOnDrop; // dropped after `run` (declared first)
    let base_mask = observe_mask();
    assert_eq!(base_mask & full_of(0xFF), 0, "could not unblock the signal domain");
    let el: EventLoop<'static, Data> = EventLoop::try_new().expect("event loop");
    let mut run = Run {
        world: World { el, src: [None, None], token: [None, None] },
        model: Model::default(),
        base_mask,
        classes: Vec::new(),
        excluded: 0,
        steer_f8,
    };
    let mut effective: Vec<Op> = Vec::new();
    let mut viol = None;
    let mut aborted = false;
    for (opi, op) in case.ops.iter().enumerate() {
        // resolve state-relative raises to absolute ones (this is also the normal form for the fingerprint)
        let resolved;
        let op = match op {
            Op::RaiseCfg { pick, process } => {
                let m = run.model.cfg();
                let n = m.count_ones() as usize;
                if n == 0 {
                    continue;
                }
                let k = (*pick as usize * n) >> 8;
                let sig = (0..N).filter(|i| m & (1 << i) != 0).nth(k).unwrap() as u8;
                resolved = Op::Raise { sig, process: *process };
                &resolved
            }
            Op::AppBlockD { sig, on: false } => {
                // unblock the (sig mod n)-th signal the application blocks at the moment (normal form: absolute index)
                let app = run.model.app;
                let n = app.count_ones() as usize;
                if n == 0 {
                    continue;
                }
                let sig = (0..N).filter(|i| app & (1 << i) != 0).nth(*sig as usize % n).unwrap() as u8;
                resolved = Op::AppBlockD { sig, on: false };
                &resolved
            }
            o => o,
        };
        match run.step(opi, op) {
            Step::Ok => effective.push(op.clone()),
            Step::Skipped => {}
            Step::Abort => {
                aborted = true;
                OP_ERRORS.fetch_add(1, Ordering::SeqCst);
                break;
            }
            Step::Bad(v) => {
                effective.push(op.clone());
                viol = Some(v);
                break;
            }
        }
    }
    // implicit end of history: drop the source, everything must be back to the initial state
    for slot in 0..2 {
        if viol.is_none() && !aborted && run.world.src[slot].is_some() {
            run.model.cur = slot;
            let end = Op::DropSrc;
            if let Step::Bad(v) = run.step(case.ops.len(), &end) {
                viol = Some(v);
            }
        }
    }
    let mut info = CaseInfo::default();
    info.fingerprint = fingerprint(&effective);
    info.nontrivial = run.model.mask_changed && run.model.delivery_checked_after_mask_op && viol.is_none() && !aborted;
    info.excluded_known = run.excluded;
    if aborted {
        run.class("aborted_op_error");
    }
    if run.model.mask_changed {
        run.class("mask_changed");
    }
    if run.model.delivery_checked_after_mask_op {
        run.class("delivery_checked_after_mask_op");
    }
    info.classes = std::mem::take(&mut run.classes);
    info.counters.push(("ops_executed", effective.len() as u64));
    drop(run); // source (if any) dropped here, then `_reset` unblocks/drains D
    if FOREIGN.load(Ordering::SeqCst) != foreign0 {
        // a signal of D arrived from somebody else: the observation is void, never a violation
        info.classes.push("foreign_signal");
        info.nontrivial = false;
        viol = None;
    }
    (info, viol)
}

// ---------------------------------------------------------------------------------------------
// every catchable signal on its own (enumerated): the history family works over 8 signals; whether EVERY variant of
// calloop's `Signal` enum is blocked, reported with its own number and unblocked again is settled here, one signal at a
// time: 27 signals x {new, add_signals, set_signals} x {raise, kill(getpid())}.

#[derive(Serialize, Deserialize, Debug, Clone, Hash, PartialEq, Eq)]
pub struct OneCase {
    /// index into ALL_SIGNALS
    pub sig: u8,
    /// 0 = Signals::new(&[s]); 1 = new(&[]) + add_signals(&[s]); 2 = new(&[other]) + set_signals(&[s])
    pub via: u8,
    pub process: bool,
}

const ALL_SIGNALS: [(Signal, i32, &str); 27] = [
    (Signal::SIGHUP, libc::SIGHUP, "HUP"),
    (Signal::SIGINT, libc::SIGINT, "INT"),
    (Signal::SIGQUIT, libc::SIGQUIT, "QUIT"),
    (Signal::SIGILL, libc::SIGILL, "ILL"),
    (Signal::SIGTRAP, libc::SIGTRAP, "TRAP"),
    (Signal::SIGABRT, libc::SIGABRT, "ABRT"),
    (Signal::SIGBUS, libc::SIGBUS, "BUS"),
    (Signal::SIGFPE, libc::SIGFPE, "FPE"),
    (Signal::SIGUSR1, libc::SIGUSR1, "USR1"),
    (Signal::SIGSEGV, libc::SIGSEGV, "SEGV"),
    (Signal::SIGUSR2, libc::SIGUSR2, "USR2"),
    (Signal::SIGPIPE, libc::SIGPIPE, "PIPE"),
    (Signal::SIGALRM, libc::SIGALRM, "ALRM"),
    (Signal::SIGTERM, libc::SIGTERM, "TERM"),
    (Signal::SIGCHLD, libc::SIGCHLD, "CHLD"),
    (Signal::SIGCONT, libc::SIGCONT, "CONT"),
    (Signal::SIGTSTP, libc::SIGTSTP, "TSTP"),
    (Signal::SIGTTIN, libc::SIGTTIN, "TTIN"),
    (Signal::SIGTTOU, libc::SIGTTOU, "TTOU"),
    (Signal::SIGURG, libc::SIGURG, "URG"),
    (Signal::SIGXCPU, libc::SIGXCPU, "XCPU"),
    (Signal::SIGXFSZ, libc::SIGXFSZ, "XFSZ"),
    (Signal::SIGVTALRM, libc::SIGVTALRM, "VTALRM"),
    (Signal::SIGPROF, libc::SIGPROF, "PROF"),
    (Signal::SIGWINCH, libc::SIGWINCH, "WINCH"),
    (Signal::SIGIO, libc::SIGIO, "IO"),
    (Signal::SIGSYS, libc::SIGSYS, "SYS"),
];

static ONE_COUNT: AtomicU32 = AtomicU32::new(0);

extern "C" fn on_one(_signo: libc::c_int, _info: *mut libc::siginfo_t, _uctx: *mut libc::c_void) {
    ONE_COUNT.fetch_add(1, Ordering::SeqCst);
}

fn one_set(signo: i32) -> libc::sigset_t {
    unsafe {
        let mut set: libc::sigset_t = std::mem::zeroed();
        libc::sigemptyset(&mut set);
        libc::sigaddset(&mut set, signo);
        set
    }
}

pub fn run_one_signal(c: &OneCase) -> CaseOutcome {
    let (sig, signo, name) = ALL_SIGNALS[(c.sig as usize).min(ALL_SIGNALS.len() - 1)];
    let mut info = CaseInfo { fingerprint: fingerprint(c), nontrivial: true, ..CaseInfo::default() };
    info.classes.push("each_signal");
    let bit = 1u64 << (signo - 1);
    let v = |what: String| Some(Violation::new("C19.each", format!("SIG{name} configured through {}: {what}", ["Signals::new", "add_signals", "set_signals"][(c.via % 3) as usize])).with_sig("C19.each"));
    // counting handler for this one signal, unblocked, nothing pending
    let mut old: libc::sigaction = unsafe { std::mem::zeroed() };
    unsafe {
        let mut sa: libc::sigaction = std::mem::zeroed();
        sa.sa_sigaction = on_one as usize;
        sa.sa_flags = libc::SA_SIGINFO;
        libc::sigemptyset(&mut sa.sa_mask);
        assert_eq!(libc::sigaction(signo, &sa, &mut old), 0, "sigaction");
        libc::pthread_sigmask(libc::SIG_UNBLOCK, &one_set(signo), std::ptr::null_mut());
    }
    ONE_COUNT.store(0, Ordering::SeqCst);
    let viol = (|| {
        let other = if signo == libc::SIGUSR1 { Signal::SIGUSR2 } else { Signal::SIGUSR1 };
        let made = catch_unwind(AssertUnwindSafe(|| -> calloop::Result<Signals> {
            match c.via % 3 {
                0 => Signals::new(&[sig]),
                1 => {
                    let mut s = Signals::new(&[])?;
                    s.add_signals(&[sig])?;
                    Ok(s)
                }
                _ => {
                    let mut s = Signals::new(&[other])?;
                    s.set_signals(&[sig])?;
                    Ok(s)
                }
            }
        }));
        let src = match made {
            Err(_) => return v("the call panicked".into()),
            Ok(Err(e)) => return v(format!("the call failed: {e}")),
            Ok(Ok(s)) => s,
        };
        if observe_mask() & bit == 0 {
            return v("the signal is configured but not blocked for the thread".into());
        }
        let r = unsafe {
            if c.process {
                libc::kill(libc::getpid(), signo)
            } else {
                libc::raise(signo)
            }
        };
        assert_eq!(r, 0, "raise/kill failed");
        if ONE_COUNT.load(Ordering::SeqCst) != 0 {
            return v("raised while configured, it reached its process-level handler".into());
        }
        if observe_pending() & bit == 0 {
            return v("raised while configured, it is not pending".into());
        }
        let mut el: EventLoop<'static, Vec<(i32, i32)>> = EventLoop::try_new().expect("event loop");
        let tok = match el.handle().insert_source(src, |ev: Event, _, data: &mut Vec<(i32, i32)>| data.push((ev.signal() as i32, ev.code()))) {
            Ok(t) => t,
            Err(e) => return v(format!("insert_source failed: {e}")),
        };
        let mut got = Vec::new();
        if let Err(e) = el.dispatch(Some(Duration::ZERO), &mut got) {
            return v(format!("dispatch failed: {e}"));
        }
        let want = vec![(signo, if c.process { SI_USER } else { SI_TKILL })];
        if got != want {
            return v(format!("one pending instance, the callback received (signal, si_code) {got:?}, expected {want:?}"));
        }
        // removing the source drops it: the signal is unblocked again and has its normal disposition
        el.handle().remove(tok);
        if observe_mask() & bit != 0 {
            return v("the source is gone, the signal is still blocked for the thread".into());
        }
        unsafe { libc::raise(signo) };
        if ONE_COUNT.load(Ordering::SeqCst) != 1 {
            return v(format!("raised after the source was dropped, its handler ran {} time(s), expected once", ONE_COUNT.load(Ordering::SeqCst)));
        }
        None
    })();
    unsafe {
        // drain whatever a failed case left pending into the counting handler, then put the old disposition back
        libc::pthread_sigmask(libc::SIG_UNBLOCK, &one_set(signo), std::ptr::null_mut());
        libc::sigaction(signo, &old, std::ptr::null_mut());
    }
    (info, viol)
}

/// Many instances pending at one dispatch: the first `n` signals of ALL_SIGNALS without SIGCONT (generating SIGCONT
/// discards pending stop signals in the kernel, and the other way round) are configured on one source, each raised
/// thread-directed and / or process-directed, then ONE dispatch: every pending instance is reported exactly once.
#[derive(Serialize, Deserialize, Debug, Clone, Hash, PartialEq, Eq)]
pub struct BurstCase {
    pub n: u8,
    /// 0 = raise, 1 = kill(getpid()), 2 = both (two instances per signal)
    pub how: u8,
}

pub fn run_burst(c: &BurstCase) -> CaseOutcome {
    let sigs: Vec<(Signal, i32, &str)> = ALL_SIGNALS.iter().copied().filter(|s| s.1 != libc::SIGCONT).take((c.n as usize).clamp(1, 26)).collect();
    let mut info = CaseInfo { fingerprint: fingerprint(c), nontrivial: true, ..CaseInfo::default() };
    let instances = sigs.len() * if c.how % 3 == 2 { 2 } else { 1 };
    info.classes.push(if instances > 16 { "burst_more_than_16_pending_instances" } else { "burst_up_to_16_pending_instances" });
    let v = |what: String| Some(Violation::new("C19.delivery", format!("{} configured signals, {instances} instances pending at one dispatch: {what}", sigs.len())).with_sig("C19.delivery/burst"));
    // counting handlers for all of them (nothing may stay pending into a default disposition), all unblocked
    let mut old: Vec<libc::sigaction> = Vec::new();
    unsafe {
        for s in &sigs {
            let mut sa: libc::sigaction = std::mem::zeroed();
            sa.sa_sigaction = on_one as usize;
            sa.sa_flags = libc::SA_SIGINFO;
            libc::sigemptyset(&mut sa.sa_mask);
            let mut o: libc::sigaction = std::mem::zeroed();
            assert_eq!(libc::sigaction(s.1, &sa, &mut o), 0, "sigaction");
            old.push(o);
            libc::pthread_sigmask(libc::SIG_UNBLOCK, &one_set(s.1), std::ptr::null_mut());
        }
    }
    ONE_COUNT.store(0, Ordering::SeqCst);
    let viol = (|| {
        let list: Vec<Signal> = sigs.iter().map(|s| s.0).collect();
        let src = match catch_unwind(AssertUnwindSafe(|| Signals::new(&list))) {
            Ok(Ok(s)) => s,
            Ok(Err(e)) => return v(format!("Signals::new failed: {e}")),
            Err(_) => return v("Signals::new panicked".into()),
        };
        let mut want: Vec<(i32, i32)> = Vec::new();
        for s in &sigs {
            if c.how % 3 != 1 {
                unsafe { libc::raise(s.1) };
                want.push((s.1, SI_TKILL));
            }
            if c.how % 3 != 0 {
                unsafe { libc::kill(libc::getpid(), s.1) };
                want.push((s.1, SI_USER));
            }
        }
        if ONE_COUNT.load(Ordering::SeqCst) != 0 {
            return v("a configured signal reached its process-level handler".into());
        }
        let mut el: EventLoop<'static, Vec<(i32, i32)>> = EventLoop::try_new().expect("event loop");
        let tok = match el.handle().insert_source(src, |ev: Event, _, data: &mut Vec<(i32, i32)>| data.push((ev.signal() as i32, ev.code()))) {
            Ok(t) => t,
            Err(e) => return v(format!("insert_source failed: {e}")),
        };
        let mut got = Vec::new();
        if let Err(e) = el.dispatch(Some(Duration::ZERO), &mut got) {
            return v(format!("dispatch failed: {e}"));
        }
        got.sort_unstable();
        want.sort_unstable();
        if got != want {
            let dup = got.windows(2).filter(|w| w[0] == w[1]).count();
            return v(format!("the callback received {} events ({} of them duplicates), expected each of the {} pending (signal, si_code) instances once; got {got:?}", got.len(), dup, want.len()));
        }
        el.handle().remove(tok);
        if ONE_COUNT.load(Ordering::SeqCst) != 0 {
            return v("after the source was dropped a handler ran although every instance had been reported".into());
        }
        None
    })();
    unsafe {
        for (s, o) in sigs.iter().zip(old.iter()) {
            libc::pthread_sigmask(libc::SIG_UNBLOCK, &one_set(s.1), std::ptr::null_mut());
            libc::sigaction(s.1, o, std::ptr::null_mut());
        }
    }
    (info, viol)
}

fn each_signal(ctx: &CheckCtx) -> Option<Found> {
    if let Some(f) = ctx.run_replays::<BurstCase, _>("burst", run_burst) {
        return Some(f);
    }
    for n in [1u8, 8, 9, 15, 16, 17, 20, 26] {
        for how in 0..3u8 {
            let c = BurstCase { n, how };
            let (info, v) = run_burst(&c);
            ctx.col.record(&info, || serde_json::to_value(&c).unwrap());
            if let Some(v) = v {
                return Some(Found { sub: "burst".into(), violation: v, case: serde_json::to_value(&c).unwrap(), replay_path: None });
            }
        }
    }
    if let Some(f) = ctx.run_replays::<OneCase, _>("each_signal", run_one_signal) {
        return Some(f);
    }
    for sig in 0..ALL_SIGNALS.len() as u8 {
        for via in 0..3u8 {
            for process in [false, true] {
                let c = OneCase { sig, via, process };
                let (info, v) = run_one_signal(&c);
                ctx.col.record(&info, || serde_json::to_value(&c).unwrap());
                if let Some(v) = v {
                    return Some(Found { sub: "each_signal".into(), violation: v, case: serde_json::to_value(&c).unwrap(), replay_path: None });
                }
            }
        }
    }
    ctx.col.exhaustive("every catchable variant of calloop::signals::Signal (27) x {Signals::new, add_signals, set_signals} x {raise, kill(getpid())}, one signal at a time: blocked while configured, one pending instance reported once with its own number and si_code, unblocked and back to its normal disposition once the source is gone");
    None
}

pub fn check(ctx: &CheckCtx) -> Option<Found> {
    match thread_count() {
        Some(1) => {}
        other => {
            ctx.infra_error(format!(
                "C19 needs a single-threaded process, /proc/self/task shows {other:?} threads; not run"
            ));
            return None;
        }
    }
    if let Some(f) = each_signal(ctx) {
        return Some(f);
    }
    let _handlers = Handlers::ensure();
    // replays are run strictly (no steering) so that an open finding stays visible
    if let Some(f) = ctx.run_replays::<Case, _>(SUB, run_case) {
        return Some(f);
    }
    let steer = ctx.known_open(SIG_SET_KEEPS_PENDING);
    if steer {
        ctx.col.note(format!(
            "open known finding {SIG_SET_KEEPS_PENDING}: set_signals calls that keep a pending signal configured are skipped (counted in excluded_known)"
        ));
    }
    let cases = ctx.tier.pick(QUICK_CASES, THOROUGH_CASES);
    let found = ctx.search(SUB, case_strategy(), cases, 1, None, |c| run_case_opts(c, steer));
    let foreign = FOREIGN.load(Ordering::SeqCst);
    if foreign > 0 {
        ctx.infra_error(format!("{foreign} signal(s) of the test domain arrived from outside the check process"));
    }
    let errs = OP_ERRORS.load(Ordering::SeqCst);
    if errs > 0 {
        ctx.infra_error(format!(
            "{errs} calloop call(s) (Signals::new/add/remove/set, register_dispatcher, dispatch) returned Err; those histories were not judged"
        ));
    }
    if thread_count() != Some(1) {
        ctx.infra_error("a thread was spawned during the C19 check");
    }
    found
}

pub fn replay(_ctx: &CheckCtx, sub: &str, case: serde_json::Value) -> Result<Option<Violation>, String> {
    if sub == "each_signal" {
        let c: OneCase = serde_json::from_value(case).map_err(|e| e.to_string())?;
        return Ok(run_one_signal(&c).1);
    }
    if sub == "burst" {
        let c: BurstCase = serde_json::from_value(case).map_err(|e| e.to_string())?;
        return Ok(run_burst(&c).1);
    }
    let c: Case = serde_json::from_value(case).map_err(|e| e.to_string())?;
    if thread_count() != Some(1) {
        return Err("C19 replay needs a single-threaded process".into());
    }
    let _handlers = Handlers::ensure();
    Ok(run_case(&c).1)
}
