//! C10 — Executor / StreamSource: no lost wake, results and items delivered exactly once.
//!
//! (a) sched: scripted futures on calloop's Executor (or a scripted stream in a StreamSource) in a loop
//!     thread doing zero-timeout dispatches, against 1..3 waker threads; the schedule over enqueue /
//!     notified-flag swap / eventfd write / flag clear / dequeue / self re-wake / Executor::drop sites
//!     is generated, including a scheduling point in the middle of every poll.
//! (b) batch: 0, 1, 1023, 1024, 1025, 2100 ready tasks drain over consecutive dispatches without an
//!     external wake; scheduling from inside the callback and from inside futures.

use crate::driver::{CaseOutcome, CheckCtx, Found, PropMeta, Tier, Violation};
use crate::evidence::{fingerprint, CaseInfo};
use crate::hist::ops::Profile;
use crate::props::c03::schedule_strategy;
use crate::props::histprops::{hist_replay, run_case_for, HistProp};
use crate::sched::{self, CaseCtl, RunEnd};
use calloop::futures::{executor, Scheduler};
use calloop::stream::StreamSource;
use calloop::EventLoop;
use proptest::prelude::*;
use serde::{Deserialize, Serialize};
use std::collections::VecDeque;
use std::future::Future;
use std::pin::Pin;
use std::sync::atomic::{AtomicBool, AtomicU32, Ordering};
use std::sync::{Arc, Mutex};
use std::task::{Context, Poll, Waker};
use std::time::{Duration, Instant};

pub static META: PropMeta = PropMeta {
    id: "C10",
    level: "exploration",
    rule: "cases: (a) sched: 1..4 scripted futures scheduled on an Executor inserted in a loop thread that dispatches with zero timeout (optionally scheduling one more future from the callback, optionally removing and dropping the executor after dispatch k), or a scripted stream in a StreamSource; 1..3 actor threads with programs over wake(task) / clone+wake(task) / complete+wake(task) (stream: push+wake / end+wake); the schedule over all executor, ping and harness yield sites (incl. one in the middle of every poll) is generated. oracle on the controller's logical clock: every scheduled future is polled; a poll of the task starts after every wake that began while it was pending and the executor was alive; all polls and future drops happen on the loop thread; each Ready(v) gives exactly one callback with v and no callback exists without a completion; after the executor is dropped every future has been dropped exactly once (checked before the Scheduler goes) and schedule() returns ExecutorDestroyed; stream: items delivered == items pushed in order, one None after end, then the slot is free. (e) stream bursts: 0/1/2/1023/1024/1025/2048/2049/3000 and random numbers of items ready at once in a StreamSource (finite ready stream; burst into a futures channel whose sender is then dropped or kept quiet): all delivered in order with no further wake-up, one None when the stream ended, then the slot is free. (d) hist: single-thread histories through the history machine with Executor sources (schedule scripted futures that stay pending 0..3 times, optionally waking themselves; wake from outside; schedule and wake from callbacks; disable/enable/remove/slot reuse of the executor, also from other callbacks): a runnable task is polled by the next Ok dispatch of an enabled executor, never while disabled or after removal, a completed task's value is delivered exactly once in the same dispatch, every future is dropped exactly once with its executor, schedule() afterwards returns ExecutorDestroyed. (c) free: 1..4 scripted futures, 2..3 free-running waker threads released together by a spin barrier (real concurrency, for races whose window holds no yield site) with programs over wake / clone+wake / complete+wake against the dispatching loop; oracle on CLOCK_MONOTONIC instants and end state: a completed+woken task delivers its value exactly once, every wake of a pending task is followed by a poll that started after it began, polls and drops only on the loop thread, every future dropped exactly once with the executor, ExecutorDestroyed afterwards. (b) batch: n ready tasks, n in {0,1,1023,1024,1025,2100} and random, complete over consecutive dispatches without external wake-up; futures scheduled from the callback and from futures run; optionally 1..2600 futures scheduled ahead of them that park their waker and stay pending at their first poll (a whole batch in which nothing finishes): all of them are polled and everything queued behind them is delivered without external wake-up, then they are woken from outside and finish. non-trivial (sched): an actor's wake sites interleave with the executor's flag-clear / dequeue sites of a dispatch (actor step between EX_CLEAR_PRE and the end of that dispatch), or a wake lands in the middle of a poll, or the executor is dropped while a wake is in flight; (batch): n >= 1024; distinct by case fingerprint",
    assumptions: &[
        "interleavings at yield-site granularity on x86-TSO with the real atomics, real mpsc queue and real eventfd",
        "async-task's internal state machine is exercised through calloop only; its own atomics have no yield sites",
    ],
};

#[derive(Serialize, Deserialize, Debug, Clone, Copy, Hash, PartialEq, Eq)]
pub enum WOp {
    Wake(u8),
    WakeClone(u8),
    Complete(u8),
    /// stream mode: push an item and wake
    Push,
    /// stream mode: end the stream and wake
    End,
}

#[derive(Serialize, Deserialize, Debug, Clone, Hash)]
pub struct Case {
    pub stream: bool,
    pub tasks: u8,
    pub actors: Vec<Vec<WOp>>,
    pub schedule: Vec<u8>,
    /// the executor callback schedules one extra (immediately ready) future on its first invocation
    pub schedule_from_cb: bool,
    /// remove + drop the executor after this many scheduled dispatches
    pub drop_after: Option<u8>,
    /// drop the harness's Scheduler handle before the executor is removed (no Scheduler outlives the executor)
    #[serde(default)]
    pub sched_first: bool,
    #[serde(default)]
    pub exact: bool,
}

fn case_strategy() -> impl Strategy<Value = Case> {
    let exec_op = prop_oneof![4 => (0u8..4).prop_map(WOp::Wake), 2 => (0u8..4).prop_map(WOp::WakeClone), 3 => (0u8..4).prop_map(WOp::Complete)];
    let stream_op = prop_oneof![5 => Just(WOp::Push), 1 => Just(WOp::End)];
    prop_oneof![
        4 => (1u8..=4, proptest::collection::vec(proptest::collection::vec(exec_op, 1..=5), 1..=3), schedule_strategy(220), any::<bool>(), prop::option::weighted(0.25, 1u8..4), any::<bool>())
            .prop_map(|(tasks, actors, schedule, schedule_from_cb, drop_after, sched_first)| Case { stream: false, tasks, actors, schedule, schedule_from_cb, drop_after, sched_first, exact: false }),
        1 => (proptest::collection::vec(proptest::collection::vec(stream_op, 1..=5), 1..=2), schedule_strategy(160))
            .prop_map(|(actors, schedule)| Case { stream: true, tasks: 0, actors, schedule, schedule_from_cb: false, drop_after: None, sched_first: false, exact: false }),
    ]
}

struct TaskShared {
    waker: Mutex<Option<Waker>>,
    complete: AtomicBool,
    returned_ready: AtomicBool,
    polls: Mutex<Vec<u64>>,
    drops: AtomicU32,
    wrong_thread: AtomicBool,
}

impl TaskShared {
    fn new() -> Arc<Self> {
        Arc::new(TaskShared {
            waker: Mutex::new(None),
            complete: AtomicBool::new(false),
            returned_ready: AtomicBool::new(false),
            polls: Mutex::new(vec![]),
            drops: AtomicU32::new(0),
            wrong_thread: AtomicBool::new(false),
        })
    }
}

struct ScriptFut {
    sh: Arc<TaskShared>,
    val: u32,
    home: std::thread::ThreadId,
    /// complete at once (used for futures scheduled from the callback)
    immediate: bool,
    /// not Send: the executor must keep it on the loop thread
    _not_send: std::rc::Rc<()>,
}

impl Future for ScriptFut {
    type Output = u32;
    fn poll(self: Pin<&mut Self>, cx: &mut Context<'_>) -> Poll<u32> {
        if std::thread::current().id() != self.home {
            self.sh.wrong_thread.store(true, Ordering::SeqCst);
        }
        let t = sched::tick();
        self.sh.polls.lock().unwrap().push(t);
        *self.sh.waker.lock().unwrap() = Some(cx.waker().clone());
        sched::harness_yield();
        if self.immediate || self.sh.complete.load(Ordering::SeqCst) {
            self.sh.returned_ready.store(true, Ordering::SeqCst);
            Poll::Ready(self.val)
        } else {
            Poll::Pending
        }
    }
}

impl Drop for ScriptFut {
    fn drop(&mut self) {
        if std::thread::current().id() != self.home {
            self.sh.wrong_thread.store(true, Ordering::SeqCst);
        }
        self.sh.drops.fetch_add(1, Ordering::SeqCst);
    }
}

struct StreamShared {
    waker: Mutex<Option<Waker>>,
    queue: Mutex<VecDeque<u32>>,
    ended: AtomicBool,
    polls: Mutex<Vec<u64>>,
}

struct ScriptStream(Arc<StreamShared>);

impl futures::Stream for ScriptStream {
    type Item = u32;
    fn poll_next(self: Pin<&mut Self>, cx: &mut Context<'_>) -> Poll<Option<u32>> {
        let t = sched::tick();
        self.0.polls.lock().unwrap().push(t);
        *self.0.waker.lock().unwrap() = Some(cx.waker().clone());
        sched::harness_yield();
        if let Some(v) = self.0.queue.lock().unwrap().pop_front() {
            return Poll::Ready(Some(v));
        }
        if self.0.ended.load(Ordering::SeqCst) {
            return Poll::Ready(None);
        }
        Poll::Pending
    }
}

#[derive(Debug, Clone)]
enum Rec {
    Wake { task: usize, b: u64, was_complete: bool, exec_alive: bool },
    WakeEnd { b: u64, e: u64 },
    Out { val: u32 },
    Item { val: Option<u32> },
    Push { val: u32 },
    ExecDropped { t: u64 },
    DispEnd { t: u64 },
}

pub const SIG_F7: &str = "C10.drop/future-not-dropped-with-executor";
pub const SIG_F7B: &str = "C10.drop/waker-panics-after-executor-drop";
static STEER_F7: AtomicBool = AtomicBool::new(false);

pub struct Out {
    pub excluded: u64,
    pub viol: Option<Violation>,
    pub nontrivial: bool,
    pub classes: Vec<&'static str>,
    pub branching: Vec<u8>,
    pub infra: Option<String>,
}

pub fn run_sched(case: &Case) -> Out {
    sched::install_hook();
    let n_actors = case.actors.len();
    let ctl = CaseCtl::new(n_actors + 1);
    let loop_idx = n_actors;
    let rec: Arc<Mutex<Vec<Rec>>> = Arc::new(Mutex::new(Vec::new()));
    let n_tasks = if case.stream { 0 } else { case.tasks.clamp(1, 4) as usize };
    let tasks: Vec<Arc<TaskShared>> = (0..n_tasks + 1).map(|_| TaskShared::new()).collect(); // last = extra task from callback
    let stream = Arc::new(StreamShared { waker: Mutex::new(None), queue: Mutex::new(VecDeque::new()), ended: AtomicBool::new(false), polls: Mutex::new(vec![]) });
    let actors_done = Arc::new(AtomicBool::new(false));
    let exec_alive = Arc::new(AtomicBool::new(true));
    let ready = Arc::new(AtomicBool::new(false));
    let result: Arc<Mutex<Option<(usize, bool, Vec<u32>)>>> = Arc::new(Mutex::new(None));
    let mut out = Out { excluded: 0, viol: None, nontrivial: false, classes: vec![], branching: vec![], infra: None };
    let is_stream = case.stream;
    let from_cb = case.schedule_from_cb && !is_stream;
    let steer = STEER_F7.load(Ordering::Relaxed);
    let drop_after = if is_stream || steer { None } else { case.drop_after };
    let sched_first = case.sched_first;
    let push_seq = Arc::new(AtomicU32::new(0));
    if steer && case.drop_after.is_some() && !is_stream {
        out.excluded = 1;
    }
    let actor_panic: Arc<Mutex<Option<String>>> = Arc::new(Mutex::new(None));

    let info = std::thread::scope(|sc| {
        let loop_join;
        {
            let ctl = ctl.clone();
            let rec = rec.clone();
            let tasks = tasks.clone();
            let stream = stream.clone();
            let actors_done = actors_done.clone();
            let exec_alive = exec_alive.clone();
            let ready = ready.clone();
            let result = result.clone();
            loop_join = sc.spawn(move || {
                let home = std::thread::current().id();
                let mut el: EventLoop<'static, ()> = EventLoop::try_new().expect("event loop");
                let handle = el.handle();
                let mut sched_handle: Option<Scheduler<u32>> = None;
                let mut token = None;
                if is_stream {
                    let src = StreamSource::new(ScriptStream(stream.clone())).expect("stream source");
                    let rec2 = rec.clone();
                    handle
                        .insert_source(src, move |item: Option<u32>, _, _| {
                            rec2.lock().unwrap().push(Rec::Item { val: item });
                        })
                        .expect("insert stream");
                } else {
                    let (exec, sch) = executor::<u32>().expect("executor");
                    let rec2 = rec.clone();
                    let sch2 = sch.clone();
                    let extra = tasks[n_tasks].clone();
                    let mut first = true;
                    token = Some(
                        handle
                            .insert_source(exec, move |val: u32, _, _| {
                                rec2.lock().unwrap().push(Rec::Out { val });
                                if from_cb && first {
                                    first = false;
                                    extra.complete.store(true, Ordering::SeqCst); // marks "was scheduled"
                                    let _ = sch2.schedule(ScriptFut { sh: extra.clone(), val: 900, home, immediate: true, _not_send: Default::default() });
                                }
                            })
                            .expect("insert executor"),
                    );
                    for (i, t) in tasks.iter().take(n_tasks).enumerate() {
                        sch.schedule(ScriptFut { sh: t.clone(), val: i as u32, home, immediate: false, _not_send: Default::default() }).expect("schedule");
                    }
                    sched_handle = Some(sch);
                }
                ready.store(true, Ordering::SeqCst);
                let mut disp_no = 0u32;
                ctl.enrolled(loop_idx, || {
                    let mut after = 0;
                    loop {
                        sched::harness_yield();
                        disp_no += 1;
                        el.dispatch(Some(Duration::ZERO), &mut ()).expect("dispatch");
                        rec.lock().unwrap().push(Rec::DispEnd { t: sched::tick() });
                        if let (Some(k), Some(tok)) = (drop_after, token) {
                            if disp_no == k as u32 && exec_alive.load(Ordering::SeqCst) {
                                sched::harness_yield();
                                if sched_first {
                                    sched_handle.take();
                                }
                                // removing the source drops the Executor (the loop holds the only reference)
                                handle.remove(tok);
                                exec_alive.store(false, Ordering::SeqCst);
                                rec.lock().unwrap().push(Rec::ExecDropped { t: sched::tick() });
                            }
                        }
                        if actors_done.load(Ordering::SeqCst) {
                            after += 1;
                            if after >= 2 {
                                break;
                            }
                        }
                        if disp_no >= 80 {
                            break;
                        }
                    }
                });
                let tw = Instant::now();
                while !actors_done.load(Ordering::SeqCst) && tw.elapsed() < Duration::from_secs(20) {
                    std::thread::sleep(Duration::from_micros(50));
                }
                for _ in 0..4 {
                    el.dispatch(Some(Duration::ZERO), &mut ()).expect("dispatch");
                }
                // end of the executor's life (if not dropped earlier): everything must be released by the drop itself
                let mut destroyed_ok = true;
                if let Some(tok) = token {
                    if exec_alive.swap(false, Ordering::SeqCst) {
                        handle.remove(tok);
                    }
                    if let Some(s) = &sched_handle {
                        let probe = TaskShared::new();
                        destroyed_ok = s.schedule(ScriptFut { sh: probe, val: 0, home, immediate: true, _not_send: Default::default() }).is_err();
                    }
                }
                // drop counts are read BEFORE the scheduler handle goes away
                let drops: Vec<u32> = tasks.iter().map(|t| t.drops.load(Ordering::SeqCst)).collect();
                let occupied = el.handle().verif_stats().occupied_slots;
                *result.lock().unwrap() = Some((occupied, destroyed_ok, drops));
                drop(sched_handle);
            });
        }
        while !ready.load(Ordering::SeqCst) {
            std::thread::yield_now();
        }
        let mut joins = vec![];
        for (ai, prog) in case.actors.iter().enumerate() {
            let ctl = ctl.clone();
            let rec = rec.clone();
            let prog = prog.clone();
            let tasks = tasks.clone();
            let stream = stream.clone();
            let exec_alive = exec_alive.clone();
            let push_seq = push_seq.clone();
            let actor_panic = actor_panic.clone();
            joins.push(sc.spawn(move || {
                ctl.enrolled(ai, || {
                    for op in prog {
                        sched::harness_yield();
                        match op {
                            WOp::Wake(t) | WOp::WakeClone(t) | WOp::Complete(t) => {
                                if is_stream {
                                    continue;
                                }
                                let ti = (t as usize) % n_tasks;
                                let w = tasks[ti].waker.lock().unwrap().clone();
                                let Some(w) = w else { continue };
                                let was_complete = tasks[ti].returned_ready.load(Ordering::SeqCst);
                                let alive = exec_alive.load(Ordering::SeqCst);
                                if matches!(op, WOp::Complete(_)) {
                                    tasks[ti].complete.store(true, Ordering::SeqCst);
                                }
                                let b = sched::tick();
                                rec.lock().unwrap().push(Rec::Wake { task: ti, b, was_complete, exec_alive: alive });
                                let r = std::panic::catch_unwind(std::panic::AssertUnwindSafe(|| {
                                    if matches!(op, WOp::WakeClone(_)) {
                                        w.clone().wake();
                                    } else {
                                        w.wake_by_ref();
                                    }
                                }));
                                rec.lock().unwrap().push(Rec::WakeEnd { b, e: sched::tick() });
                                if let Err(p) = r {
                                    let info = crate::panics::take_last().unwrap_or_default();
                                    let _ = p;
                                    *actor_panic.lock().unwrap() = Some(format!("{} at {}:{}", info.message, info.file, info.line));
                                }
                            }
                            WOp::Push => {
                                if !is_stream || stream.ended.load(Ordering::SeqCst) {
                                    continue;
                                }
                                let v = ((ai as u32) << 16) | push_seq.fetch_add(1, Ordering::SeqCst);
                                {
                                    // push and record under one lock so that the recorded order is the queue order
                                    let mut q = stream.queue.lock().unwrap();
                                    q.push_back(v);
                                    rec.lock().unwrap().push(Rec::Push { val: v });
                                }
                                let w = stream.waker.lock().unwrap().clone();
                                if let Some(w) = w {
                                    w.wake();
                                }
                            }
                            WOp::End => {
                                if !is_stream {
                                    continue;
                                }
                                stream.ended.store(true, Ordering::SeqCst);
                                let w = stream.waker.lock().unwrap().clone();
                                if let Some(w) = w {
                                    w.wake();
                                }
                            }
                        }
                    }
                })
            }));
        }
        let ctl2 = ctl.clone();
        let actors_done2 = actors_done.clone();
        let watcher = sc.spawn(move || {
            let t0 = Instant::now();
            loop {
                if (0..n_actors).all(|i| ctl2.slots[i].state.load(Ordering::SeqCst) == sched::FINISHED) || t0.elapsed() > Duration::from_secs(25) {
                    actors_done2.store(true, Ordering::SeqCst);
                    return;
                }
                std::thread::sleep(Duration::from_micros(50));
            }
        });
        let info = sched::drive(&ctl, &case.schedule, case.exact, 12_000, Duration::from_millis(1500));
        if info.end != RunEnd::AllFinished {
            sched::release_all(&ctl);
        }
        let _ = watcher.join();
        for j in joins {
            let _ = j.join();
        }
        let _ = loop_join.join();
        info
    });
    out.branching = info.branching.clone();
    if info.end != RunEnd::AllFinished {
        out.infra = Some(format!("executor schedule ended {:?} after {} steps", info.end, info.steps));
        return out;
    }
    let Some((occupied, destroyed_ok, drops)) = result.lock().unwrap().clone() else {
        out.infra = Some("loop thread produced no result".into());
        return out;
    };
    let recs = rec.lock().unwrap().clone();
    let log = ctl.log.lock().unwrap().clone();

    if is_stream {
        let pushed: Vec<u32> = recs.iter().filter_map(|r| if let Rec::Push { val } = r { Some(*val) } else { None }).collect();
        let items: Vec<Option<u32>> = recs.iter().filter_map(|r| if let Rec::Item { val } = r { Some(*val) } else { None }).collect();
        let ended = stream.ended.load(Ordering::SeqCst);
        let got: Vec<u32> = items.iter().filter_map(|i| *i).collect();
        if got != pushed {
            out.viol = Some(Violation::new("C10.stream", format!("stream items delivered {got:x?}, pushed {pushed:x?}")));
            return out;
        }
        let nones = items.iter().filter(|i| i.is_none()).count();
        if ended {
            if nones != 1 || items.last() != Some(&None) {
                out.viol = Some(Violation::new("C10.stream", format!("ended stream delivered {nones} None events (items {items:x?})")));
                return out;
            }
            if occupied != 0 {
                out.viol = Some(Violation::new("C10.stream", "stream source still in the loop after its end".to_string()));
                return out;
            }
        } else {
            if nones != 0 {
                out.viol = Some(Violation::new("C10.stream", "None delivered although the stream has not ended".to_string()));
                return out;
            }
            if occupied != 1 {
                out.viol = Some(Violation::new("C10.stream", "stream source left the loop before its end".to_string()));
                return out;
            }
        }
        out.classes.push("stream");
        let interleaved = log.windows(2).any(|w| w[0].thread != w[1].thread && w[0].site != sched::SITE_GRANT && w[1].site != sched::SITE_GRANT);
        out.nontrivial = interleaved && !pushed.is_empty();
        return out;
    }

    if let Some(m) = actor_panic.lock().unwrap().clone() {
        out.viol = Some(Violation::new("C10.drop", format!("waker.wake() on another thread panicked after the executor was dropped: {m}")).with_sig(SIG_F7B));
        return out;
    }
    let exec_dropped_at = recs.iter().find_map(|r| if let Rec::ExecDropped { t } = r { Some(*t) } else { None });
    // (3) thread affinity
    for (i, t) in tasks.iter().enumerate() {
        if t.wrong_thread.load(Ordering::SeqCst) {
            out.viol = Some(Violation::new("C10.thread", format!("future {i} was polled or dropped on a thread other than the loop thread")));
            return out;
        }
    }
    // (1) every scheduled future is polled (unless the executor was dropped before it got a chance)
    for (i, t) in tasks.iter().take(n_tasks).enumerate() {
        if t.polls.lock().unwrap().is_empty() && exec_dropped_at.is_none() {
            out.viol = Some(Violation::new("C10.first_poll", format!("future {i} was scheduled but never polled")));
            return out;
        }
    }
    // (2) no lost wake
    for r in &recs {
        if let Rec::Wake { task, b, was_complete: false, exec_alive: true } = r {
            if tasks[*task].returned_ready.load(Ordering::SeqCst) && tasks[*task].polls.lock().unwrap().iter().any(|p| *p > *b) {
                continue;
            }
            let polled_after = tasks[*task].polls.lock().unwrap().iter().any(|p| *p > *b);
            // the wake may have raced the task's completion or the executor's drop: both owe nothing
            let completed_before_wake_landed = tasks[*task].returned_ready.load(Ordering::SeqCst);
            let dropped = exec_dropped_at.is_some();
            if !polled_after && !completed_before_wake_landed && !dropped {
                out.viol = Some(Violation::new(
                    "C10.wake",
                    format!("wake of pending future {task} begun at tick {b} was never followed by a poll of it (polls at {:?})", tasks[*task].polls.lock().unwrap()),
                ));
                return out;
            }
        }
    }
    // (4) results exactly once
    let outs: Vec<u32> = recs.iter().filter_map(|r| if let Rec::Out { val } = r { Some(*val) } else { None }).collect();
    for (i, t) in tasks.iter().enumerate() {
        let val = if i == n_tasks { 900 } else { i as u32 };
        let n = outs.iter().filter(|v| **v == val).count();
        let ready = t.returned_ready.load(Ordering::SeqCst);
        if ready && n != 1 && exec_dropped_at.is_none() {
            out.viol = Some(Violation::new("C10.result", format!("future {i} returned Ready({val}) and its output was delivered {n} times")));
            return out;
        }
        if n > 1 || (!ready && n > 0) {
            out.viol = Some(Violation::new("C10.result", format!("output {val} delivered {n} times, future returned Ready: {ready}")));
            return out;
        }
    }
    if outs.iter().any(|v| *v != 900 && *v as usize >= n_tasks) {
        out.viol = Some(Violation::new("C10.result", format!("unknown outputs delivered: {outs:?}")));
        return out;
    }
    // (6) after the executor is gone
    if !destroyed_ok {
        out.viol = Some(Violation::new("C10.drop", "schedule() after the executor was dropped did not return ExecutorDestroyed".to_string()));
        return out;
    }
    for (i, d) in drops.iter().enumerate() {
        let scheduled = i < n_tasks || tasks[i].complete.load(Ordering::SeqCst);
        if scheduled && *d != 1 {
            // F7's narrow shape: some waker call was in flight when the executor was dropped
            let in_flight = exec_dropped_at.map(|t| recs.iter().any(|r| matches!(r, Rec::WakeEnd { b, e } if *b < t && *e > t))).unwrap_or(false);
            let sig = if *d > 1 {
                "C10.drop/double-drop"
            } else if in_flight {
                SIG_F7
            } else {
                "C10.drop/future-not-dropped"
            };
            out.viol = Some(
                Violation::new(
                    "C10.drop",
                    format!("future {i} dropped {d} times by the time the executor was dropped (a waker call in flight at that moment: {in_flight}; scheduler handle alive: {})", !sched_first),
                )
                .with_sig(sig),
            );
            return out;
        }
    }
    if occupied != 0 {
        out.viol = Some(Violation::new("C10.drop", "executor slot still occupied after removal".to_string()));
        return out;
    }

    // evidence
    let mut window = false;
    let mut clear: Option<u64> = None;
    for l in &log {
        if l.thread == loop_idx && l.site == calloop::verif::Site::EX_CLEAR_PRE as u32 {
            clear = Some(l.tick);
        }
    }
    let _ = clear;
    let disp_ends: Vec<u64> = recs.iter().filter_map(|r| if let Rec::DispEnd { t } = r { Some(*t) } else { None }).collect();
    for l in log.iter().filter(|l| l.thread == loop_idx && l.site == calloop::verif::Site::EX_CLEAR_PRE as u32) {
        let end = disp_ends.iter().find(|t| **t > l.tick).copied().unwrap_or(u64::MAX);
        if log.iter().any(|a| a.thread != loop_idx && a.site != sched::SITE_GRANT && a.site != sched::SITE_HARNESS && a.tick > l.tick && a.tick < end) {
            window = true;
        }
    }
    if window {
        out.classes.push("wake_site_inside_executor_drain_window");
    }
    if let Some(t) = exec_dropped_at {
        out.classes.push("executor_dropped_midway");
        if recs.iter().any(|r| matches!(r, Rec::Wake { b, .. } if *b < t)) && log.iter().any(|l| l.thread != loop_idx && l.tick > t) {
            out.classes.push("wake_in_flight_around_executor_drop");
            window = true;
        }
    }
    if from_cb {
        out.classes.push("schedule_from_callback");
    }
    out.nontrivial = window;
    out
}

pub fn run_case(case: &Case) -> CaseOutcome {
    let mut info = CaseInfo::default();
    info.fingerprint = fingerprint(case);
    let mut out = run_sched(case);
    if out.infra.is_some() {
        out = run_sched(case);
        if let Some(m) = out.infra {
            panic!("sched infrastructure: {m}");
        }
    }
    info.nontrivial = out.nontrivial;
    info.classes = out.classes;
    info.excluded_known = out.excluded;
    (info, out.viol)
}

// ------------------------------------------------------------------------------------------ batch (single thread)

#[derive(Serialize, Deserialize, Debug, Clone, Hash)]
pub struct BatchCase {
    pub n: u32,
    /// every k-th future schedules another immediately-ready future from inside its poll (0 = none)
    pub nested_every: u32,
    pub from_cb: bool,
    /// one more future that yields this many times (wakes its own waker and returns Pending) before it completes:
    /// every one of its polls is a runnable of the batch like any other - the batch per dispatch stays bounded
    #[serde(default)]
    pub yields: u32,
    /// this many (0..=8) futures whose single poll takes 3 ms are scheduled first: a batch that takes long is still a
    /// batch - everything queued behind them is polled and delivered too
    #[serde(default)]
    pub slow: u8,
    /// this many futures are scheduled before everything else whose first poll parks the waker and returns Pending
    /// (they finish at their second poll, after the harness has woken them): a batch in which nothing finishes is a
    /// batch like any other - whatever is queued behind it is still polled without any external wake-up
    #[serde(default)]
    pub pending_first: u32,
}

struct Parked(bool, std::sync::Arc<std::sync::Mutex<Vec<std::task::Waker>>>, u32);
impl Future for Parked {
    type Output = u32;
    fn poll(mut self: Pin<&mut Self>, cx: &mut Context<'_>) -> Poll<u32> {
        BATCH_POLLS.with(|p| p.set(p.get() + 1));
        if self.0 {
            self.0 = false;
            self.1.lock().unwrap().push(cx.waker().clone());
            Poll::Pending
        } else {
            Poll::Ready(self.2)
        }
    }
}

struct Slow(u32);
impl Future for Slow {
    type Output = u32;
    fn poll(self: Pin<&mut Self>, _: &mut Context<'_>) -> Poll<u32> {
        BATCH_POLLS.with(|p| p.set(p.get() + 1));
        std::thread::sleep(Duration::from_millis(3));
        Poll::Ready(self.0)
    }
}

thread_local! {
    /// polls of the batch family's futures since the last reset (the family runs on one thread)
    static BATCH_POLLS: std::cell::Cell<u32> = const { std::cell::Cell::new(0) };
}

struct Yielder(u32, u32);
impl Future for Yielder {
    type Output = u32;
    fn poll(mut self: Pin<&mut Self>, cx: &mut Context<'_>) -> Poll<u32> {
        BATCH_POLLS.with(|p| p.set(p.get() + 1));
        if self.0 > 0 {
            self.0 -= 1;
            cx.waker().wake_by_ref();
            Poll::Pending
        } else {
            Poll::Ready(self.1)
        }
    }
}

struct Ready(u32, Option<(Scheduler<u32>, u32)>);
impl Future for Ready {
    type Output = u32;
    fn poll(mut self: Pin<&mut Self>, _: &mut Context<'_>) -> Poll<u32> {
        BATCH_POLLS.with(|p| p.set(p.get() + 1));
        if let Some((s, v)) = self.1.take() {
            let _ = s.schedule(Ready(v, None));
        }
        Poll::Ready(self.0)
    }
}

fn run_batch(c: &BatchCase) -> CaseOutcome {
    let mut info = CaseInfo::default();
    info.fingerprint = fingerprint(c);
    info.nontrivial = c.n >= 1024;
    info.classes.push(if c.n >= 1024 { "queue_at_or_above_batch_limit" } else { "queue_below_batch_limit" });
    let mut el: EventLoop<'static, Vec<u32>> = EventLoop::try_new().expect("loop");
    let (exec, sch) = executor::<u32>().expect("executor");
    let sch_cb = sch.clone();
    let from_cb = c.from_cb;
    let mut cb_scheduled = false;
    el.handle()
        .insert_source(exec, move |v: u32, _, got: &mut Vec<u32>| {
            got.push(v);
            if from_cb && !cb_scheduled {
                cb_scheduled = true;
                let _ = sch_cb.schedule(Ready(2_000_000, None));
            }
        })
        .expect("insert");
    let mut want: Vec<u32> = vec![];
    let parked = std::sync::Arc::new(std::sync::Mutex::new(Vec::new()));
    let mut want_late: Vec<u32> = vec![];
    if c.pending_first > 0 {
        info.classes.push(if c.pending_first >= 1024 { "whole_batch_of_futures_that_stay_pending" } else { "futures_that_stay_pending_in_the_batch" });
    }
    for k in 0..c.pending_first {
        sch.schedule(Parked(true, parked.clone(), 5_000_000 + k)).expect("schedule");
        want_late.push(5_000_000 + k);
    }
    if c.slow > 0 {
        info.classes.push("slow_polls_in_the_batch");
    }
    for k in 0..c.slow.min(8) as u32 {
        sch.schedule(Slow(4_000_000 + k)).expect("schedule");
        want.push(4_000_000 + k);
    }
    for i in 0..c.n {
        let nested = if c.nested_every > 0 && i % c.nested_every == 0 { Some((sch.clone(), 1_000_000 + i)) } else { None };
        if nested.is_some() {
            want.push(1_000_000 + i);
        }
        sch.schedule(Ready(i, nested)).expect("schedule");
        want.push(i);
    }
    if from_cb && (c.n > 0 || c.yields > 0 || c.slow > 0) {
        // (the callback schedules it the first time it runs, i.e. as soon as anything completes)
        want.push(2_000_000);
    }
    if c.yields > 0 {
        info.classes.push("self_yielding_future");
        sch.schedule(Yielder(c.yields, 3_000_000)).expect("schedule");
        want.push(3_000_000);
    }
    let mut got: Vec<u32> = vec![];
    let rounds = (want.len() as u32 + c.yields + c.pending_first) / 1024 + 3;
    let mut most_polls = 0u32;
    for _ in 0..rounds {
        BATCH_POLLS.with(|p| p.set(0));
        el.dispatch(Some(Duration::ZERO), &mut got).expect("dispatch");
        most_polls = most_polls.max(BATCH_POLLS.with(|p| p.get()));
    }
    if c.pending_first > 0 {
        let polled = parked.lock().unwrap().len() as u32;
        let mut a = got.clone();
        a.sort_unstable();
        let mut w = want.clone();
        w.sort_unstable();
        if polled != c.pending_first || a != w {
            let missing = w.iter().filter(|v| a.binary_search(v).is_err()).count();
            return (
                info,
                Some(Violation::new(
                    "C10.batch",
                    format!(
                        "{} futures that stay pending at their first poll scheduled ahead of {} ready ones: after {} dispatches without external wake-up {} of the former were polled and {} outputs of the latter are missing",
                        c.pending_first,
                        want.len(),
                        rounds,
                        polled,
                        missing
                    ),
                )),
            );
        }
        // now wake them (from outside a dispatch): each completes at its second poll
        let ws: Vec<std::task::Waker> = parked.lock().unwrap().drain(..).collect();
        for w in ws {
            w.wake();
        }
        want.extend(want_late.iter().copied());
        for _ in 0..(c.pending_first / 1024 + 3) {
            BATCH_POLLS.with(|p| p.set(0));
            el.dispatch(Some(Duration::ZERO), &mut got).expect("dispatch");
            most_polls = most_polls.max(BATCH_POLLS.with(|p| p.get()));
        }
    }
    if most_polls > 1024 {
        return (
            info,
            Some(Violation::new(
                "C10.batch",
                format!("one dispatch polled {most_polls} runnables ({} ready futures, one future yielding {} times): the batch per dispatch is bounded by 1024", c.n, c.yields),
            )
            .with_sig("C10.batch/unbounded")),
        );
    }
    let mut a = got.clone();
    a.sort_unstable();
    want.sort_unstable();
    let viol = if a != want {
        let missing = want.iter().filter(|v| a.binary_search(v).is_err()).count();
        Some(Violation::new(
            "C10.batch",
            format!("{} of {} outputs delivered after {} dispatches without external wake-up ({} missing, {} extra)", got.len(), want.len(), rounds, missing, a.len() as i64 - (want.len() - missing) as i64),
        ))
    } else {
        None
    };
    (info, viol)
}

fn dfs(ctx: &CheckCtx, base: Case, max: u64) -> Option<Found> {
    let mut found = None;
    let name = format!("dfs:tasks{}:{}", base.tasks, serde_json::to_string(&base.actors).unwrap_or_default());
    let mut nontrivial = 0u64;
    let (count, complete) = sched::dfs_all(max, |prefix| {
        let mut case = base.clone();
        case.schedule = prefix.to_vec();
        case.exact = true;
        let out = run_sched(&case);
        if out.nontrivial {
            nontrivial += 1;
        }
        if let Some(v) = out.viol {
            found = Some(Found { sub: "sched".into(), violation: v, case: serde_json::to_value(&case).unwrap(), replay_path: None });
            return (out.branching, true);
        }
        (out.branching, out.infra.is_some())
    });
    ctx.col.record_enumerated(&name, count, nontrivial);
    if complete {
        ctx.col.exhaustive(&format!("all {count} schedules of {name}"));
    } else {
        ctx.col.note(format!("{name}: DFS stopped after {count} schedules (bound {max})"));
    }
    found
}

// ------------------------------------------------------------------------------------------ stream bursts

/// `n` items ready at once in a StreamSource (a finite ready stream, or a burst pushed into a futures channel whose
/// sender then stays quiet or is dropped): every item is delivered in order without any further wake-up.
#[derive(Serialize, Deserialize, Debug, Clone, Hash)]
pub struct StreamBurst {
    pub n: u32,
    /// 0 = stream::iter (ends by itself), 1 = unbounded channel, sender dropped after the burst, 2 = sender kept
    pub how: u8,
}

pub fn run_stream_burst(c: &StreamBurst) -> CaseOutcome {
    let mut info = CaseInfo { fingerprint: fingerprint(c), ..CaseInfo::default() };
    info.classes.push("stream_burst");
    info.nontrivial = c.n > 1024;
    let n = c.n.min(5000);
    #[derive(Default)]
    struct Got {
        items: Vec<u32>,
        ends: u32,
        after_end: u32,
    }
    let mut el: EventLoop<'static, Got> = EventLoop::try_new().expect("event loop");
    let cb = |ev: Option<u32>, _: &mut (), g: &mut Got| match ev {
        Some(v) => {
            if g.ends > 0 {
                g.after_end += 1;
            }
            g.items.push(v)
        }
        None => g.ends += 1,
    };
    let mut keep_tx = None;
    match c.how % 3 {
        0 => {
            let st = futures::stream::iter(0..n);
            el.handle().insert_source(StreamSource::new(st).expect("StreamSource"), cb).expect("insert stream");
        }
        how => {
            let (tx, rx) = futures::channel::mpsc::unbounded::<u32>();
            el.handle().insert_source(StreamSource::new(rx).expect("StreamSource"), cb).expect("insert stream");
            // first poll (stream pending), then the burst arrives between two dispatches
            let mut g0 = Got::default();
            el.dispatch(Some(Duration::ZERO), &mut g0).expect("dispatch");
            for i in 0..n {
                tx.unbounded_send(i).expect("send");
            }
            if how == 1 {
                drop(tx);
            } else {
                keep_tx = Some(tx);
            }
        }
    }
    let mut got = Got::default();
    let rounds = n / 1024 + 4;
    for _ in 0..rounds {
        el.dispatch(Some(Duration::ZERO), &mut got).expect("dispatch");
    }
    let occupied = el.handle().verif_stats().occupied_slots;
    let ends_expected = if c.how % 3 == 2 { 0 } else { 1 };
    let mut viol = None;
    if got.items.len() as u32 != n || got.items.iter().enumerate().any(|(i, v)| *v != i as u32) {
        viol = Some(Violation::new(
            "C10.stream",
            format!("{} of {n} ready stream items were delivered (in order: {}) after {rounds} dispatches without any further wake-up (how={})", got.items.len(), got.items.iter().enumerate().all(|(i, v)| *v == i as u32), c.how % 3),
        ));
    } else if got.ends != ends_expected || got.after_end > 0 {
        viol = Some(Violation::new("C10.stream", format!("stream end delivered {} time(s), expected {ends_expected}; {} item(s) after it", got.ends, got.after_end)));
    } else if occupied != (1 - ends_expected) as usize {
        viol = Some(Violation::new("C10.stream", format!("loop holds {occupied} sources after the stream {}", if ends_expected == 1 { "ended" } else { "went quiet with its sender alive" })));
    }
    drop(keep_tx);
    (info, viol)
}

// ------------------------------------------------------------------------------------------ hist

fn hist_profile() -> Vec<(&'static str, Profile, u32, u32)> {
    let mut p = Profile::base();
    p.k_exec = 8;
    p.k_ping = 2;
    p.k_chan = 0;
    p.k_timer = 1;
    p.k_gen = 1;
    p.o_exec = 16;
    p.o_token = 10;
    p.o_insert = 6;
    p.o_cause = 4;
    p.o_handle = 0;
    p.post_pct = 10;
    p.max_ops = 35;
    vec![("hist", p, 20_000, 300_000)]
}

pub static HIST: HistProp = HistProp {
    id: "C10",
    meta: &META,
    profiles: hist_profile,
    nontrivial: |f| f.tasks_scheduled > 0 && (f.task_wakes > 0 || f.tasks_scheduled_in_cb > 0 || f.in_batch_mutation > 0),
    classes: |f, c| {
        if f.tasks_scheduled > 0 {
            c.push("hist_task_scheduled");
        }
    },
    epoll_each_step: false,
    workers: 8,
    table: None,
    extra: None,
};

// ------------------------------------------------------------------------------------------ free-running stress
//
// Waker threads run freely (released together by a spin barrier) against the dispatching loop: real concurrency,
// for races whose window holds no yield site. Oracle on CLOCK_MONOTONIC instants and end state.

#[derive(Serialize, Deserialize, Debug, Clone, Hash)]
pub struct FreeCase {
    pub tasks: u8,
    pub actors: Vec<Vec<WOp>>,
    pub schedule_from_cb: bool,
}

fn free_strategy() -> impl Strategy<Value = FreeCase> {
    let exec_op = prop_oneof![4 => (0u8..4).prop_map(WOp::Wake), 2 => (0u8..4).prop_map(WOp::WakeClone), 3 => (0u8..4).prop_map(WOp::Complete)];
    (1u8..=4, proptest::collection::vec(proptest::collection::vec(exec_op, 1..=6), 2..=3), any::<bool>())
        .prop_map(|(tasks, actors, schedule_from_cb)| FreeCase { tasks, actors, schedule_from_cb })
}

struct FreeShared {
    waker: Mutex<Option<Waker>>,
    complete: AtomicBool,
    finished: AtomicBool,
    polls: Mutex<Vec<Instant>>,
    drops: AtomicU32,
    wrong_thread: AtomicBool,
}

struct FreeFut {
    sh: Arc<FreeShared>,
    val: u32,
    home: std::thread::ThreadId,
    immediate: bool,
    _not_send: std::rc::Rc<()>,
}

impl Future for FreeFut {
    type Output = u32;
    fn poll(self: Pin<&mut Self>, cx: &mut Context<'_>) -> Poll<u32> {
        if std::thread::current().id() != self.home {
            self.sh.wrong_thread.store(true, Ordering::SeqCst);
        }
        self.sh.polls.lock().unwrap().push(Instant::now());
        *self.sh.waker.lock().unwrap() = Some(cx.waker().clone());
        if self.immediate || self.sh.complete.load(Ordering::SeqCst) {
            self.sh.finished.store(true, Ordering::SeqCst);
            Poll::Ready(self.val)
        } else {
            Poll::Pending
        }
    }
}

impl Drop for FreeFut {
    fn drop(&mut self) {
        if std::thread::current().id() != self.home {
            self.sh.wrong_thread.store(true, Ordering::SeqCst);
        }
        self.sh.drops.fetch_add(1, Ordering::SeqCst);
    }
}

pub fn run_free(case: &FreeCase) -> CaseOutcome {
    // free-running threads: not a pure function of the case; while a failure is being confirmed the case is repeated
    let mut last = run_free_once(case);
    let (reps, budget, t0) = (crate::driver::free_reps(), crate::driver::free_budget(), std::time::Instant::now());
    let mut n = 1;
    while last.1.is_none() && (n < reps || t0.elapsed() < budget) {
        last = run_free_once(case);
        n += 1;
    }
    last
}

fn run_free_once(case: &FreeCase) -> CaseOutcome {
    use std::sync::atomic::AtomicUsize;
    let mut info = CaseInfo { fingerprint: fingerprint(case), ..CaseInfo::default() };
    let n_tasks = case.tasks.clamp(1, 4) as usize;
    let n = case.actors.len().clamp(1, 3);
    struct Data {
        out: Vec<u32>,
        sched: Option<Scheduler<u32>>,
        extra: Option<Arc<FreeShared>>,
        home: std::thread::ThreadId,
    }
    let home = std::thread::current().id();
    let mut el: EventLoop<'static, Data> = EventLoop::try_new().expect("event loop");
    let (exec, sched) = executor::<u32>().expect("executor");
    let from_cb = case.schedule_from_cb;
    let tok = el
        .handle()
        .insert_source(exec, move |val: u32, _: &mut (), d: &mut Data| {
            d.out.push(val);
            if from_cb && d.extra.is_none() {
                // schedule one more (immediately ready) future from inside the executor's callback
                let sh = Arc::new(FreeShared { waker: Mutex::new(None), complete: AtomicBool::new(true), finished: AtomicBool::new(false), polls: Mutex::new(vec![]), drops: AtomicU32::new(0), wrong_thread: AtomicBool::new(false) });
                d.extra = Some(sh.clone());
                if let Some(s) = &d.sched {
                    let _ = s.schedule(FreeFut { sh, val: 9999, home: d.home, immediate: true, _not_send: std::rc::Rc::new(()) });
                }
            }
        })
        .expect("insert executor");
    let tasks: Vec<Arc<FreeShared>> = (0..n_tasks)
        .map(|_| Arc::new(FreeShared { waker: Mutex::new(None), complete: AtomicBool::new(false), finished: AtomicBool::new(false), polls: Mutex::new(vec![]), drops: AtomicU32::new(0), wrong_thread: AtomicBool::new(false) }))
        .collect();
    for (i, t) in tasks.iter().enumerate() {
        sched.schedule(FreeFut { sh: t.clone(), val: 100 + i as u32, home, immediate: false, _not_send: std::rc::Rc::new(()) }).expect("schedule");
    }
    let mut data = Data { out: vec![], sched: Some(sched.clone()), extra: None, home };
    // first poll of every task: wakers are published
    el.dispatch(Some(Duration::ZERO), &mut data).expect("dispatch");
    let go = Arc::new(AtomicUsize::new(0));
    let done = Arc::new(AtomicUsize::new(0));
    // (task, wake began, task was already told to complete)
    let wakes: Arc<Mutex<Vec<(usize, Instant)>>> = Arc::new(Mutex::new(Vec::new()));
    std::thread::scope(|sc| {
        for prog in case.actors.iter().take(n) {
            let go = go.clone();
            let done = done.clone();
            let wakes = wakes.clone();
            let tasks = tasks.clone();
            let prog = prog.clone();
            sc.spawn(move || {
                go.fetch_add(1, Ordering::SeqCst);
                while go.load(Ordering::SeqCst) < n + 1 {
                    std::hint::spin_loop();
                }
                for op in prog {
                    let (t, by_clone, complete) = match op {
                        WOp::Wake(t) => (t, false, false),
                        WOp::WakeClone(t) => (t, true, false),
                        WOp::Complete(t) => (t, false, true),
                        _ => continue,
                    };
                    let ti = t as usize % tasks.len();
                    if complete {
                        tasks[ti].complete.store(true, Ordering::SeqCst);
                    }
                    let w = tasks[ti].waker.lock().unwrap().clone();
                    if let Some(w) = w {
                        let b = Instant::now();
                        if by_clone {
                            w.clone().wake();
                        } else {
                            w.wake_by_ref();
                        }
                        wakes.lock().unwrap().push((ti, b));
                    }
                }
                done.fetch_add(1, Ordering::SeqCst);
            });
        }
        while go.load(Ordering::SeqCst) < n {
            std::hint::spin_loop();
        }
        go.fetch_add(1, Ordering::SeqCst);
        let t0 = Instant::now();
        while done.load(Ordering::SeqCst) < n && t0.elapsed() < Duration::from_secs(20) {
            el.dispatch(Some(Duration::ZERO), &mut data).expect("dispatch");
        }
    });
    // every waker thread has finished: whatever was woken has a pending wake-up
    for _ in 0..4 {
        el.dispatch(Some(Duration::ZERO), &mut data).expect("dispatch");
    }
    let wakes = wakes.lock().unwrap().clone();
    info.nontrivial = n >= 2 && !wakes.is_empty();
    info.classes.push("free_running");
    info.counters.push(("free_wakes", wakes.len() as u64));
    let mut viol = None;
    for (i, t) in tasks.iter().enumerate() {
        let polls = t.polls.lock().unwrap().clone();
        let told = t.complete.load(Ordering::SeqCst);
        let delivered = data.out.iter().filter(|v| **v == 100 + i as u32).count();
        if t.wrong_thread.load(Ordering::SeqCst) {
            viol = Some(Violation::new("C10.thread", format!("free-running: task {i} was polled or dropped off the loop thread")));
            break;
        }
        if told {
            // Complete(t) stored the flag and then woke: the task must have finished and delivered its value once
            if wakes.iter().any(|(ti, _)| *ti == i) && delivered != 1 {
                viol = Some(Violation::new(
                    if delivered == 0 { "C10.wake" } else { "C10.result" },
                    format!("free-running: task {i} was completed and woken, polled {} times, its value was delivered {delivered} times after every waker thread finished and 4 more dispatches", polls.len()),
                ));
                break;
            }
        } else {
            if delivered != 0 {
                viol = Some(Violation::new("C10.result", format!("free-running: task {i} never completed but its value was delivered {delivered} times")));
                break;
            }
            if let Some((_, b)) = wakes.iter().find(|(ti, b)| *ti == i && !polls.iter().any(|p| p >= b)) {
                let _ = b;
                viol = Some(Violation::new("C10.wake", format!("free-running: a wake of pending task {i} was never followed by a poll that started after it began ({} polls, {} wakes in the case)", polls.len(), wakes.len())));
                break;
            }
        }
    }
    if viol.is_none() && from_cb && !data.out.is_empty() && !data.out.contains(&9999) {
        viol = Some(Violation::new("C10.first_poll", "free-running: a future scheduled from the executor's callback never produced its value".to_string()));
    }
    // executor gone: every future dropped exactly once, schedule() refuses
    data.sched = None;
    el.handle().remove(tok);
    if viol.is_none() {
        for (i, t) in tasks.iter().enumerate() {
            let d = t.drops.load(Ordering::SeqCst);
            if d != 1 {
                viol = Some(Violation::new("C10.drop", format!("free-running: future {i} dropped {d} times by the time the executor was removed and dropped (no wake in flight: all waker threads joined)")));
                break;
            }
        }
        if viol.is_none() && sched.schedule(async { 1u32 }).is_ok() {
            viol = Some(Violation::new("C10.drop", "free-running: schedule() succeeded after the executor was dropped".to_string()));
        }
    }
    (info, viol)
}

pub fn check(ctx: &CheckCtx) -> Option<Found> {
    STEER_F7.store(false, Ordering::SeqCst);
    if let Some(f) = ctx.run_replays::<Case, _>("sched", run_case) {
        return Some(f);
    }
    STEER_F7.store((ctx.known_open(SIG_F7) || ctx.known_open(SIG_F7B)) && std::env::var("VERIF_NO_STEER").is_err(), Ordering::SeqCst);
    if let Some(f) = ctx.run_replays::<BatchCase, _>("batch", run_batch) {
        return Some(f);
    }
    if let Some(f) = ctx.run_replays::<FreeCase, _>("free", run_free) {
        return Some(f);
    }
    let t = ctx.tier;
    let child = crate::ship::is_child();
    // (the ship-profile child runs a short schedule search only)
    if let Some(f) = ctx.search("sched", case_strategy(), if child { 800 } else { t.pick(8000, 150_000) }, 6, None, run_case) {
        return Some(f);
    }
    if let Some(f) = ctx.search("free", free_strategy(), if child { 300 } else { t.pick(3_000, 100_000) }, 4, None, run_free) {
        return Some(f);
    }
    {
        if let Some(f) = ctx.run_replays::<crate::hist::ops::HistCase, _>("hist", |c| run_case_for(&HIST, c)) {
            return Some(f);
        }
        let (name, profile, q, th) = hist_profile().remove(0);
        if let Some(f) = ctx.search_with(name, || crate::hist::ops::case_strategy(&profile), t.pick(q, th), 8, None, |c| run_case_for(&HIST, c)) {
            return Some(f);
        }
    }
    for n in [0u32, 1, 2, 1023, 1024, 1025, 2047, 2048, 2100, 3100] {
        for (nested_every, from_cb) in [(0u32, false), (1, false), (7, true)] {
            let c = BatchCase { n, nested_every, from_cb, yields: if nested_every == 1 { 0 } else if from_cb { 2500 } else { 1100 }, slow: if n <= 2 { 4 } else { 0 }, pending_first: 0 };
            let (info, v) = run_batch(&c);
            ctx.col.record(&info, || serde_json::to_value(&c).unwrap());
            if let Some(v) = v {
                return Some(Found { sub: "batch".into(), violation: v, case: serde_json::to_value(&c).unwrap(), replay_path: None });
            }
        }
    }
    for pending_first in [1u32, 1023, 1024, 1025, 1100, 2048, 2100] {
        for (n, nested_every, from_cb) in [(0u32, 0u32, false), (76, 0, false), (1025, 7, true)] {
            let c = BatchCase { n, nested_every, from_cb, yields: 0, slow: 0, pending_first };
            let (info, v) = run_batch(&c);
            ctx.col.record(&info, || serde_json::to_value(&c).unwrap());
            if let Some(v) = v {
                return Some(Found { sub: "batch".into(), violation: v, case: serde_json::to_value(&c).unwrap(), replay_path: None });
            }
        }
    }
    if let Some(f) = ctx.run_replays::<StreamBurst, _>("stream_burst", run_stream_burst) {
        return Some(f);
    }
    for n in [0u32, 1, 2, 1023, 1024, 1025, 2048, 2049, 3000] {
        for how in 0u8..3 {
            let c = StreamBurst { n, how };
            let (info, v) = run_stream_burst(&c);
            ctx.col.record(&info, || serde_json::to_value(&c).unwrap());
            if let Some(v) = v {
                return Some(Found { sub: "stream_burst".into(), violation: v, case: serde_json::to_value(&c).unwrap(), replay_path: None });
            }
        }
    }
    let sb = (0u32..3300, 0u8..3).prop_map(|(n, how)| StreamBurst { n, how });
    if let Some(f) = ctx.search("stream_burst", sb, t.pick(150, 3000), 8, None, run_stream_burst) {
        return Some(f);
    }
    let bs = (0u32..3300, prop_oneof![Just(0u32), 1u32..50], any::<bool>(), prop_oneof![2 => Just(0u32), 1 => 1u32..3000], prop_oneof![5 => Just(0u8), 1 => 1u8..=6], prop_oneof![2 => Just(0u32), 1 => 1u32..2600]).prop_map(|(n, nested_every, from_cb, yields, slow, pending_first)| BatchCase { n, nested_every, from_cb, yields, slow, pending_first });
    if let Some(f) = ctx.search("batch", bs, t.pick(200, 5000), 8, None, run_batch) {
        return Some(f);
    }
    if t == Tier::Thorough {
        let base = Case { stream: false, tasks: 1, actors: vec![vec![WOp::Wake(0), WOp::Complete(0)]], schedule: vec![], schedule_from_cb: false, drop_after: None, sched_first: false, exact: true };
        if let Some(f) = dfs(ctx, base, 100_000) {
            return Some(f);
        }
    }
    None
}

pub fn replay(_ctx: &CheckCtx, sub: &str, case: serde_json::Value) -> Result<Option<Violation>, String> {
    if sub == "batch" {
        let c: BatchCase = serde_json::from_value(case).map_err(|e| e.to_string())?;
        return Ok(run_batch(&c).1);
    }
    if sub == "free" {
        let c: FreeCase = serde_json::from_value(case).map_err(|e| e.to_string())?;
        return Ok(run_free(&c).1);
    }
    if sub == "stream_burst" {
        let c: StreamBurst = serde_json::from_value(case).map_err(|e| e.to_string())?;
        return Ok(run_stream_burst(&c).1);
    }
    if sub == "hist" {
        return hist_replay(&HIST, case);
    }
    let c: Case = serde_json::from_value(case).map_err(|e| e.to_string())?;
    Ok(run_case(&c).1)
}

// ------------------------------------------------------------------------------------------------
// C02's cross-thread sub-check: the same schedule family, only the lost-wake rules (see histprops.rs)

const C02_RULES: &[&str] = &["C10.wake", "C10.first_poll"];

pub fn xthread_for_c02(ctx: &CheckCtx) -> Option<Found> {
    use crate::props::histprops::xthread_relabel;
    STEER_F7.store(false, Ordering::SeqCst);
    if let Some(f) = ctx.run_replays::<Case, _>("xthread.exec", |c| xthread_relabel(run_case(c), C02_RULES)) {
        return Some(f);
    }
    STEER_F7.store((ctx.known_open(SIG_F7) || ctx.known_open(SIG_F7B)) && std::env::var("VERIF_NO_STEER").is_err(), Ordering::SeqCst);
    ctx.search("xthread.exec", case_strategy(), ctx.tier.pick(2_500, 40_000), 6, None, |c| xthread_relabel(run_case(c), C02_RULES))
}

pub fn xthread_replay(_sub: &str, case: serde_json::Value) -> Result<Option<Violation>, String> {
    STEER_F7.store(false, Ordering::SeqCst);
    let c: Case = serde_json::from_value(case).map_err(|e| e.to_string())?;
    Ok(crate::props::histprops::xthread_relabel(run_case(&c), C02_RULES).1)
}
