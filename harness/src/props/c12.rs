//! C12 — dispatch() waits exactly as long as it should: no spinning, no oversleeping.
//!
//! Pure PBT over *configurations* on the real clock. One case = one configuration:
//! a user timeout x a set of timers (placed relative to the dispatch start) x a set of idle sources
//! (live-but-quiet ones and ones whose peers are all gone) x an optional helper thread that acts
//! after a delay. Every case builds its own `EventLoop`, warms it up with zero-timeout dispatches
//! (so that close markers, first stream polls etc. are consumed: they are events themselves), then
//! measures ONE `dispatch(timeout)` call and judges its duration and its callback trace.
//!
//! Reading of the statement encoded below (L = min(timeout, earliest live deadline - t_before)):
//! * lower bound (exact, no tolerance, monotonic clock): with no event and no wake-up the call
//!   lasts >= L. With a helper that acted, >= min(L, instant the helper was about to act).
//!   Timer callbacks do not excuse an early return (a timer only fires at/after its deadline);
//!   a callback of any other source does (the false-alarm guard of the design: lower bound only
//!   for dispatches whose trace shows no external cause).
//! * "having fired that timer if it was the limit": the earliest timer (ties: all of them) fired
//!   when it was already expired at t_before, or when it ends the wait at least 1 ms before the
//!   timeout would (and nothing woke the loop earlier).
//! * upper bound: elapsed <= limit + 60 ms, and a miss only counts when the same configuration
//!   misses three times in a row (re-run inside `run_case`).
//! * zero timeout never blocks (<= 60 ms, 3x); `None` + no timer returns only after the helper
//!   began to act, and does return (a watchdog ends the call after 3 s; rescued 3x = violation).

use crate::driver::{CaseOutcome, CheckCtx, Found, PropMeta, Tier, Violation};
use crate::evidence::{fingerprint, CaseInfo};
use crate::kernel;
use calloop::generic::Generic;
use calloop::timer::{TimeoutAction, Timer};
use calloop::{EventLoop, EventSource, Interest, LoopSignal, Mode, PostAction};
use proptest::prelude::*;
use serde::{Deserialize, Serialize};
use std::any::Any;
use std::os::unix::io::AsRawFd;
use std::panic::{catch_unwind, AssertUnwindSafe};
use std::sync::atomic::{AtomicBool, AtomicUsize, Ordering};
use std::sync::{Arc, Condvar, Mutex, Once};
use std::time::{Duration, Instant};

pub const META: PropMeta = PropMeta {
    id: "C12",
    level: "exploration",
    rule: "case = configuration {timeout in Zero|Ms(1..40)|Long(400ms)|None} x {0..4 timers: expired, +1..40ms, equal to the timeout, later than the timeout, far (1h), Duration::MAX, inserted-then-removed (before or after its deadline passed), inserted-then-disabled, armed-then-re-armed by set_deadline+update (old/new deadline past or future; from no deadline; via Duration::MAX), deadline field changed WITHOUT update (old arming stays in force), late timers inserted between the measured dispatches, self-removing periodic timer, overdue timer whose callback re-arms it with ToDuration(period)} x {0..5 idle sources: ping live/dead, channel live/dead, executor live/scheduler dropped, stream ended/pending, Generic EMPTY/READ quiet, disabled source with pending ping, lifecycle source whose before_sleep takes 80 ms (with a timer 120 ms out), book-style composites of two ping/channel/executor children; live ones optionally used once during warm-up} x {idle callbacks queued right before the measured dispatch: none | one pending | one cancelled | both} x optional helper thread (ping|channel send|LoopSignal::wakeup|no-op signal to the loop thread, after 5..25ms); one measured dispatch per case after warm-up, optionally followed by a second measured dispatch (0..40 ms) judged against the timers still armed then (lower bound exact, limiting timer fired, no timer fires twice, upper bound with slack). non-trivial: a follow-up dispatch had to wait although a former / re-armed / already fired timer existed, or (timeout is Some and >= 1 live timer, or a dead-peer source is present) and the dispatch had to wait (L > 0, L = min(timeout, earliest deadline - t_before)). distinct: fingerprint of the normalised configuration",
    assumptions: &[
        "std::time::Instant and the timerfd used by polling both read CLOCK_MONOTONIC; hrtimers never expire early",
        "upper bounds are scheduling-latency bounds: 60 ms slack, only asserted when the same configuration misses 3 times in a row",
        "the harness is the only producer of events: idle sources have quiet live peers or no peers at all",
        "the `Interrupted` retry branch in dispatch_events is unreachable with polling 3.11 (Poller::wait retries EINTR itself); the signal helper still checks that a signal does not shorten the wait",
    ],
};

const SLACK: Duration = Duration::from_millis(60);
const FIRE_MARGIN: Duration = Duration::from_millis(1);
const LONG_MS: u64 = 400;
const RESCUE_EXTRA: Duration = Duration::from_millis(250);
const RESCUE_NONE: Duration = Duration::from_secs(3);
const FAR: Duration = Duration::from_secs(3600);
const WARMUPS: usize = 3;

// narrow signatures (rule id + shape)
const SIG_SHORT: &str = "C12.short/early-return";
const SIG_NOT_FIRED: &str = "C12.short/timer-limit-not-fired";
const SIG_WAKEUP_IGNORED: &str = "C12.long/wakeup-did-not-end-dispatch";
const SIG_TIMER_EARLY: &str = "C12.short/timer-fired-before-deadline";
const SIG_LONG: &str = "C12.long/oversleep";
const SIG_LONG_HELPER: &str = "C12.long/helper-event-not-dispatched";
const SIG_ZERO: &str = "C12.zero/blocked";
const SIG_NONE_RESCUED: &str = "C12.none/rescued";
const SIG_NONE_EARLY: &str = "C12.none/returned-before-wakeup";
const ALL_SIGS: [&str; 9] = [SIG_WAKEUP_IGNORED, SIG_TIMER_EARLY, SIG_SHORT, SIG_NOT_FIRED, SIG_LONG, SIG_LONG_HELPER, SIG_ZERO, SIG_NONE_RESCUED, SIG_NONE_EARLY];

// ------------------------------------------------------------------------------------------------
// the case
// ------------------------------------------------------------------------------------------------

#[derive(Serialize, Deserialize, Debug, Clone, Copy, Hash, PartialEq, Eq)]
pub enum Tmo {
    Zero,
    Ms(u8),
    Long,
    None,
}

/// Timer placement relative to t0 (taken immediately before the timers are inserted, a few
/// microseconds before the measured dispatch starts).
#[derive(Serialize, Deserialize, Debug, Clone, Copy, Hash, PartialEq, Eq)]
pub enum TimerSpec {
    /// t0 + ms (1..=40)
    At { ms: u8 },
    /// t0 - ago_ms (0..=40): already expired when the dispatch starts
    Expired { ago_ms: u8 },
    /// t0 + timeout (treated as Far when the timeout is None)
    Equal,
    /// t0 + timeout + ms (treated as Far when the timeout is None)
    Later { ms: u8 },
    /// t0 + 120 ms (later than a slow before_sleep hook takes)
    AtLate,
    /// t0 + 1 h
    Far,
    /// Timer::from_duration(Duration::MAX): no deadline at all
    Never,
    /// t0 + ms (1..=40), but removed again (LoopHandle::remove) before the measured dispatch:
    /// not an armed timer, must not limit the wait
    Removed { ms: u8 },
    /// t0 - ago_ms (0..=40): overdue but never dispatched, then removed: not an armed timer
    RemovedOverdue { ago_ms: u8 },
    /// t0 + ms (signed, -40..=40; <= 0: overdue), then disabled (LoopHandle::disable) and left disabled:
    /// not an armed timer
    Disabled { ms: i8 },
    /// armed for t0 + old_ms, then re-armed before the measured dispatch through
    /// set_deadline(t0 + new_ms) + LoopHandle::update (both signed, -40..=40; <= 0: in the past):
    /// only the new deadline is armed
    /// `from`: 0 = as described; 1 = the timer starts without any deadline (Timer::from_duration(Duration::MAX), old_ms
    /// unused); 2 = armed for t0 + old_ms, pushed to "never" by set_duration(Duration::MAX) + update, then re-armed;
    /// 3 = set_deadline(t0 + new_ms) WITHOUT update: "it needs to be re-registered for this change to take effect", so
    /// the arming in force stays t0 + old_ms and that is when it fires
    Rearmed {
        old_ms: i8,
        new_ms: i8,
        #[serde(default)]
        from: u8,
    },
    /// overdue by ago_ms (0..=40) when the measured dispatch starts; its callback returns
    /// TimeoutAction::ToDuration(period_ms) the first time (then Drop): after firing (late) it is armed for
    /// "fire time + period", which is what a follow-up dispatch has to wait for
    /// `self_remove`: the same callback also removes the timer through LoopHandle::remove(own token) before returning
    /// ToDuration(period): nothing is armed afterwards, a follow-up dispatch must not be limited by it
    Periodic {
        ago_ms: u8,
        period_ms: u8,
        #[serde(default)]
        self_remove: bool,
    },
}

#[derive(Serialize, Deserialize, Debug, Clone, Copy, Hash, PartialEq, Eq)]
pub enum Idle {
    /// ping source, handle kept; `used`: pinged once (delivered during warm-up)
    PingLive { used: bool },
    /// ping source whose only handle is dropped before warm-up (`used`: pinged before the drop)
    PingDead { used: bool },
    /// channel, sender kept; `used`: one message delivered during warm-up
    ChanLive { used: bool },
    /// channel whose sender is dropped before warm-up (`used`: one message sent before)
    ChanDead { used: bool },
    /// executor, scheduler kept, no task (`used`: one ready task ran during warm-up)
    ExecLive { used: bool },
    /// executor whose scheduler is dropped (`used`: one ready task scheduled before the drop)
    ExecNoSched { used: bool },
    /// StreamSource over a finite stream of `items` items: ends during warm-up
    StreamEnded { items: u8 },
    /// StreamSource over a futures mpsc receiver whose sender is kept and silent
    StreamPending,
    /// Generic with Interest::EMPTY over a socketpair end, live quiet peer
    GenericEmpty,
    /// Generic with Interest::READ over a quiet socketpair end (`used`: one byte consumed in warm-up)
    GenericRead { used: bool },
    /// ping source pinged and then disabled: readiness pending but not polled
    DisabledPinged,
    /// a quiet source with extra lifecycle events whose before_sleep takes 80 ms (it flushes something) in the
    /// measured dispatch: a timer deadline must still be honoured (the wait is computed after the hooks ran)
    SlowHook,
    /// a composite source in the style of the book (every event is handed to both children, each filters by its own
    /// token) over two children of kind 0 = ping, 1 = channel, 2 = executor, all handles kept. `used` bit 0 / 1: child
    /// a / b gets one event; `late`: that event is produced right before the LAST warm-up dispatch, so that the
    /// measured dispatch directly follows the one that delivered it (nothing is pending then either)
    Comp { a: u8, b: u8, used: u8, late: bool },
    /// sync_channel(bound), bound 1..=8, sender kept, filled to exactly `bound` messages right before the LAST warm-up
    /// dispatch, which drains it: the measured dispatch directly follows the one that emptied a full bounded channel
    /// (the channel has seen its queue empty, so it has no reason to wake itself up again)
    ChanFull { bound: u8 },
}

#[derive(Serialize, Deserialize, Debug, Clone, Copy, Hash, PartialEq, Eq)]
pub enum HelperKind {
    Wakeup,
    Ping,
    Channel,
    /// pthread_kill(loop thread, SIGUSR2) with a no-op handler: neither an event nor a wake-up
    Signal,
}

#[derive(Serialize, Deserialize, Debug, Clone, Copy, Hash, PartialEq, Eq)]
pub struct Helper {
    pub kind: HelperKind,
    /// 5..=25
    pub delay_ms: u8,
}

#[derive(Serialize, Deserialize, Debug, Clone, Hash, PartialEq, Eq)]
pub struct Case {
    pub timeout: Tmo,
    pub timers: Vec<TimerSpec>,
    pub idle: Vec<Idle>,
    pub helper: Option<Helper>,
    /// a second measured dispatch right after the first, with this timeout in ms (0..=40): judged against
    /// the timers that are still armed then (ghosts of fired / re-armed / former timers must not shorten it)
    #[serde(default)]
    pub follow: Option<u8>,
    /// timers inserted between the measured dispatch and the follow-up one, due `ms` (1..=30) after their insertion:
    /// the follow-up dispatch is limited by them as by any other armed timer and has to fire them
    #[serde(default)]
    pub late: Vec<u8>,
    /// idle callbacks queued (LoopHandle::insert_idle) right before the measured dispatch: bit 0 = one pending idle
    /// callback, bit 1 = one inserted and cancelled again (Idle::cancel). Neither is an event or a wake-up: the
    /// dispatch waits as long as without them (and runs the pending one afterwards)
    #[serde(default)]
    pub queued_idles: u8,
}

impl Tmo {
    fn duration(self) -> Option<Duration> {
        match self {
            Tmo::Zero => Some(Duration::ZERO),
            Tmo::Ms(m) => Some(Duration::from_millis(m as u64)),
            Tmo::Long => Some(Duration::from_millis(LONG_MS)),
            Tmo::None => None,
        }
    }
}

impl TimerSpec {
    /// planned offset from t0 in ms (negative: expired), None = does not bound the wait
    /// a timer that existed before the measured dispatch but is not armed any more
    fn former(self) -> bool {
        matches!(self, TimerSpec::Removed { .. } | TimerSpec::RemovedOverdue { .. } | TimerSpec::Disabled { .. })
    }
    fn planned_ms(self, timeout: Tmo) -> Option<i64> {
        let t = timeout.duration().map(|d| d.as_millis() as i64);
        match self {
            TimerSpec::At { ms } => Some(ms as i64),
            TimerSpec::AtLate => Some(120),
            TimerSpec::Expired { ago_ms } => Some(-(ago_ms as i64)),
            TimerSpec::Equal => t,
            TimerSpec::Later { ms } => t.map(|t| t + ms as i64),
            TimerSpec::Rearmed { old_ms, from: 3, .. } => Some(old_ms as i64),
            TimerSpec::Rearmed { new_ms, .. } => Some(new_ms as i64),
            TimerSpec::Periodic { ago_ms, .. } => Some(-(ago_ms as i64)),
            TimerSpec::Far | TimerSpec::Never | TimerSpec::Removed { .. } | TimerSpec::RemovedOverdue { .. } | TimerSpec::Disabled { .. } => None,
        }
    }
}

impl Idle {
    fn dead_peer(self) -> bool {
        matches!(self, Idle::PingDead { .. } | Idle::ChanDead { .. } | Idle::ExecNoSched { .. } | Idle::StreamEnded { .. })
    }
    fn label(self) -> &'static str {
        match self {
            Idle::PingLive { used: false } => "idle:ping_live",
            Idle::PingLive { used: true } => "idle:ping_live_used",
            Idle::PingDead { used: false } => "idle:ping_dead",
            Idle::PingDead { used: true } => "idle:ping_dead_used",
            Idle::ChanLive { used: false } => "idle:chan_live",
            Idle::ChanLive { used: true } => "idle:chan_live_used",
            Idle::ChanDead { used: false } => "idle:chan_dead",
            Idle::ChanDead { used: true } => "idle:chan_dead_used",
            Idle::ExecLive { used: false } => "idle:exec_live",
            Idle::ExecLive { used: true } => "idle:exec_live_used",
            Idle::ExecNoSched { used: false } => "idle:exec_nosched",
            Idle::ExecNoSched { used: true } => "idle:exec_nosched_used",
            Idle::StreamEnded { .. } => "idle:stream_ended",
            Idle::StreamPending => "idle:stream_pending",
            Idle::GenericEmpty => "idle:generic_empty",
            Idle::GenericRead { used: false } => "idle:generic_read",
            Idle::GenericRead { used: true } => "idle:generic_read_used",
            Idle::DisabledPinged => "idle:disabled_pinged",
            Idle::SlowHook => "idle:slow_before_sleep_hook",
            Idle::Comp { used: 0, .. } => "idle:composite_quiet",
            Idle::Comp { late: false, .. } => "idle:composite_used",
            Idle::Comp { late: true, .. } => "idle:composite_used_in_last_warmup",
            Idle::ChanFull { .. } => "idle:bounded_channel_drained_while_full_in_last_warmup",
        }
    }
}

/// Planned bound of the wait in ms (what a correct loop would wait at most, before slack), if any.
fn planned_bound_ms(c: &Case) -> Option<i64> {
    let mut b = c.timeout.duration().map(|d| d.as_millis() as i64);
    for t in &c.timers {
        if let Some(p) = t.planned_ms(c.timeout) {
            b = Some(b.map_or(p, |b| b.min(p)));
        }
    }
    if let Some(h) = c.helper {
        if h.kind != HelperKind::Signal {
            b = Some(b.map_or(h.delay_ms as i64, |b| b.min(h.delay_ms as i64)));
        }
    }
    let hook = 80 * c.idle.iter().filter(|i| matches!(i, Idle::SlowHook)).count() as i64;
    b.map(|b| b.max(0) + hook)
}

fn has_bounding_timer(c: &Case) -> bool {
    c.timers.iter().any(|t| t.planned_ms(c.timeout).is_some())
}

/// Clamp every field into the domain of the statement (replay files and shrunk cases may carry
/// anything) and make sure a `None` timeout is always bounded by a timer or a waking helper:
/// `dispatch(None)` with nothing that can end it is never executed.
pub fn normalise(c: &Case) -> Case {
    let mut n = c.clone();
    if let Tmo::Ms(m) = n.timeout {
        n.timeout = Tmo::Ms(m.clamp(1, 40));
    }
    n.timers.truncate(4);
    for t in &mut n.timers {
        *t = match *t {
            TimerSpec::At { ms } => TimerSpec::At { ms: ms.clamp(1, 40) },
            TimerSpec::Expired { ago_ms } => TimerSpec::Expired { ago_ms: ago_ms.min(40) },
            TimerSpec::Later { ms } => TimerSpec::Later { ms: ms.clamp(1, 40) },
            TimerSpec::Removed { ms } => TimerSpec::Removed { ms: ms.clamp(1, 40) },
            TimerSpec::RemovedOverdue { ago_ms } => TimerSpec::RemovedOverdue { ago_ms: ago_ms.min(40) },
            TimerSpec::Disabled { ms } => TimerSpec::Disabled { ms: ms.clamp(-40, 40) },
            TimerSpec::Rearmed { old_ms, new_ms, from } => TimerSpec::Rearmed { old_ms: if from == 1 { 0 } else { old_ms.clamp(-40, 40) }, new_ms: new_ms.clamp(-40, 40), from: from.min(3) },
            TimerSpec::Periodic { ago_ms, period_ms, self_remove } => TimerSpec::Periodic { ago_ms: ago_ms.min(40), period_ms: period_ms.clamp(5, 40), self_remove },
            o => o,
        };
    }
    n.idle.truncate(5);
    n.late.truncate(2);
    for l in &mut n.late {
        *l = (*l).clamp(1, 30);
    }
    if n.follow.is_none() {
        n.late.clear();
    }
    for i in &mut n.idle {
        if let Idle::StreamEnded { items } = i {
            *items = (*items).min(3);
        }
    }
    if let Some(h) = &mut n.helper {
        h.delay_ms = h.delay_ms.clamp(5, 25);
    }
    if let Some(f) = &mut n.follow {
        *f = (*f).min(40);
    }
    if n.timeout == Tmo::None && !has_bounding_timer(&n) {
        match &mut n.helper {
            Some(h) if h.kind == HelperKind::Signal => h.kind = HelperKind::Wakeup,
            Some(_) => {}
            None => n.helper = Some(Helper { kind: HelperKind::Wakeup, delay_ms: 5 }),
        }
    }
    n
}

// ------------------------------------------------------------------------------------------------
// strategies
// ------------------------------------------------------------------------------------------------

fn tmo_strategy() -> impl Strategy<Value = Tmo> {
    prop_oneof![
        4 => Just(Tmo::Zero),
        8 => (1u8..=12).prop_map(Tmo::Ms),
        4 => (13u8..=40).prop_map(Tmo::Ms),
        3 => Just(Tmo::Long),
        4 => Just(Tmo::None),
    ]
}

fn timer_strategy() -> impl Strategy<Value = TimerSpec> {
    // two nested unions: prop_oneof! boxes (and loses Sync) beyond 10 arms
    let armed = prop_oneof![
        5 => (1u8..=40).prop_map(|ms| TimerSpec::At { ms }),
        2 => (0u8..=40).prop_map(|ago_ms| TimerSpec::Expired { ago_ms }),
        2 => Just(TimerSpec::Equal),
        2 => (1u8..=40).prop_map(|ms| TimerSpec::Later { ms }),
        3 => Just(TimerSpec::Far),
        1 => Just(TimerSpec::Never),
    ];
    let history = prop_oneof![
        2 => (1u8..=40).prop_map(|ms| TimerSpec::Removed { ms }),
        2 => (0u8..=40).prop_map(|ago_ms| TimerSpec::RemovedOverdue { ago_ms }),
        2 => (-40i8..=40).prop_map(|ms| TimerSpec::Disabled { ms }),
        4 => (-40i8..=40, -40i8..=40, prop_oneof![3 => Just(0u8), 1 => Just(1u8), 1 => Just(2u8), 2 => Just(3u8)]).prop_map(|(old_ms, new_ms, from)| TimerSpec::Rearmed { old_ms, new_ms, from }),
        3 => (0u8..=40, 5u8..=40, prop::bool::weighted(0.35)).prop_map(|(ago_ms, period_ms, self_remove)| TimerSpec::Periodic { ago_ms, period_ms, self_remove }),
    ];
    prop_oneof![15 => armed, 13 => history]
}

fn idle_strategy() -> impl Strategy<Value = Idle> {
    // two nested unions: prop_oneof! boxes (and loses Sync) beyond 10 arms
    let dead = prop_oneof![
        3 => any::<bool>().prop_map(|used| Idle::PingDead { used }),
        3 => any::<bool>().prop_map(|used| Idle::ChanDead { used }),
        2 => any::<bool>().prop_map(|used| Idle::ExecNoSched { used }),
        2 => (0u8..=3).prop_map(|items| Idle::StreamEnded { items }),
    ];
    let live = prop_oneof![
        2 => any::<bool>().prop_map(|used| Idle::PingLive { used }),
        2 => any::<bool>().prop_map(|used| Idle::ChanLive { used }),
        2 => any::<bool>().prop_map(|used| Idle::ExecLive { used }),
        2 => Just(Idle::StreamPending),
        2 => Just(Idle::GenericEmpty),
        2 => any::<bool>().prop_map(|used| Idle::GenericRead { used }),
        2 => Just(Idle::DisabledPinged),
        1 => Just(Idle::SlowHook),
        3 => prop_oneof![3 => (0u8..3, 0u8..3, 0u8..4, any::<bool>()).prop_map(|(a, b, used, late)| Idle::Comp { a, b, used, late }), 1 => (1u8..=8).prop_map(|bound| Idle::ChanFull { bound })],
    ];
    prop_oneof![14 => live, 10 => dead]
}

fn helper_strategy() -> impl Strategy<Value = Helper> {
    (
        prop_oneof![
            3 => Just(HelperKind::Wakeup),
            3 => Just(HelperKind::Ping),
            3 => Just(HelperKind::Channel),
            2 => Just(HelperKind::Signal),
        ],
        5u8..=25,
    )
        .prop_map(|(kind, delay_ms)| Helper { kind, delay_ms })
}

fn case_strategy() -> impl Strategy<Value = Case> {
    (
        tmo_strategy(),
        proptest::collection::vec(timer_strategy(), 0..=4),
        proptest::collection::vec(idle_strategy(), 0..=5),
        prop_oneof![3 => Just(None), 2 => helper_strategy().prop_map(Some)],
        // how an otherwise unbounded Long/None wait gets bounded (construction, not rejection)
        (any::<bool>(), 1u8..=40, helper_strategy()),
        prop_oneof![3 => Just(None), 2 => (0u8..=40).prop_map(Some)],
        prop_oneof![3 => Just(vec![]), 2 => proptest::collection::vec(1u8..=30, 1..=2)],
        prop_oneof![3 => Just(0u8), 1 => Just(1u8), 1 => Just(2u8), 1 => Just(3u8)],
    )
        .prop_map(|(timeout, mut timers, idle, mut helper, (by_timer, ms, h), follow, late, queued_idles)| {
            let late = if follow.is_some() { late } else { vec![] };
            // the follow-up dispatch is only judged without a waking helper: mostly generate it that way
            if follow.is_some() && helper.map_or(false, |h| h.kind != HelperKind::Signal && h.delay_ms % 4 != 0) {
                helper = None;
            }
            // a slow hook is interesting with a timer that outlasts it
            if idle.iter().any(|i| matches!(i, Idle::SlowHook)) && timers.len() < 4 && ms % 3 != 0 {
                timers.push(TimerSpec::AtLate);
            }
            let mut c = Case { timeout, timers: timers.clone(), idle: idle.clone(), helper, follow, late: late.clone(), queued_idles };
            let waking_helper = helper.map_or(false, |h| h.kind != HelperKind::Signal);
            if matches!(timeout, Tmo::Long | Tmo::None) && !has_bounding_timer(&c) && !waking_helper {
                if by_timer {
                    if timers.len() >= 4 {
                        timers.pop();
                    }
                    timers.push(TimerSpec::At { ms });
                } else {
                    let kind = if h.kind == HelperKind::Signal { HelperKind::Wakeup } else { h.kind };
                    helper = Some(Helper { kind, delay_ms: h.delay_ms });
                }
                c = Case { timeout, timers, idle, helper, follow, late, queued_idles };
            }
            c
        })
}

// ------------------------------------------------------------------------------------------------
// the world: one loop, its sources, one assistant thread (helper + watchdog)
// ------------------------------------------------------------------------------------------------

#[derive(Debug, Clone, Copy, PartialEq, Eq)]
enum Src {
    Timer(usize),
    Idle(usize),
    HelperTarget,
}

#[derive(Default)]
struct Trace {
    ev: Vec<(Src, Instant)>,
}

impl Trace {
    fn push(&mut self, s: Src) {
        self.ev.push((s, Instant::now()));
    }
}

/// Number of SIGUSR2 deliveries handled (evidence that the signal helper really interrupts).
static SIGNALS_HANDLED: AtomicUsize = AtomicUsize::new(0);

extern "C" fn noop_handler(_: libc::c_int) {
    SIGNALS_HANDLED.fetch_add(1, Ordering::Relaxed);
}

fn install_noop_sigusr2() {
    static ONCE: Once = Once::new();
    ONCE.call_once(|| unsafe {
        let mut sa: libc::sigaction = std::mem::zeroed();
        sa.sa_sigaction = noop_handler as *const () as usize;
        sa.sa_flags = 0; // no SA_RESTART: epoll_wait really returns EINTR
        libc::sigemptyset(&mut sa.sa_mask);
        libc::sigaction(libc::SIGUSR2, &sa, std::ptr::null_mut());
    });
}

const SLOW_HOOK: Duration = Duration::from_millis(80);

/// Ping-backed source with extra lifecycle events whose before_sleep is slow while the flag is set.
struct SlowHookSource {
    inner: calloop::ping::PingSource,
    slow: Arc<AtomicBool>,
}

impl calloop::EventSource for SlowHookSource {
    type Event = ();
    type Metadata = ();
    type Ret = ();
    type Error = calloop::ping::PingError;
    const NEEDS_EXTRA_LIFECYCLE_EVENTS: bool = true;
    fn process_events<F>(&mut self, readiness: calloop::Readiness, token: calloop::Token, callback: F) -> Result<PostAction, Self::Error>
    where
        F: FnMut((), &mut ()),
    {
        self.inner.process_events(readiness, token, callback)
    }
    fn register(&mut self, poll: &mut calloop::Poll, tf: &mut calloop::TokenFactory) -> calloop::Result<()> {
        self.inner.register(poll, tf)
    }
    fn reregister(&mut self, poll: &mut calloop::Poll, tf: &mut calloop::TokenFactory) -> calloop::Result<()> {
        self.inner.reregister(poll, tf)
    }
    fn unregister(&mut self, poll: &mut calloop::Poll) -> calloop::Result<()> {
        self.inner.unregister(poll)
    }
    fn before_sleep(&mut self) -> calloop::Result<Option<(calloop::Readiness, calloop::Token)>> {
        if self.slow.load(Ordering::SeqCst) {
            std::thread::sleep(SLOW_HOOK);
        }
        Ok(None)
    }
    fn before_handle_events(&mut self, _events: calloop::EventIterator<'_>) {}
}

/// Child of the composite idle source.
enum PairChild {
    Ping(calloop::ping::PingSource),
    Chan(calloop::channel::Channel<u32>),
    Exec(calloop::futures::Executor<u32>),
}

impl PairChild {
    fn process(&mut self, r: calloop::Readiness, t: calloop::Token, hit: &mut bool) -> Result<PostAction, Box<dyn std::error::Error + Sync + Send>> {
        Ok(match self {
            PairChild::Ping(s) => s.process_events(r, t, |_, _| *hit = true)?,
            PairChild::Chan(s) => s.process_events(r, t, |_, _| *hit = true)?,
            PairChild::Exec(s) => s.process_events(r, t, |_, _| *hit = true)?,
        })
    }
    fn reg(&mut self, p: &mut calloop::Poll, f: &mut calloop::TokenFactory, re: bool) -> calloop::Result<()> {
        match (self, re) {
            (PairChild::Ping(s), false) => s.register(p, f),
            (PairChild::Chan(s), false) => s.register(p, f),
            (PairChild::Exec(s), false) => s.register(p, f),
            (PairChild::Ping(s), true) => s.reregister(p, f),
            (PairChild::Chan(s), true) => s.reregister(p, f),
            (PairChild::Exec(s), true) => s.reregister(p, f),
        }
    }
    fn unreg(&mut self, p: &mut calloop::Poll) -> calloop::Result<()> {
        match self {
            PairChild::Ping(s) => s.unregister(p),
            PairChild::Chan(s) => s.unregister(p),
            PairChild::Exec(s) => s.unregister(p),
        }
    }
}

/// Composite source as the book writes them: every (readiness, token) goes to both children, registration in field order.
struct PairSource {
    a: PairChild,
    b: PairChild,
}

impl calloop::EventSource for PairSource {
    type Event = ();
    type Metadata = ();
    type Ret = ();
    type Error = Box<dyn std::error::Error + Sync + Send>;
    fn process_events<F>(&mut self, r: calloop::Readiness, t: calloop::Token, mut callback: F) -> Result<PostAction, Self::Error>
    where
        F: FnMut((), &mut ()),
    {
        let mut hit = false;
        self.a.process(r, t, &mut hit)?;
        self.b.process(r, t, &mut hit)?;
        if hit {
            callback((), &mut ());
        }
        Ok(PostAction::Continue)
    }
    fn register(&mut self, p: &mut calloop::Poll, f: &mut calloop::TokenFactory) -> calloop::Result<()> {
        self.a.reg(p, f, false)?;
        self.b.reg(p, f, false)
    }
    fn reregister(&mut self, p: &mut calloop::Poll, f: &mut calloop::TokenFactory) -> calloop::Result<()> {
        self.a.reg(p, f, true)?;
        self.b.reg(p, f, true)
    }
    fn unregister(&mut self, p: &mut calloop::Poll) -> calloop::Result<()> {
        self.a.unreg(p)?;
        self.b.unreg(p)
    }
}

enum Action {
    Wakeup(LoopSignal),
    Ping(calloop::ping::Ping),
    Send(calloop::channel::Sender<u32>),
    Signal(libc::pthread_t),
}

impl Action {
    fn act(&self) {
        match self {
            Action::Wakeup(s) => s.wakeup(),
            Action::Ping(p) => p.ping(),
            Action::Send(s) => {
                let _ = s.send(1);
            }
            Action::Signal(t) => unsafe {
                libc::pthread_kill(*t, libc::SIGUSR2);
            },
        }
    }
}

#[derive(Default)]
struct AsstOut {
    /// (about to act, action returned)
    acted: Option<(Instant, Instant)>,
    rescued: Option<Instant>,
    /// LoopSignal::wakeup() of the watchdog did not end the dispatch within 300 ms: a ping event had to
    rescued_by_event: bool,
}

struct Cancel {
    flag: Mutex<bool>,
    cv: Condvar,
}

impl Cancel {
    /// Sleep until `until` or cancellation; true = cancelled.
    fn sleep_until(&self, until: Instant) -> bool {
        let mut g = self.flag.lock().unwrap();
        loop {
            if *g {
                return true;
            }
            let now = Instant::now();
            if now >= until {
                return false;
            }
            g = self.cv.wait_timeout(g, until - now).unwrap().0;
        }
    }
    fn cancel(&self) {
        *self.flag.lock().unwrap() = true;
        self.cv.notify_all();
    }
}

/// The assistant thread: performs the helper's action after its delay (recording the instant
/// right before and right after), then turns into the watchdog that ends a dispatch which does
/// not return (LoopSignal::wakeup) and flags the case. Cancelled as soon as the dispatch returned.
fn assistant(cancel: Arc<Cancel>, action: Option<(Action, Duration)>, rescue: LoopSignal, rescue_after: Duration, rescue_ping: calloop::ping::Ping) -> AsstOut {
    let start = Instant::now();
    let mut out = AsstOut::default();
    if let Some((action, delay)) = action {
        if cancel.sleep_until(start + delay) {
            return out;
        }
        let about = Instant::now();
        action.act();
        out.acted = Some((about, Instant::now()));
    }
    if cancel.sleep_until(start + rescue_after) {
        return out;
    }
    out.rescued = Some(Instant::now());
    rescue.wakeup();
    // if even the wake-up does not end the dispatch, end it with a real event so that the case terminates
    if !cancel.sleep_until(Instant::now() + Duration::from_millis(300)) {
        out.rescued_by_event = true;
        rescue_ping.ping();
    }
    out
}

/// Everything observed in one execution of a configuration.
struct Obs {
    t_before: Instant,
    t_after: Instant,
    /// per timer: its deadline (None for `Never`)
    deadlines: Vec<Option<Instant>>,
    trace: Vec<(Src, Instant)>,
    acted: Option<(Instant, Instant)>,
    rescued: Option<Instant>,
    rescued_by_event: bool,
    /// callbacks seen in the last warm-up dispatch (should be 0: the loop is quiescent)
    last_warmup_callbacks: usize,
    /// deadlines of the timers inserted after the measured dispatch (index = timers.len() + k)
    late_deadlines: Vec<Instant>,
    /// follow-up dispatch: (t_before, t_after, trace)
    follow: Option<(Instant, Instant, Vec<(Src, Instant)>)>,
}

fn read_all(fd: i32) {
    let mut buf = [0u8; 64];
    while kernel::raw_read(fd, &mut buf) > 0 {}
}

fn run_once(c: &Case) -> Obs {
    let mut el: EventLoop<Trace> = EventLoop::try_new().expect("EventLoop::try_new");
    let h = el.handle();
    // handles and peers that must stay alive until the end of the case
    let mut keep: Vec<Box<dyn Any>> = Vec::new();
    // slow before_sleep hooks only take their time in the measured dispatch (not in warm-ups / the follow-up)
    let slow_flag = Arc::new(AtomicBool::new(false));
    // events produced right before the last warm-up dispatch
    let mut late_uses: Vec<Box<dyn FnOnce()>> = Vec::new();

    for (i, idle) in c.idle.iter().enumerate() {
        match *idle {
            Idle::PingLive { used } => {
                let (p, s) = calloop::ping::make_ping().expect("make_ping");
                h.insert_source(s, move |_, _, t: &mut Trace| t.push(Src::Idle(i))).expect("insert ping");
                if used {
                    p.ping();
                }
                keep.push(Box::new(p));
            }
            Idle::PingDead { used } => {
                let (p, s) = calloop::ping::make_ping().expect("make_ping");
                h.insert_source(s, move |_, _, t: &mut Trace| t.push(Src::Idle(i))).expect("insert ping");
                if used {
                    p.ping();
                }
                drop(p);
            }
            Idle::ChanLive { used } => {
                let (tx, rx) = calloop::channel::channel::<u32>();
                h.insert_source(rx, move |_, _, t: &mut Trace| t.push(Src::Idle(i))).expect("insert channel");
                if used {
                    let _ = tx.send(7);
                }
                keep.push(Box::new(tx));
            }
            Idle::ChanFull { bound } => {
                let bound = bound.clamp(1, 8) as usize;
                let (tx, rx) = calloop::channel::sync_channel::<u32>(bound);
                h.insert_source(rx, move |_, _, t: &mut Trace| t.push(Src::Idle(i))).expect("insert sync channel");
                let tx2 = tx.clone();
                late_uses.push(Box::new(move || {
                    for k in 0..bound {
                        let _ = tx2.try_send(k as u32);
                    }
                }));
                keep.push(Box::new(tx));
            }
            Idle::ChanDead { used } => {
                let (tx, rx) = calloop::channel::channel::<u32>();
                h.insert_source(rx, move |_, _, t: &mut Trace| t.push(Src::Idle(i))).expect("insert channel");
                if used {
                    let _ = tx.send(7);
                }
                drop(tx);
            }
            Idle::ExecLive { used } => {
                let (ex, sched) = calloop::futures::executor::<u32>().expect("executor");
                h.insert_source(ex, move |_, _, t: &mut Trace| t.push(Src::Idle(i))).expect("insert executor");
                if used {
                    let _ = sched.schedule(async { 7u32 });
                }
                keep.push(Box::new(sched));
            }
            Idle::ExecNoSched { used } => {
                let (ex, sched) = calloop::futures::executor::<u32>().expect("executor");
                h.insert_source(ex, move |_, _, t: &mut Trace| t.push(Src::Idle(i))).expect("insert executor");
                if used {
                    let _ = sched.schedule(async { 7u32 });
                }
                drop(sched);
            }
            Idle::StreamEnded { items } => {
                let st = futures::stream::iter((0..items as u32).collect::<Vec<_>>());
                let src = calloop::stream::StreamSource::new(st).expect("StreamSource");
                h.insert_source(src, move |_, _, t: &mut Trace| t.push(Src::Idle(i))).expect("insert stream");
            }
            Idle::StreamPending => {
                let (tx, rx) = futures::channel::mpsc::unbounded::<u32>();
                let src = calloop::stream::StreamSource::new(rx).expect("StreamSource");
                h.insert_source(src, move |_, _, t: &mut Trace| t.push(Src::Idle(i))).expect("insert stream");
                keep.push(Box::new(tx));
            }
            Idle::GenericEmpty => {
                let (a, b) = kernel::socketpair();
                let src = Generic::new(kernel::OwnedRaw(a), Interest::EMPTY, Mode::Level);
                h.insert_source(src, move |_, _, t: &mut Trace| {
                    t.push(Src::Idle(i));
                    Ok(PostAction::Continue)
                })
                .expect("insert generic");
                keep.push(Box::new(kernel::OwnedRaw(b)));
            }
            Idle::GenericRead { used } => {
                let (a, b) = kernel::socketpair();
                let src = Generic::new(kernel::OwnedRaw(a), Interest::READ, Mode::Level);
                h.insert_source(src, move |_, fd, t: &mut Trace| {
                    read_all(fd.as_raw_fd());
                    t.push(Src::Idle(i));
                    Ok(PostAction::Continue)
                })
                .expect("insert generic");
                if used {
                    kernel::raw_write(b, b"x");
                }
                keep.push(Box::new(kernel::OwnedRaw(b)));
            }
            Idle::SlowHook => {
                let (p, s) = calloop::ping::make_ping().expect("make_ping");
                h.insert_source(SlowHookSource { inner: s, slow: slow_flag.clone() }, move |_, _, t: &mut Trace| t.push(Src::Idle(i))).expect("insert slow-hook source");
                keep.push(Box::new(p));
            }
            Idle::Comp { a, b, used, late } => {
                let mut mk = |kind: u8, use_it: bool, keep: &mut Vec<Box<dyn Any>>, late_uses: &mut Vec<Box<dyn FnOnce()>>| -> PairChild {
                    match kind % 3 {
                        0 => {
                            let (p, s) = calloop::ping::make_ping().expect("make_ping");
                            if use_it {
                                let p2 = p.clone();
                                late_uses.push(Box::new(move || p2.ping()));
                            }
                            keep.push(Box::new(p));
                            PairChild::Ping(s)
                        }
                        1 => {
                            let (tx, rx) = calloop::channel::channel::<u32>();
                            if use_it {
                                let t2 = tx.clone();
                                late_uses.push(Box::new(move || {
                                    let _ = t2.send(7);
                                }));
                            }
                            keep.push(Box::new(tx));
                            PairChild::Chan(rx)
                        }
                        _ => {
                            let (ex, sched) = calloop::futures::executor::<u32>().expect("executor");
                            if use_it {
                                let s2 = sched.clone();
                                late_uses.push(Box::new(move || {
                                    let _ = s2.schedule(async { 7u32 });
                                }));
                            }
                            keep.push(Box::new(sched));
                            PairChild::Exec(ex)
                        }
                    }
                };
                let mut uses: Vec<Box<dyn FnOnce()>> = Vec::new();
                let ca = mk(a, used & 1 != 0, &mut keep, &mut uses);
                let cb = mk(b, used & 2 != 0, &mut keep, &mut uses);
                h.insert_source(PairSource { a: ca, b: cb }, move |_, _, t: &mut Trace| t.push(Src::Idle(i))).expect("insert composite");
                if late {
                    late_uses.extend(uses);
                } else {
                    for u in uses {
                        u();
                    }
                }
            }
            Idle::DisabledPinged => {
                let (p, s) = calloop::ping::make_ping().expect("make_ping");
                let tok = h.insert_source(s, move |_, _, t: &mut Trace| t.push(Src::Idle(i))).expect("insert ping");
                p.ping();
                h.disable(&tok).expect("disable");
                keep.push(Box::new(p));
            }
        }
    }

    // the helper's target source (always live: the main thread keeps one handle, so the helper
    // thread dropping its clone is not a close event)
    let mut action: Option<(Action, Duration)> = None;
    if let Some(hp) = c.helper {
        let delay = Duration::from_millis(hp.delay_ms as u64);
        let a = match hp.kind {
            HelperKind::Wakeup => Action::Wakeup(el.get_signal()),
            HelperKind::Ping => {
                let (p, s) = calloop::ping::make_ping().expect("make_ping");
                h.insert_source(s, |_, _, t: &mut Trace| t.push(Src::HelperTarget)).expect("insert ping");
                keep.push(Box::new(p.clone()));
                Action::Ping(p)
            }
            HelperKind::Channel => {
                let (tx, rx) = calloop::channel::channel::<u32>();
                h.insert_source(rx, |_, _, t: &mut Trace| t.push(Src::HelperTarget)).expect("insert channel");
                keep.push(Box::new(tx.clone()));
                Action::Send(tx)
            }
            HelperKind::Signal => {
                install_noop_sigusr2();
                Action::Signal(unsafe { libc::pthread_self() })
            }
        };
        action = Some((a, delay));
    }

    // warm-up: close markers, first stream polls, used-once deliveries are events; consume them
    let mut trace = Trace::default();
    let mut last_warmup_callbacks = 0;
    for k in 0..WARMUPS {
        trace.ev.clear();
        if k + 1 == WARMUPS {
            for u in late_uses.drain(..) {
                u();
            }
        }
        el.dispatch(Some(Duration::ZERO), &mut trace).expect("warm-up dispatch");
        last_warmup_callbacks = trace.ev.len();
    }
    trace.ev.clear();

    // watchdog time: `None` + no bounding timer is the design's 3 s rescue; everything else has a
    // finite planned bound, and since any return later than bound + 60 ms is a miss anyway the
    // rescue only shortens the execution of a missing case (it never decides anything)
    let rescue_after = if c.timeout == Tmo::None && !has_bounding_timer(c) {
        RESCUE_NONE
    } else {
        match planned_bound_ms(c) {
            Some(b) => Duration::from_millis(b as u64) + RESCUE_EXTRA,
            None => RESCUE_NONE,
        }
    };
    let cancel = Arc::new(Cancel { flag: Mutex::new(false), cv: Condvar::new() });
    let rescue = el.get_signal();
    // last-resort rescue source (never pinged unless the watchdog's wake-up is ignored)
    let (rescue_ping, rescue_src) = calloop::ping::make_ping().expect("make_ping");
    h.insert_source(rescue_src, |_, _, _: &mut Trace| {}).expect("insert rescue ping");
    // one handle stays with the case until the end: the assistant's handle going away must not be a close event
    keep.push(Box::new(rescue_ping.clone()));
    let asst = {
        let cancel = cancel.clone();
        std::thread::Builder::new()
            .name("c12-assistant".into())
            .stack_size(64 * 1024)
            .spawn(move || assistant(cancel, action, rescue, rescue_after, rescue_ping))
            .expect("spawn assistant")
    };

    let timeout = c.timeout.duration();
    let t0 = Instant::now();
    let mut deadlines = Vec::with_capacity(c.timers.len());
    let mut to_remove = Vec::new();
    let mut to_disable = Vec::new();
    let mut to_rearm = Vec::new();
    let signed = |ms: i8| -> Instant {
        if ms >= 0 {
            t0 + Duration::from_millis(ms as u64)
        } else {
            t0.checked_sub(Duration::from_millis((-(ms as i64)) as u64)).unwrap_or(t0)
        }
    };
    for (i, spec) in c.timers.iter().enumerate() {
        let deadline = match *spec {
            TimerSpec::At { ms } | TimerSpec::Removed { ms } => Some(t0 + Duration::from_millis(ms as u64)),
            TimerSpec::Expired { ago_ms } | TimerSpec::RemovedOverdue { ago_ms } | TimerSpec::Periodic { ago_ms, .. } => {
                Some(t0.checked_sub(Duration::from_millis(ago_ms as u64)).unwrap_or(t0))
            }
            TimerSpec::Disabled { ms } => Some(signed(ms)),
            TimerSpec::Rearmed { from: 1, .. } => None,
            TimerSpec::Rearmed { old_ms, .. } => Some(signed(old_ms)),
            TimerSpec::Equal => Some(timeout.map_or(t0 + FAR, |t| t0 + t)),
            TimerSpec::Later { ms } => Some(timeout.map_or(t0 + FAR, |t| t0 + t + Duration::from_millis(ms as u64))),
            TimerSpec::Far => Some(t0 + FAR),
            TimerSpec::AtLate => Some(t0 + Duration::from_millis(120)),
            TimerSpec::Never => None,
        };
        let timer = match deadline {
            Some(d) => Timer::from_deadline(d),
            None => Timer::from_duration(Duration::MAX),
        };
        let deadline = timer.current_deadline();
        let mut period = match *spec {
            TimerSpec::Periodic { period_ms, .. } => Some(Duration::from_millis(period_ms as u64)),
            _ => None,
        };
        let own_tok: std::rc::Rc<std::cell::Cell<Option<calloop::RegistrationToken>>> = Default::default();
        let own_tok2 = own_tok.clone();
        let self_remove = matches!(*spec, TimerSpec::Periodic { self_remove: true, .. });
        let weak = h.downgrade();
        let disp = calloop::Dispatcher::new(timer, move |_, _, t: &mut Trace| {
            t.push(Src::Timer(i));
            if self_remove {
                if let (Some(tok), Some(h)) = (own_tok2.take(), weak.upgrade()) {
                    h.remove(tok);
                }
            }
            match period.take() {
                Some(p) => TimeoutAction::ToDuration(p),
                None => TimeoutAction::Drop,
            }
        });
        let tok = h.register_dispatcher(disp.clone()).expect("insert timer");
        own_tok.set(Some(tok));
        match *spec {
            // removed / disabled / re-armed after all timers are in the heap (so that the entry is not
            // necessarily the top)
            TimerSpec::Removed { .. } | TimerSpec::RemovedOverdue { .. } => {
                to_remove.push(tok);
                deadlines.push(None);
            }
            TimerSpec::Disabled { .. } => {
                to_disable.push(tok);
                deadlines.push(None);
                keep.push(Box::new(disp));
            }
            TimerSpec::Rearmed { old_ms, new_ms, from, .. } => {
                let nd = signed(new_ms);
                to_rearm.push((tok, disp, nd, from));
                deadlines.push(Some(if from == 3 { signed(old_ms) } else { nd }));
            }
            _ => deadlines.push(deadline),
        }
    }
    for tok in to_remove {
        h.remove(tok);
    }
    for tok in &to_disable {
        h.disable(tok).expect("disable timer");
    }
    for (tok, disp, nd, from) in to_rearm {
        if from == 2 {
            // first pushed out of the wheel altogether: an unrepresentable deadline is no deadline
            disp.as_source_mut().set_duration(Duration::MAX);
            h.update(&tok).expect("update timer");
        }
        disp.as_source_mut().set_deadline(nd);
        if from == 3 {
            // no update: the old arming stays in force (the Dispatcher handle keeps the source reachable)
            continue;
        }
        h.update(&tok).expect("update timer");
    }

    // queued idle callbacks (they do not touch the trace: a dispatch that only ran an idle callback had no event)
    let idle_ran = std::rc::Rc::new(std::cell::Cell::new(0u32));
    if c.queued_idles & 1 != 0 {
        let r = idle_ran.clone();
        let _ = h.insert_idle(move |_| r.set(r.get() + 1));
    }
    if c.queued_idles & 2 != 0 {
        let r = idle_ran.clone();
        let idle = h.insert_idle(move |_| r.set(r.get() + 100));
        idle.cancel();
    }
    slow_flag.store(true, Ordering::SeqCst);
    let t_before = Instant::now();
    el.dispatch(timeout, &mut trace).expect("measured dispatch");
    let t_after = Instant::now();
    slow_flag.store(false, Ordering::SeqCst);

    cancel.cancel();
    let out = asst.join().expect("assistant thread");
    // optional follow-up dispatch: the assistant is gone, nothing but the still armed timers can end it early
    // late timers: armed only now (their index continues after the case's own timers)
    let mut late_deadlines = Vec::new();
    if c.follow.is_some() {
        for (k, ms) in c.late.iter().enumerate() {
            let i = c.timers.len() + k;
            let d = Instant::now() + Duration::from_millis(*ms as u64);
            h.insert_source(Timer::from_deadline(d), move |_, _, t: &mut Trace| {
                t.push(Src::Timer(i));
                TimeoutAction::Drop
            })
            .expect("insert late timer");
            late_deadlines.push(d);
        }
    }
    let follow = c.follow.map(|ms| {
        let mut trace2 = Trace::default();
        let b = Instant::now();
        el.dispatch(Some(Duration::from_millis(ms as u64)), &mut trace2).expect("follow-up dispatch");
        let a = Instant::now();
        (b, a, trace2.ev)
    });
    drop(el);
    drop(keep);
    Obs {
        t_before,
        t_after,
        deadlines,
        trace: trace.ev,
        acted: out.acted,
        rescued: out.rescued,
        rescued_by_event: out.rescued_by_event,
        last_warmup_callbacks,
        follow,
        late_deadlines,
    }
}

// ------------------------------------------------------------------------------------------------
// the oracle
// ------------------------------------------------------------------------------------------------

/// Open known findings (signatures) the oracle steers around.
#[derive(Default, Clone)]
pub struct Known {
    open: Vec<&'static str>,
}

impl Known {
    fn from_ctx(ctx: &CheckCtx) -> Known {
        Known { open: ALL_SIGS.iter().copied().filter(|s| ctx.known_open(s)).collect() }
    }
    fn is_open(&self, sig: &str) -> bool {
        self.open.iter().any(|s| *s == sig)
    }
}

struct Judgement {
    classes: Vec<&'static str>,
    nontrivial: bool,
    /// exact rules (no timing tolerance involved)
    hard: Vec<Violation>,
    /// scheduling-latency rules: count only when confirmed 3 times in a row
    soft: Vec<Violation>,
}

fn ms(d: Duration) -> f64 {
    d.as_secs_f64() * 1e3
}

fn judge(c: &Case, o: &Obs) -> Judgement {
    let mut j = Judgement { classes: Vec::new(), nontrivial: false, hard: Vec::new(), soft: Vec::new() };
    let elapsed = o.t_after - o.t_before;
    let timeout = c.timeout.duration();
    let earliest: Option<Instant> = o.deadlines.iter().flatten().min().copied();
    let until_timer = earliest.map(|d| d.saturating_duration_since(o.t_before));
    // L = min(timeout, earliest live deadline - t_before); None = infinite
    let limit: Option<Duration> = match (timeout, until_timer) {
        (Some(a), Some(b)) => Some(a.min(b)),
        (a, b) => a.or(b),
    };
    let helper_kind = c.helper.map(|h| h.kind);
    // the helper "acted in this dispatch" when it was about to act before the call returned
    let acted = o.acted.filter(|(about, _)| *about <= o.t_after);
    let waking = acted.filter(|_| helper_kind != Some(HelperKind::Signal));
    let rescued = o.rescued.filter(|r| *r <= o.t_after).is_some();
    let none_unbounded = timeout.is_none() && earliest.is_none();

    // callbacks that have no cause the harness produced: any idle source, or the helper's target
    // before the helper acted. They excuse the lower bound (design: empty-trace guard) and are counted.
    let unexpected = o
        .trace
        .iter()
        .filter(|(s, _)| match s {
            Src::Idle(_) => true,
            Src::HelperTarget => waking.is_none(),
            // a timer removed before the dispatch is not armed: its callback has no cause either
            Src::Timer(i) => c.timers.get(*i).map_or(false, |t| t.former()),
        })
        .count();
    let fired = |i: usize| o.trace.iter().any(|(s, _)| *s == Src::Timer(i));
    let target_ran = o.trace.iter().any(|(s, _)| *s == Src::HelperTarget);

    // ---- classes -----------------------------------------------------------------------------
    j.classes.push(match c.timeout {
        Tmo::Zero => "timeout:zero",
        Tmo::Ms(m) if m <= 12 => "timeout:ms_1_12",
        Tmo::Ms(_) => "timeout:ms_13_40",
        Tmo::Long => "timeout:long",
        Tmo::None => "timeout:none",
    });
    if c.timers.is_empty() {
        j.classes.push("timers:none");
    }
    for (i, t) in c.timers.iter().enumerate() {
        j.classes.push(match *t {
            TimerSpec::Expired { .. } => "timer:expired",
            TimerSpec::AtLate => match timeout {
                Some(t) if t < Duration::from_millis(120) => "timer:later_than_timeout",
                Some(_) => "timer:earlier_than_timeout",
                None => "timer:only_limit",
            },
            TimerSpec::At { .. } => match (timeout, o.deadlines[i]) {
                (Some(t), Some(d)) if d < o.t_before + t => "timer:earlier_than_timeout",
                (Some(_), Some(_)) => "timer:later_than_timeout",
                _ => "timer:only_limit",
            },
            TimerSpec::Equal if timeout.is_some() => "timer:equal_to_timeout",
            TimerSpec::Later { .. } if timeout.is_some() => "timer:later_than_timeout",
            TimerSpec::Equal | TimerSpec::Later { .. } | TimerSpec::Far => "timer:far",
            TimerSpec::Never => "timer:never",
            TimerSpec::Removed { .. } => "timer:removed",
            TimerSpec::RemovedOverdue { .. } => "timer:removed_overdue",
            TimerSpec::Periodic { self_remove: true, .. } => "timer:overdue_self_removing_and_rearming_by_duration",
            TimerSpec::Periodic { .. } => "timer:overdue_rearming_by_duration",
            TimerSpec::Disabled { ms } if ms <= 0 => "timer:disabled_overdue",
            TimerSpec::Disabled { .. } => "timer:disabled",
            TimerSpec::Rearmed { from: 3, old_ms, new_ms } => {
                if new_ms > old_ms {
                    "timer:deadline_field_moved_later_without_update"
                } else {
                    "timer:deadline_field_moved_earlier_without_update"
                }
            }
            TimerSpec::Rearmed { from, new_ms, .. } if from != 0 => {
                if new_ms <= 0 {
                    "timer:rearmed_from_no_deadline_to_past"
                } else {
                    "timer:rearmed_from_no_deadline_to_future"
                }
            }
            TimerSpec::Rearmed { old_ms, new_ms, .. } => match (old_ms <= 0, new_ms <= 0) {
                (false, false) => "timer:rearmed_future_to_future",
                (false, true) => "timer:rearmed_future_to_past",
                (true, false) => "timer:rearmed_overdue_to_future",
                (true, true) => "timer:rearmed_overdue_to_past",
            },
        });
    }
    if c.idle.is_empty() {
        j.classes.push("idle:none");
    }
    if c.queued_idles & 1 != 0 {
        j.classes.push("idle_callback_queued_at_measured_dispatch");
    }
    if c.queued_idles & 2 != 0 {
        j.classes.push("cancelled_idle_callback_queued_at_measured_dispatch");
    }
    let mut seen_labels: Vec<&'static str> = Vec::new();
    for i in &c.idle {
        let l = i.label();
        if !seen_labels.contains(&l) {
            seen_labels.push(l);
            j.classes.push(l);
        }
    }
    let dead_peer = c.idle.iter().any(|i| i.dead_peer());
    if dead_peer {
        j.classes.push("dead_peer_present");
    }
    match helper_kind {
        None => {}
        Some(HelperKind::Wakeup) => j.classes.push("helper:wakeup"),
        Some(HelperKind::Ping) => j.classes.push("helper:ping"),
        Some(HelperKind::Channel) => j.classes.push("helper:channel"),
        Some(HelperKind::Signal) => j.classes.push("helper:signal"),
    }
    if acted.is_some() {
        j.classes.push(if waking.is_some() { "helper_acted_during_dispatch" } else { "signal_delivered_during_dispatch" });
    }
    // which bound ended the wait
    let helper_limit = waking.map(|(about, _)| about.saturating_duration_since(o.t_before));
    j.classes.push(match (limit, helper_limit) {
        (Some(l), Some(hd)) if hd < l => "limit:helper",
        (None, Some(_)) => "limit:helper",
        (Some(l), _) if l.is_zero() => "limit:immediate",
        (Some(l), _) if Some(l) == timeout && until_timer.map_or(true, |u| u >= l) => "limit:timeout",
        (Some(_), _) => "limit:timer",
        (None, None) => "limit:none",
    });
    if o.last_warmup_callbacks > 0 {
        j.classes.push("warmup_not_quiescent");
    }
    if unexpected > 0 {
        j.classes.push("unexpected_callback_lower_bound_excused");
    }
    if rescued {
        j.classes.push("rescued_by_watchdog");
    }
    let waited = limit.map_or(true, |l| !l.is_zero());
    j.nontrivial = waited && ((timeout.is_some() && earliest.is_some()) || dead_peer);
    if waited {
        j.classes.push("waited");
    }
    if waited && dead_peer {
        j.classes.push("waited_with_dead_peer");
    }

    let describe = || {
        format!(
            "timeout={:?} timers={:?} (deadline-t_before ms: {:?}) idle={:?} helper={:?} acted(ms after t_before)={:?} rescued={} trace={:?}",
            c.timeout,
            c.timers,
            o.deadlines
                .iter()
                .map(|d| d.map(|d| if d >= o.t_before { ms(d - o.t_before) } else { -ms(o.t_before - d) }))
                .collect::<Vec<_>>(),
            c.idle,
            c.helper,
            o.acted.map(|(a, b)| (ms(a.saturating_duration_since(o.t_before)), ms(b.saturating_duration_since(o.t_before)))),
            rescued,
            o.trace.iter().map(|(s, t)| (*s, ms(t.saturating_duration_since(o.t_before)))).collect::<Vec<_>>(),
        )
    };

    // ---- the watchdog's LoopSignal::wakeup() must end a dispatch that is blocked (exact: 300 ms without effect) ----
    if o.rescued_by_event {
        j.classes.push("rescue_wakeup_ignored");
        j.soft.push(
            Violation::new(
                "C12.long",
                format!("the watchdog's wakeup() did not end the dispatch within 300 ms; a ping event had to end it after {:.0} ms. {}", ms(elapsed), describe()),
            )
            .with_sig(SIG_WAKEUP_IGNORED),
        );
    }

    // ---- a timer never fires before its deadline (whatever ended the wait): exact ----------------
    for (n, (src, t)) in o.trace.iter().chain(o.follow.iter().flat_map(|f| f.2.iter())).enumerate() {
        if let Src::Timer(i) = src {
            // second firing of a periodic timer: its deadline is (first callback instant + period) or later
            let rearmed = match c.timers.get(*i) {
                Some(TimerSpec::Periodic { period_ms, self_remove: false, .. }) if n >= o.trace.len() => {
                    o.trace.iter().find(|(s, _)| *s == Src::Timer(*i)).map(|(_, at)| *at + Duration::from_millis(*period_ms as u64))
                }
                _ => None,
            };
            let late = i.checked_sub(c.timers.len()).and_then(|k| o.late_deadlines.get(k).copied());
            if let Some(d) = rearmed.or(late).or_else(|| o.deadlines.get(*i).copied().flatten()).as_ref() {
                if *t < *d {
                    j.hard.push(
                        Violation::new(
                            "C12.short",
                            format!("timer {i} fired {:.3} ms before its deadline (the wait was ended by something else). {}", ms(*d - *t), describe()),
                        )
                        .with_sig(SIG_TIMER_EARLY),
                    );
                }
            }
        }
    }

    // ---- lower bound: exact ------------------------------------------------------------------
    // `short`: the call returned before anything could legitimately end it; then a limiting timer
    // that did not fire is a consequence of the same early return, not a second finding
    let mut short = false;
    if unexpected == 0 && !rescued {
        let lb = match (limit, helper_limit) {
            (Some(l), Some(hd)) => Some(l.min(hd)),
            (l, hd) => l.or(hd),
        };
        match lb {
            Some(lb) => {
                if elapsed < lb {
                    short = true;
                    j.hard.push(
                        Violation::new(
                            "C12.short",
                            format!(
                                "dispatch returned after {:.3} ms with no event and no wake-up before that; it had to wait at least {:.3} ms (L={:?} ms, helper about to act at {:?} ms). {}",
                                ms(elapsed),
                                ms(lb),
                                limit.map(ms),
                                helper_limit.map(ms),
                                describe()
                            ),
                        )
                        .with_sig(SIG_SHORT),
                    );
                }
            }
            None => {
                // None timeout, no timer, helper has not begun to act, nobody rescued: nothing
                // could legitimately end this wait
                short = true;
                j.hard.push(
                    Violation::new(
                        "C12.none",
                        format!(
                            "dispatch(None) with no armed timer returned after {:.3} ms although no event arrived and no wake-up had been issued yet. {}",
                            ms(elapsed),
                            describe()
                        ),
                    )
                    .with_sig(SIG_NONE_EARLY),
                );
            }
        }
    }

    // ---- the limiting timer fired: exact -----------------------------------------------------
    if unexpected == 0 {
        let mut must_fire: Vec<usize> = Vec::new();
        for (i, d) in o.deadlines.iter().enumerate() {
            let Some(d) = *d else { continue };
            // "that timer": the earliest deadline is the limit (ties: all of them); later timers,
            // even expired ones, are C05's business
            if Some(d) != earliest {
                continue;
            }
            if d <= o.t_before {
                // expired before the call: `now` after the wait is >= t_before >= deadline,
                // whatever else happened in this dispatch
                must_fire.push(i);
            } else if waking.is_none() && !rescued && !short {
                // this timer ends the wait, at least 1 ms before the timeout would: the wait ends
                // at/after its deadline and next_expired(now) must pop it
                let is_limit = match timeout {
                    None => true,
                    Some(t) => d + FIRE_MARGIN <= o.t_before + t,
                };
                if is_limit {
                    must_fire.push(i);
                }
            }
        }
        if !must_fire.is_empty() {
            j.classes.push("timer_was_limit");
        }
        let missing: Vec<usize> = must_fire.into_iter().filter(|i| !fired(*i)).collect();
        if !missing.is_empty() {
            j.hard.push(
                Violation::new(
                    "C12.short",
                    format!(
                        "dispatch returned after {:.3} ms without firing timer(s) {:?} that limited the wait (deadline reached before the call could return). {}",
                        ms(elapsed),
                        missing,
                        describe()
                    ),
                )
                .with_sig(SIG_NOT_FIRED),
            );
        }
    }

    // ---- upper bounds: scheduling latency, confirmed 3x by the caller -------------------------
    // time the before_sleep hooks of this configuration take (they run before the wait, inside the call)
    let hook = SLOW_HOOK * c.idle.iter().filter(|i| matches!(i, Idle::SlowHook)).count() as u32;
    if !hook.is_zero() {
        j.classes.push("slow_before_sleep_hook");
    }
    // upper limit: a timer deadline is absolute (the hooks' time is absorbed unless they outlast it), a timeout
    // starts when the wait starts, i.e. after the hooks
    let limit_ub: Option<Duration> = match (timeout, until_timer) {
        (Some(t), Some(u)) => Some((hook + t).min(u.max(hook))),
        (Some(t), None) => Some(hook + t),
        (None, Some(u)) => Some(u.max(hook)),
        (None, None) => None,
    };
    let helper_done = waking.map(|(_, done)| done.saturating_duration_since(o.t_before).max(hook));
    let ub = match (limit_ub, helper_done) {
        (Some(l), Some(hd)) => Some(l.min(hd)),
        (l, hd) => l.or(hd),
    };
    // distribution of the measured oversleep (how far the box is from the 60 ms slack)
    if let Some(ub) = if c.timeout == Tmo::Zero { Some(hook) } else { ub } {
        let over = elapsed.saturating_sub(ub);
        j.classes.push(if over < Duration::from_millis(1) {
            "oversleep:<1ms"
        } else if over < Duration::from_millis(5) {
            "oversleep:1-5ms"
        } else if over < Duration::from_millis(20) {
            "oversleep:5-20ms"
        } else if over <= SLACK {
            "oversleep:20-60ms"
        } else {
            "oversleep:>60ms"
        });
    }
    if c.timeout == Tmo::Zero {
        if elapsed > hook + SLACK {
            j.soft.push(
                Violation::new(
                    "C12.zero",
                    format!("dispatch(0) took {:.3} ms (> {} ms slack). {}", ms(elapsed), SLACK.as_millis(), describe()),
                )
                .with_sig(SIG_ZERO),
            );
        }
    } else if none_unbounded && rescued {
        j.soft.push(
            Violation::new(
                "C12.none",
                format!(
                    "dispatch(None) with no armed timer did not return after the helper's {:?} and had to be ended by the watchdog after {:.0} ms. {}",
                    helper_kind,
                    ms(elapsed),
                    describe()
                ),
            )
            .with_sig(SIG_NONE_RESCUED),
        );
    } else if let Some(ub) = ub {
        if elapsed > ub + SLACK {
            j.soft.push(
                Violation::new(
                    "C12.long",
                    format!(
                        "dispatch took {:.3} ms but its limit was {:.3} ms (L={:?} ms, helper action completed at {:?} ms; slack {} ms){}. {}",
                        ms(elapsed),
                        ms(ub),
                        limit.map(ms),
                        helper_done.map(ms),
                        SLACK.as_millis(),
                        if rescued { "; ended by the watchdog" } else { "" },
                        describe()
                    ),
                )
                .with_sig(SIG_LONG),
            );
        }
    }
    // the helper's event arrived clearly before the limit: its callback ran in this dispatch
    if let (Some((_, done)), Some(HelperKind::Ping | HelperKind::Channel)) = (waking, helper_kind) {
        let before_limit = match limit {
            None => true,
            Some(l) => done + FIRE_MARGIN <= o.t_before + l,
        };
        if before_limit && !target_ran && unexpected == 0 {
            j.soft.push(
                Violation::new(
                    "C12.long",
                    format!(
                        "the helper's {:?} completed {:.3} ms after the dispatch began, before the limit {:?} ms, but the dispatch ({:.3} ms) returned without running its callback: the event was slept over. {}",
                        helper_kind,
                        ms(done.saturating_duration_since(o.t_before)),
                        limit.map(ms),
                        ms(elapsed),
                        describe()
                    ),
                )
                .with_sig(SIG_LONG_HELPER),
            );
        }
    }

    // ---- follow-up dispatch ---------------------------------------------------------------------
    // judged only when nothing but timers can end it: no waking helper in the case (a wake-up that lands between
    // the end of the first wait and the assistant's cancellation would legitimately end the second one), no rescue
    if let Some((b2, a2, trace2)) = &o.follow {
        j.classes.push("follow_up_dispatch");
        let quiet_helper = matches!(helper_kind, None | Some(HelperKind::Signal));
        if quiet_helper && !rescued && o.rescued.is_none() {
            let elapsed2 = *a2 - *b2;
            let follow_t = Duration::from_millis(c.follow.unwrap_or(0) as u64);
            // still armed: live deadlines whose timer did not fire in the first dispatch
            let mut live2: Vec<(usize, Instant)> =
                o.deadlines.iter().enumerate().filter_map(|(i, d)| d.map(|d| (i, d))).filter(|(i, _)| !fired(*i)).collect();
            // a periodic timer that fired in the first dispatch re-armed itself for (callback instant + period) or later
            for (i, t) in c.timers.iter().enumerate() {
                if let TimerSpec::Periodic { period_ms, self_remove: false, .. } = t {
                    if let Some((_, at)) = o.trace.iter().find(|(s, _)| *s == Src::Timer(i)) {
                        live2.push((i, *at + Duration::from_millis(*period_ms as u64)));
                    }
                }
            }
            for (k, d) in o.late_deadlines.iter().enumerate() {
                live2.push((c.timers.len() + k, *d));
            }
            if !o.late_deadlines.is_empty() {
                j.classes.push("follow_up_with_timers_inserted_after_the_first_dispatch");
            }
            let earliest2 = live2.iter().map(|(_, d)| *d).min();
            let l2 = earliest2.map_or(follow_t, |d| follow_t.min(d.saturating_duration_since(*b2)));
            let unexpected2 = trace2
                .iter()
                .filter(|(s, _)| match s {
                    Src::Timer(i) => !live2.iter().any(|(k, _)| k == i),
                    _ => true,
                })
                .count();
            let fired2 = |i: usize| trace2.iter().any(|(s, _)| *s == Src::Timer(i));
            let describe2 = || {
                format!(
                    "follow-up dispatch({} ms) began {:.3} ms after the first one began; still armed (deadline - its start, ms): {:?}; its trace={:?}; first dispatch: {}",
                    follow_t.as_millis(),
                    ms(*b2 - o.t_before),
                    live2.iter().map(|(i, d)| (*i, if *d >= *b2 { ms(*d - *b2) } else { -ms(*b2 - *d) })).collect::<Vec<_>>(),
                    trace2.iter().map(|(s, t)| (*s, ms(t.saturating_duration_since(*b2)))).collect::<Vec<_>>(),
                    describe()
                )
            };
            if !l2.is_zero() {
                j.classes.push("follow_up_waited");
                if c.timers.iter().any(|t| t.former() || matches!(t, TimerSpec::Rearmed { .. })) || o.deadlines.iter().enumerate().any(|(i, d)| d.is_some() && fired(i)) {
                    // a former, re-armed or already fired timer exists: a ghost entry would shorten this wait
                    j.classes.push("follow_up_waited_after_timer_left");
                    j.nontrivial = true;
                }
            }
            if unexpected2 > 0 {
                j.classes.push("follow_up_unexpected_callback");
                // a callback of a timer that is not armed any more has no cause at all
                if let Some((Src::Timer(i), _)) = trace2.iter().find(|(s, _)| matches!(s, Src::Timer(i) if !live2.iter().any(|(k, _)| k == i) && !c.timers.get(*i).map_or(false, |t| t.former()))) {
                    j.hard.push(
                        Violation::new("C12.short", format!("timer {i} fired a second time in the follow-up dispatch. {}", describe2()))
                            .with_sig(SIG_SHORT),
                    );
                }
            } else {
                if elapsed2 < l2 {
                    j.hard.push(
                        Violation::new(
                            "C12.short",
                            format!(
                                "follow-up dispatch returned after {:.3} ms with no event; it had to wait at least {:.3} ms. {}",
                                ms(elapsed2),
                                ms(l2),
                                describe2()
                            ),
                        )
                        .with_sig(SIG_SHORT),
                    );
                } else {
                    // the limiting timer(s): overdue when the follow-up began, or ending its wait at least 1 ms before the
                    // timeout would (the wait then ends at / after the deadline and next_expired(now) must pop it)
                    let missing: Vec<usize> = live2
                        .iter()
                        .filter(|(_, d)| Some(*d) == earliest2 && (*d <= *b2 || *d + FIRE_MARGIN <= *b2 + follow_t))
                        .map(|(i, _)| *i)
                        .filter(|i| !fired2(*i))
                        .collect();
                    if !missing.is_empty() {
                        j.hard.push(
                            Violation::new(
                                "C12.short",
                                format!("follow-up dispatch returned after {:.3} ms without firing timer(s) {:?} that limited its wait (or were overdue when it began). {}", ms(elapsed2), missing, describe2()),
                            )
                            .with_sig(SIG_NOT_FIRED),
                        );
                    }
                }
                if elapsed2 > l2 + SLACK {
                    j.soft.push(
                        Violation::new(
                            "C12.long",
                            format!("follow-up dispatch took {:.3} ms but its limit was {:.3} ms (slack {} ms). {}", ms(elapsed2), ms(l2), SLACK.as_millis(), describe2()),
                        )
                        .with_sig(SIG_LONG),
                    );
                }
            }
        } else {
            j.classes.push("follow_up_not_judged_helper_or_rescue");
        }
    }
    j
}

/// Run one configuration and judge it. Pure function of the case and the code under test.
pub fn run_case_with(known: &Known, case: &Case) -> CaseOutcome {
    let c = normalise(case);
    let mut info = CaseInfo { fingerprint: fingerprint(&c), ..CaseInfo::default() };
    let o = run_once(&c);
    let j = judge(&c, &o);
    info.nontrivial = j.nontrivial;
    info.classes = j.classes;
    let elapsed_us = (o.t_after - o.t_before).as_micros() as u64;
    info.counters.push(("measured_wait_us_total", elapsed_us));

    let mut excluded = 0u64;
    let mut pick = |vs: Vec<Violation>| -> Option<Violation> {
        let mut first = None;
        for v in vs {
            if known.is_open(&v.sig) {
                excluded += 1;
            } else if first.is_none() {
                first = Some(v);
            }
        }
        first
    };
    let hard = pick(j.hard);
    let soft = pick(j.soft);
    let mut viol = hard;
    if viol.is_none() {
        if let Some(s) = soft {
            // a systematic oversleep is deterministic, a scheduler hiccup is not: the same
            // configuration must miss the same rule three times in a row
            info.classes.push("upper_bound_miss_rechecked");
            let mut confirmed = true;
            let mut last = s;
            for _ in 0..2 {
                // calibration: if a plain 2 ms sleep oversleeps by a third of the slack, the box is overloaded and an
                // upper-bound miss says nothing about calloop (inconclusive, never a violation)
                let t0 = Instant::now();
                std::thread::sleep(Duration::from_millis(2));
                if t0.elapsed() > Duration::from_millis(2) + SLACK / 3 {
                    info.classes.push("upper_bound_miss_inconclusive_box_overloaded");
                    confirmed = false;
                    break;
                }
                let o2 = run_once(&c);
                let j2 = judge(&c, &o2);
                match j2.soft.into_iter().find(|v| v.sig == last.sig) {
                    Some(v) => last = v,
                    None => {
                        confirmed = false;
                        break;
                    }
                }
            }
            if confirmed {
                last.detail = format!("[3 of 3 runs] {}", last.detail);
                viol = Some(last);
            } else {
                info.classes.push("upper_bound_miss_not_reproduced");
            }
        }
    }
    info.excluded_known = excluded;
    (info, viol)
}

// ------------------------------------------------------------------------------------------------
// class cross product: timeout class x timer-relation class x idle-source kind
// ------------------------------------------------------------------------------------------------

const ALL_IDLE: [Idle; 25] = [
    Idle::Comp { a: 1, b: 1, used: 1, late: false },
    Idle::Comp { a: 1, b: 0, used: 2, late: true },
    Idle::Comp { a: 2, b: 2, used: 2, late: false },
    Idle::Comp { a: 0, b: 2, used: 1, late: true },
    Idle::SlowHook,
    Idle::PingLive { used: false },
    Idle::PingLive { used: true },
    Idle::PingDead { used: false },
    Idle::PingDead { used: true },
    Idle::ChanLive { used: false },
    Idle::ChanLive { used: true },
    Idle::ChanDead { used: false },
    Idle::ChanDead { used: true },
    Idle::ExecLive { used: false },
    Idle::ExecLive { used: true },
    Idle::ExecNoSched { used: false },
    Idle::ExecNoSched { used: true },
    Idle::StreamEnded { items: 2 },
    Idle::StreamPending,
    Idle::GenericEmpty,
    Idle::GenericRead { used: false },
    Idle::GenericRead { used: true },
    Idle::DisabledPinged,
    Idle::ChanFull { bound: 1 },
    Idle::ChanFull { bound: 3 },
];

/// All combinations of (timeout class) x (timer relation class) x (no idle source | each idle kind),
/// with one fixed representative inside each class. `include_long_waits` adds the combinations
/// whose correct wait is the full 400 ms.
fn cross_product(include_long_waits: bool) -> Vec<Case> {
    let timeouts = [Tmo::Zero, Tmo::Ms(7), Tmo::Ms(25), Tmo::Long, Tmo::None];
    let mut out = Vec::new();
    for &timeout in &timeouts {
        let earlier_ms = match timeout {
            Tmo::Ms(7) => 3,
            _ => 9,
        };
        let relations: [Vec<TimerSpec>; 21] = [
            vec![],
            vec![TimerSpec::Expired { ago_ms: 2 }],
            vec![TimerSpec::At { ms: earlier_ms }],
            vec![TimerSpec::Equal],
            vec![TimerSpec::Later { ms: 6 }],
            vec![TimerSpec::Far],
            vec![TimerSpec::Never],
            // a far timer stays armed, an earlier one was removed (it is not the top of the heap
            // for timeouts where Far is later, and is the only short deadline)
            vec![TimerSpec::Far, TimerSpec::Removed { ms: 4 }],
            // two removed timers, the later one removed first (while it is not the top of the heap)
            vec![TimerSpec::Far, TimerSpec::Removed { ms: 9 }, TimerSpec::Removed { ms: 4 }],
            // former / re-armed timers; these four get a follow-up dispatch of 15 ms
            vec![TimerSpec::Far, TimerSpec::RemovedOverdue { ago_ms: 3 }],
            vec![TimerSpec::Far, TimerSpec::Disabled { ms: -3 }, TimerSpec::Disabled { ms: 5 }],
            vec![TimerSpec::Far, TimerSpec::Rearmed { old_ms: 6, new_ms: -1, from: 0 }],
            vec![TimerSpec::Rearmed { old_ms: -2, new_ms: 4, from: 0 }, TimerSpec::Rearmed { old_ms: 3, new_ms: 30, from: 0 }],
            // a timer without any deadline (created so / pushed there) that is given a near one by set_deadline + update
            vec![TimerSpec::Far, TimerSpec::Rearmed { old_ms: 0, new_ms: 8, from: 1 }],
            vec![TimerSpec::Rearmed { old_ms: 5, new_ms: 12, from: 2 }],
            // the deadline field changed without update(): the arming in force is the old one
            vec![TimerSpec::Far, TimerSpec::Rearmed { old_ms: 6, new_ms: 30, from: 3 }],
            vec![TimerSpec::Rearmed { old_ms: 9, new_ms: 2, from: 3 }],
            // an overdue timer whose callback removes the timer and still asks for a re-arming
            vec![TimerSpec::Far, TimerSpec::Periodic { ago_ms: 2, period_ms: 6, self_remove: true }],
            // a one-shot and a repeating timer overdue in the same dispatch (either insertion order; the one-shot is the
            // earlier one and leaves the wheel empty while the repeating one is in flight), then new timers
            vec![TimerSpec::Periodic { ago_ms: 1, period_ms: 6, self_remove: false }, TimerSpec::Expired { ago_ms: 3 }],
            vec![TimerSpec::Expired { ago_ms: 3 }, TimerSpec::Periodic { ago_ms: 1, period_ms: 6, self_remove: false }],
            vec![TimerSpec::AtLate],
        ];
        for timers in relations {
            for k in 0..=ALL_IDLE.len() {
                let idle = if k == 0 { vec![] } else { vec![ALL_IDLE[k - 1]] };
                let follow = if timers.iter().any(|t| matches!(t, TimerSpec::RemovedOverdue { .. } | TimerSpec::Disabled { .. } | TimerSpec::Rearmed { .. } | TimerSpec::Periodic { .. })) {
                    Some(15)
                } else {
                    None
                };
                let late = if follow.is_some() && timers.iter().any(|t| matches!(t, TimerSpec::Periodic { .. })) { vec![9, 14] } else { vec![] };
                let c = normalise(&Case { timeout, timers: timers.clone(), idle, helper: None, follow, late, queued_idles: (k % 4) as u8 });
                if !include_long_waits && planned_bound_ms(&c).map_or(true, |b| b > 60) {
                    continue;
                }
                out.push(c);
            }
        }
    }
    out
}

fn run_enumeration(ctx: &CheckCtx, known: &Known, cases: &[Case], workers: usize) -> Option<Found> {
    let next = AtomicUsize::new(0);
    let stop = AtomicBool::new(false);
    let found: Mutex<Option<(Case, Violation)>> = Mutex::new(None);
    std::thread::scope(|sc| {
        for _ in 0..workers {
            sc.spawn(|| loop {
                let i = next.fetch_add(1, Ordering::Relaxed);
                if i >= cases.len() || stop.load(Ordering::Relaxed) {
                    break;
                }
                let c = &cases[i];
                match catch_unwind(AssertUnwindSafe(|| run_case_with(known, c))) {
                    Ok((mut info, viol)) => {
                        info.classes.push("enumerated:class_cross_product");
                        ctx.col.record(&info, || serde_json::to_value(c).unwrap_or_default());
                        if let Some(v) = viol {
                            stop.store(true, Ordering::Relaxed);
                            let mut g = found.lock().unwrap();
                            if g.is_none() {
                                *g = Some((c.clone(), v));
                            }
                        }
                    }
                    Err(p) => {
                        ctx.infra_error(format!(
                            "harness panic in C12 enumeration: {} on case {}",
                            crate::driver::panic_msg(&p),
                            serde_json::to_string(c).unwrap_or_default()
                        ));
                        stop.store(true, Ordering::Relaxed);
                    }
                }
            });
        }
    });
    let (case, v) = found.into_inner().unwrap()?;
    // same discipline as the search: confirm twice more
    for _ in 0..2 {
        match catch_unwind(AssertUnwindSafe(|| run_case_with(known, &case))) {
            Ok((_, Some(v2))) if v2.rule == v.rule => {}
            _ => {
                ctx.infra_error(format!(
                    "config: enumerated failure {} did not reproduce: {} case {}",
                    v.rule,
                    v.detail,
                    serde_json::to_string(&case).unwrap_or_default()
                ));
                return None;
            }
        }
    }
    Some(Found { sub: "config".into(), violation: v, case: serde_json::to_value(&case).unwrap_or_default(), replay_path: None })
}

// ------------------------------------------------------------------------------------------------
// entry points
// ------------------------------------------------------------------------------------------------

const WORKERS: usize = 4;

pub fn check(ctx: &CheckCtx) -> Option<Found> {
    let known = Known::from_ctx(ctx);
    let run = |c: &Case| run_case_with(&known, c);
    // the replay tier runs without steering, so that the replay of an open finding still shows
    // it (the driver then prints its KNOWN-FINDING line); the searches steer around open shapes
    let strict = Known::default();
    if let Some(f) = ctx.run_replays::<Case, _>("config", |c: &Case| run_case_with(&strict, c)) {
        return Some(f);
    }
    // class cross product (quick: without the combinations that wait the full 400 ms)
    let thorough = ctx.tier == Tier::Thorough;
    let cross = cross_product(thorough);
    let n_cross = cross.len();
    if let Some(f) = run_enumeration(ctx, &known, &cross, WORKERS) {
        return Some(f);
    }
    if thorough {
        ctx.col.exhaustive(
            "class cross product: 5 timeout classes x 14 timer-relation classes x (no idle source + 19 idle-source kinds), one fixed representative inside each class",
        );
    } else {
        ctx.col.note(format!(
            "class cross product restricted to the {n_cross} combinations whose correct wait is <= 60 ms (thorough runs all 1400)"
        ));
    }
    ctx.col.set_sub("config.cross_product", serde_json::json!({ "combinations": n_cross }));
    let cases = ctx.tier.pick(1_200, 40_000);
    let budget = ctx.tier.pick(None, Some(Duration::from_secs(1_500)));
    let found = ctx.search("config", case_strategy(), cases, WORKERS, budget, run);
    ctx.col.set_sub("config.signals_handled_by_loop_threads", serde_json::json!(SIGNALS_HANDLED.load(Ordering::Relaxed)));
    found
}

pub fn replay(ctx: &CheckCtx, _sub: &str, case: serde_json::Value) -> Result<Option<Violation>, String> {
    let c: Case = serde_json::from_value(case).map_err(|e| e.to_string())?;
    let known = Known::from_ctx(ctx);
    Ok(run_case_with(&known, &c).1)
}
