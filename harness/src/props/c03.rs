//! C03 — ping wake-ups are never lost across threads; they coalesce; close is clean.
//!
//! (a) sched: k actor threads with cloned Ping handles against a dispatching loop thread, the
//!     interleaving of every eventfd write / drain read / handle drop is the generated schedule.
//! (b) hist: single-thread histories of ping/clone/drop/disable/enable/dispatch through the history machine.

use crate::driver::{CaseOutcome, CheckCtx, Found, PropMeta, Tier, Violation};
use crate::evidence::{fingerprint, CaseInfo};
use crate::hist::ops::Profile;
use crate::props::histprops::{hist_replay, run_case_for, HistProp};
use crate::sched::{self, CaseCtl, RunEnd};
use calloop::ping::{make_ping, Ping};
use calloop::verif::Site;
use calloop::EventLoop;
use proptest::prelude::*;
use serde::{Deserialize, Serialize};
use std::sync::atomic::{AtomicBool, Ordering};
use std::sync::{mpsc, Arc, Mutex};
use std::time::{Duration, Instant};

pub static META: PropMeta = PropMeta {
    id: "C03",
    level: "exploration",
    rule: "cases: (a) sched: 1..4 actor threads with programs of ping/clone/drop (1..6 steps) on cloned Ping handles against a loop thread doing zero-timeout dispatches; the schedule (which thread advances at each yield site: before/after every eventfd write, before/after the drain read, between harness steps) is generated; optional handle kept alive by the harness. oracle on the logical clock of the controller: every ping that returned is followed by a callback that starts after the ping began; at most one callback per dispatch; every callback has a ping whose write can have landed after the previous drain; when all handles are gone the source removes itself (slot freed) and a 2 ms dispatch afterwards waits its full timeout; with a handle alive the source stays. (b) hist: single-thread histories of ping/clone/drop/disable/enable/dispatch judged by the history monitor. (c) free: the same actor programs on 2..4 free-running OS threads released together by a spin barrier (real concurrency, for races whose window has no yield site) against the dispatching loop; oracle on CLOCK_MONOTONIC instants: every ping followed by a callback that started after it began, callbacks <= pings, none before the first ping, the source gone (or kept) after all actors finished and 3 more dispatches, no spinning afterwards. non-trivial (sched): some actor step is scheduled between the loop's drain read and the end of that dispatch, or a handle drop is scheduled between the write sites of another thread's ping; (hist): a ping handle dropped or a disable/enable with a ping pending. distinct by case fingerprint",
    assumptions: &[
        "interleavings are explored at the granularity of the yield sites of the hook commit, on x86-TSO with the real atomics; preemption inside a site-free region and weaker memory orderings are not explored",
        "a thread that blocks in the kernel is detected through /proc/self/task/<tid>/stat",
    ],
};

#[derive(Serialize, Deserialize, Debug, Clone, Copy, Hash, PartialEq, Eq)]
pub enum AOp {
    Ping,
    Clone,
    Drop,
}

#[derive(Serialize, Deserialize, Debug, Clone, Hash)]
pub struct Case {
    pub actors: Vec<Vec<AOp>>,
    pub schedule: Vec<u8>,
    /// the harness keeps one extra handle alive until after the final checks
    pub keep_one: bool,
    /// schedule entries are exact choice indices (DFS enumeration) instead of scaled bytes
    #[serde(default)]
    pub exact: bool,
    /// the loop thread performs exactly this many scheduled dispatches (bounded configurations for DFS)
    #[serde(default)]
    pub loop_dispatches: Option<u8>,
}

fn aop() -> impl Strategy<Value = AOp> {
    prop_oneof![5 => Just(AOp::Ping), 2 => Just(AOp::Clone), 3 => Just(AOp::Drop)]
}

pub fn schedule_strategy(max: usize) -> impl Strategy<Value = Vec<u8>> {
    // bursts: (choice, run length) pairs expanded, so that both fine interleavings and long runs of one thread occur
    proptest::collection::vec((any::<u8>(), 1usize..5), 0..max / 2).prop_map(|v| {
        let mut out = Vec::new();
        for (c, n) in v {
            for _ in 0..n {
                out.push(c);
            }
        }
        out
    })
}

fn case_strategy() -> impl Strategy<Value = Case> {
    (
        proptest::collection::vec(proptest::collection::vec(aop(), 1..=6), 1..=4),
        schedule_strategy(160),
        prop::bool::weighted(0.25),
    )
        .prop_map(|(actors, schedule, keep_one)| Case { actors, schedule, keep_one, exact: false, loop_dispatches: None })
}

#[derive(Debug, Clone)]
enum Rec {
    Ping { b: u64, e: u64 },
    Drop { b: u64, e: u64, actor: usize },
    Cb { t: u64, disp: u32 },
    DispBegin { t: u64, n: u32 },
    DispEnd { t: u64, n: u32 },
}

pub struct SchedOut {
    pub viol: Option<Violation>,
    pub nontrivial: bool,
    pub classes: Vec<&'static str>,
    pub branching: Vec<u8>,
    pub infra: Option<String>,
}

pub fn run_sched(case: &Case, idle_check: bool) -> SchedOut {
    sched::install_hook();
    let n_actors = case.actors.len();
    let ctl = CaseCtl::new(n_actors + 1);
    let loop_idx = n_actors;
    let rec: Arc<Mutex<Vec<Rec>>> = Arc::new(Mutex::new(Vec::new()));
    let (tx_handles, rx_handles) = mpsc::channel::<Vec<Ping>>();
    let (tx_keep, rx_keep) = mpsc::channel::<Option<Ping>>();
    let actors_done = Arc::new(AtomicBool::new(false));
    let result: Arc<Mutex<Option<(usize, bool, f64, u32)>>> = Arc::new(Mutex::new(None));

    let mut out = SchedOut { viol: None, nontrivial: false, classes: vec![], branching: vec![], infra: None };
    let keep_one = case.keep_one;
    let fixed_dispatches = case.loop_dispatches;

    let info = std::thread::scope(|sc| {
        let mut loop_join = None;
        // loop thread
        {
            let ctl = ctl.clone();
            let rec = rec.clone();
            let actors_done = actors_done.clone();
            let result = result.clone();
            loop_join = Some(sc.spawn(move || {
                let mut el: EventLoop<'static, u32> = EventLoop::try_new().expect("event loop");
                let (ping, source) = make_ping().expect("make_ping");
                let rec2 = rec.clone();
                el.handle()
                    .insert_source(source, move |(), _, disp: &mut u32| {
                        let t = sched::tick();
                        rec2.lock().unwrap().push(Rec::Cb { t, disp: *disp });
                        // a scheduling point inside the callback: pings and handle drops may land between the drain and
                        // the end of the source's event processing
                        sched::harness_yield();
                    })
                    .expect("insert ping");
                let handles: Vec<Ping> = (0..n_actors).map(|_| ping.clone()).collect();
                tx_handles.send(handles).unwrap();
                tx_keep.send(if keep_one { Some(ping.clone()) } else { None }).unwrap();
                drop(ping);
                let mut disp_no = 0u32;
                ctl.enrolled(loop_idx, || {
                    let mut after = 0;
                    loop {
                        sched::harness_yield();
                        disp_no += 1;
                        let mut d = disp_no;
                        rec.lock().unwrap().push(Rec::DispBegin { t: sched::tick(), n: disp_no });
                        el.dispatch(Some(Duration::ZERO), &mut d).expect("dispatch");
                        rec.lock().unwrap().push(Rec::DispEnd { t: sched::tick(), n: disp_no });
                        if let Some(n) = fixed_dispatches {
                            if disp_no >= n as u32 {
                                break;
                            }
                            continue;
                        }
                        if actors_done.load(Ordering::SeqCst) {
                            after += 1;
                            if after >= 2 {
                                break;
                            }
                        }
                        if disp_no >= 60 {
                            break;
                        }
                    }
                });
                // wait until every actor has finished (the controller keeps scheduling them), then flush un-enrolled
                let tw = Instant::now();
                while !actors_done.load(Ordering::SeqCst) && tw.elapsed() < Duration::from_secs(20) {
                    std::thread::sleep(Duration::from_micros(50));
                }
                // quiescence: un-enrolled flush
                for _ in 0..3 {
                    disp_no += 1;
                    let mut d = disp_no;
                    rec.lock().unwrap().push(Rec::DispBegin { t: u64::MAX - 1, n: disp_no });
                    el.dispatch(Some(Duration::ZERO), &mut d).expect("dispatch");
                    rec.lock().unwrap().push(Rec::DispEnd { t: u64::MAX - 1, n: disp_no });
                }
                let occupied = el.handle().verif_stats().occupied_slots;
                // no spinning once the source is gone (or idle): a short dispatch must wait its timeout
                let ncb_before = rec.lock().unwrap().iter().filter(|r| matches!(r, Rec::Cb { .. })).count();
                let t0 = Instant::now();
                let mut d = disp_no + 1;
                let idle_to = if idle_check { Duration::from_millis(2) } else { Duration::ZERO };
                el.dispatch(Some(idle_to), &mut d).expect("dispatch");
                let el_ms = if idle_check { t0.elapsed().as_secs_f64() * 1000.0 } else { 1e9 };
                let ncb_after = rec.lock().unwrap().iter().filter(|r| matches!(r, Rec::Cb { .. })).count();
                *result.lock().unwrap() = Some((occupied, ncb_after != ncb_before, el_ms, disp_no));
            }));
        }
        let mut handles = rx_handles.recv().expect("handles");
        let kept = rx_keep.recv().expect("keep");
        // actor threads
        let mut joins = vec![];
        for (ai, prog) in case.actors.iter().enumerate().rev() {
            let h = handles.pop().unwrap();
            let ctl = ctl.clone();
            let rec = rec.clone();
            let prog = prog.clone();
            joins.push(sc.spawn(move || {
                ctl.enrolled(ai, || {
                    let mut hs: Vec<Ping> = vec![h];
                    for op in prog {
                        sched::harness_yield();
                        match op {
                            AOp::Ping => {
                                if let Some(p) = hs.last() {
                                    let b = sched::tick();
                                    p.ping();
                                    let e = sched::tick();
                                    rec.lock().unwrap().push(Rec::Ping { b, e });
                                }
                            }
                            AOp::Clone => {
                                if let Some(p) = hs.last().cloned() {
                                    if hs.len() < 4 {
                                        hs.push(p);
                                    }
                                }
                            }
                            AOp::Drop => {
                                if let Some(p) = hs.pop() {
                                    let b = sched::tick();
                                    drop(p);
                                    let e = sched::tick();
                                    rec.lock().unwrap().push(Rec::Drop { b, e, actor: ai });
                                }
                            }
                        }
                    }
                    // remaining handles are dropped under the schedule as well
                    while let Some(p) = hs.pop() {
                        sched::harness_yield();
                        let b = sched::tick();
                        drop(p);
                        let e = sched::tick();
                        rec.lock().unwrap().push(Rec::Drop { b, e, actor: ai });
                    }
                })
            }));
        }
        // watcher: flag when all actors are finished (the loop thread polls the flag between dispatches)
        let ctl2 = ctl.clone();
        let actors_done2 = actors_done.clone();
        let watcher = sc.spawn(move || {
            let t0 = Instant::now();
            loop {
                if (0..n_actors).all(|i| ctl2.slots[i].state.load(Ordering::SeqCst) == sched::FINISHED) {
                    actors_done2.store(true, Ordering::SeqCst);
                    return;
                }
                if ctl2.abort.load(Ordering::SeqCst) || t0.elapsed() > Duration::from_secs(20) {
                    actors_done2.store(true, Ordering::SeqCst);
                    return;
                }
                std::thread::sleep(Duration::from_micros(50));
            }
        });
        let info = sched::drive(&ctl, &case.schedule, case.exact, 4000, Duration::from_millis(1500));
        if info.end != RunEnd::AllFinished {
            sched::release_all(&ctl);
        }
        let _ = watcher.join();
        for j in joins {
            let _ = j.join();
        }
        // the kept handle must stay alive until the loop thread has finished its final checks
        if let Some(j) = loop_join {
            let _ = j.join();
        }
        drop(kept);
        info
    });

    out.branching = info.branching.clone();
    if info.end != RunEnd::AllFinished {
        out.infra = Some(format!("ping schedule ended {:?} after {} steps (no thread of this check may block)", info.end, info.steps));
        return out;
    }
    let Some((occupied, cb_in_final, final_ms, _)) = *result.lock().unwrap() else {
        out.infra = Some("loop thread produced no result".into());
        return out;
    };
    let recs = rec.lock().unwrap().clone();
    let log = ctl.log.lock().unwrap().clone();

    // drains of the loop thread, from the site log
    let mut drains: Vec<(u64, u64)> = vec![];
    let mut pre = None;
    for e in log.iter().filter(|e| e.thread == loop_idx) {
        if e.site == Site::PING_DRAIN_PRE as u32 {
            pre = Some(e.tick);
        } else if e.site == Site::PING_DRAIN_POST as u32 {
            if let Some(p) = pre.take() {
                drains.push((p, e.tick));
            }
        }
    }
    let pings: Vec<(u64, u64)> = recs.iter().filter_map(|r| if let Rec::Ping { b, e } = r { Some((*b, *e)) } else { None }).collect();
    let cbs: Vec<(u64, u32)> = recs.iter().filter_map(|r| if let Rec::Cb { t, disp } = r { Some((*t, *disp)) } else { None }).collect();

    // (1) served: every ping that returned is followed by a callback that starts after the ping began.
    // Callbacks of the un-enrolled flush have tick 0 (not enrolled): they start after everything.
    for (b, _e) in &pings {
        let served = cbs.iter().any(|(t, _)| *t == 0 || *t > *b);
        if !served {
            out.viol = Some(Violation::new(
                "C03.served",
                format!("ping begun at tick {b} was never followed by a callback (callbacks at {:?}, {} dispatches flushed afterwards)", cbs, 3),
            ));
            return out;
        }
    }
    // (2) coalescing: at most one callback per dispatch
    for w in cbs.windows(2) {
        if w[0].1 == w[1].1 {
            out.viol = Some(Violation::new("C03.coalesce", format!("two callbacks in dispatch #{}", w[0].1)));
            return out;
        }
    }
    // (3) no callback without a ping
    if cbs.len() > pings.len() {
        out.viol = Some(Violation::new("C03.spurious", format!("{} callbacks for {} pings", cbs.len(), pings.len())));
        return out;
    }
    for (t, _) in cbs.iter().filter(|(t, _)| *t != 0) {
        // its drain: the last drain that completed before the callback started
        let di = drains.iter().rposition(|(_, post)| *post < *t);
        let Some(di) = di else { continue };
        let this_post = drains[di].1;
        let prev_pre = if di > 0 { drains[di - 1].0 } else { 0 };
        let has = pings.iter().any(|(b, e)| *b < this_post && *e > prev_pre);
        if !has {
            out.viol = Some(Violation::new(
                "C03.spurious",
                format!("callback at tick {t} (drain {:?}) has no ping whose write can have landed after the previous drain began at {prev_pre}; pings {pings:?}", drains[di]),
            ));
            return out;
        }
    }
    // (4) close
    let want_occ = if keep_one { 1 } else { 0 };
    if occupied != want_occ {
        out.viol = Some(Violation::new(
            "C03.close",
            format!("after all actor handles were dropped (harness keeps one: {keep_one}) the loop has {occupied} occupied slot(s), expected {want_occ}"),
        ));
        return out;
    }
    if cb_in_final {
        out.viol = Some(Violation::new("C03.spurious", "a callback ran in the final idle dispatch".to_string()));
        return out;
    }
    if final_ms < 2.0 {
        out.viol = Some(Violation::new("C03.close", format!("idle 2 ms dispatch after the run returned after {final_ms:.3} ms (spinning)")));
        return out;
    }

    // non-trivial: an actor step between the loop's drain and the end of that dispatch, or a drop between another ping's write sites
    let disp_ends: Vec<u64> = recs.iter().filter_map(|r| if let Rec::DispEnd { t, .. } = r { Some(*t) } else { None }).collect();
    let mut in_window = false;
    for (_, post) in &drains {
        let end = disp_ends.iter().find(|t| **t > *post).copied().unwrap_or(u64::MAX);
        if log.iter().any(|e| e.thread != loop_idx && e.tick > *post && e.tick < end) {
            in_window = true;
        }
    }
    let mut drop_races_ping = false;
    for r in &recs {
        if let Rec::Drop { b, e, .. } = r {
            if pings.iter().any(|(pb, pe)| (*pb < *e && *pe > *b)) {
                drop_races_ping = true;
            }
        }
    }
    if in_window {
        out.classes.push("actor_step_between_drain_and_dispatch_end");
    }
    if drop_races_ping {
        out.classes.push("handle_drop_overlaps_ping_of_other_thread");
    }
    if keep_one {
        out.classes.push("handle_kept_alive");
    }
    if cbs.len() < pings.len() {
        out.classes.push("pings_coalesced");
    }
    out.nontrivial = in_window || drop_races_ping;
    let _ = recs.iter().filter(|r| matches!(r, Rec::DispBegin { .. })).count();
    out
}

pub fn run_case(case: &Case) -> CaseOutcome {
    let mut info = CaseInfo::default();
    info.fingerprint = fingerprint(case);
    // the 2 ms idle-dispatch measurement is taken on every fourth case (by fingerprint)
    let idle = info.fingerprint % 4 == 0;
    let out = run_sched(case, idle);
    if let Some(m) = out.infra {
        // retried once: a transient scheduling hiccup must not count
        let out2 = run_sched(case, idle);
        if let Some(m2) = out2.infra {
            panic!("sched infrastructure: {m} / {m2}");
        }
        info.nontrivial = out2.nontrivial;
        info.classes = out2.classes;
        return (info, out2.viol);
    }
    info.nontrivial = out.nontrivial;
    info.classes = out.classes;
    info.counters.push(("schedule_steps", out.branching.len() as u64));
    (info, out.viol)
}

fn hist_profile() -> Vec<(&'static str, Profile, u32, u32)> {
    let mut p = Profile::base();
    p.k_ping = 10;
    p.k_chan = 0;
    p.k_timer = 1;
    p.k_gen = 0;
    // ping sources also live inside composite sources (next to transient siblings whose leaving shifts the sub-tokens)
    p.k_comp = 3;
    p.o_handle = 10;
    p.o_token = 8;
    p.o_cause = 12;
    p.post_pct = 10;
    p.max_ops = 30;
    vec![("hist", p, 20_000, 300_000)]
}

pub static HIST: HistProp = HistProp {
    id: "C03",
    meta: &META,
    profiles: hist_profile,
    nontrivial: |f| f.removal_paths.contains("ping_closed") || f.disabled_cause_delivered > 0,
    classes: |f, c| {
        if f.removal_paths.contains("ping_closed") {
            c.push("hist_ping_closed");
        }
    },
    epoll_each_step: false,
    workers: 8,
    table: None,
    extra: None,
};

/// Exhaustive DFS over all schedules of tiny configurations.
fn dfs(ctx: &CheckCtx, actors: Vec<Vec<AOp>>, keep_one: bool, loop_dispatches: u8, max: u64) -> Option<Found> {
    let mut found = None;
    let name = format!("dfs:{}x{}disp", serde_json::to_string(&actors).unwrap_or_default(), loop_dispatches);
    let mut nontrivial = 0u64;
    let mut dfs_n = 0u64;
    let (count, complete) = sched::dfs_all(max, |prefix| {
        let case = Case { actors: actors.clone(), schedule: prefix.to_vec(), keep_one, exact: true, loop_dispatches: Some(loop_dispatches) };
        let out = run_sched(&case, dfs_n % 16 == 0);
        dfs_n += 1;
        if out.nontrivial {
            nontrivial += 1;
        }
        if let Some(v) = out.viol {
            found = Some(Found { sub: "sched".into(), violation: v, case: serde_json::to_value(&case).unwrap(), replay_path: None });
            return (out.branching, true);
        }
        if out.infra.is_some() {
            return (out.branching, true);
        }
        (out.branching, false)
    });
    ctx.col.record_enumerated(&name, count, nontrivial);
    if complete {
        ctx.col.exhaustive(&format!("all {count} schedules of actors {name} (keep_one={keep_one})"));
    } else {
        ctx.col.note(format!("{name}: DFS stopped after {count} schedules (bound {max})"));
    }
    found
}

// ------------------------------------------------------------------------------------------ free-running stress
//
// The schedule check above owns the interleaving at yield-site granularity; a race whose window contains no
// yield site (e.g. "read a handle count, then decrement it" in a Drop) is invisible to it. This sub-check
// complements it: the same actor programs run on free OS threads released by a spin barrier, truly concurrently,
// against the dispatching loop; the oracle uses CLOCK_MONOTONIC instants (globally ordered across threads).

#[derive(Serialize, Deserialize, Debug, Clone, Hash)]
pub struct FreeCase {
    pub actors: Vec<Vec<AOp>>,
    pub keep_one: bool,
}

fn free_strategy() -> impl Strategy<Value = FreeCase> {
    (proptest::collection::vec(proptest::collection::vec(aop(), 0..=4), 2..=4), prop::bool::weighted(0.2))
        .prop_map(|(actors, keep_one)| FreeCase { actors, keep_one })
}

pub fn run_free(case: &FreeCase) -> CaseOutcome {
    // free-running threads: not a pure function of the case; while a failure is being confirmed the case is repeated
    let mut last = run_free_once(case);
    let (reps, budget, t0) = (crate::driver::free_reps(), crate::driver::free_budget(), std::time::Instant::now());
    let mut n = 1;
    while last.1.is_none() && (n < reps || t0.elapsed() < budget) {
        last = run_free_once(case);
        n += 1;
    }
    last
}

fn run_free_once(case: &FreeCase) -> CaseOutcome {
    use std::sync::atomic::AtomicUsize;
    let mut info = CaseInfo { fingerprint: fingerprint(case), ..CaseInfo::default() };
    let n = case.actors.len().clamp(1, 6);
    let mut el: EventLoop<'static, Vec<Instant>> = EventLoop::try_new().expect("event loop");
    let (ping, source) = make_ping().expect("make_ping");
    el.handle().insert_source(source, |_, _, cbs: &mut Vec<Instant>| cbs.push(Instant::now())).expect("insert ping");
    let keep = if case.keep_one { Some(ping.clone()) } else { None };
    let go = Arc::new(AtomicUsize::new(0));
    let done = Arc::new(AtomicUsize::new(0));
    let pings: Arc<Mutex<Vec<(Instant, Instant)>>> = Arc::new(Mutex::new(Vec::new()));
    let mut cbs: Vec<Instant> = Vec::new();
    let mut last_wait = Duration::ZERO;
    std::thread::scope(|sc| {
        for prog in case.actors.iter().take(n) {
            let mut mine = vec![ping.clone()];
            let go = go.clone();
            let done = done.clone();
            let pings = pings.clone();
            let prog = prog.clone();
            sc.spawn(move || {
                go.fetch_add(1, Ordering::SeqCst);
                while go.load(Ordering::SeqCst) < n + 1 {
                    std::hint::spin_loop();
                }
                for op in prog {
                    match op {
                        AOp::Ping => {
                            if let Some(h) = mine.last() {
                                let b = Instant::now();
                                h.ping();
                                pings.lock().unwrap().push((b, Instant::now()));
                            }
                        }
                        AOp::Clone => {
                            if let Some(h) = mine.last() {
                                let c = h.clone();
                                mine.push(c);
                            }
                        }
                        AOp::Drop => {
                            mine.pop();
                        }
                    }
                }
                // the remaining handles go away together with the thread's program
                drop(mine);
                done.fetch_add(1, Ordering::SeqCst);
            });
        }
        drop(ping);
        while go.load(Ordering::SeqCst) < n {
            std::hint::spin_loop();
        }
        go.fetch_add(1, Ordering::SeqCst);
        let t0 = Instant::now();
        while done.load(Ordering::SeqCst) < n && t0.elapsed() < Duration::from_secs(20) {
            el.dispatch(Some(Duration::ZERO), &mut cbs).expect("dispatch");
        }
    });
    // every actor has finished and is joined: the source must settle within a few dispatches
    for _ in 0..3 {
        el.dispatch(Some(Duration::ZERO), &mut cbs).expect("dispatch");
    }
    let occupied = el.handle().verif_stats().occupied_slots;
    if occupied == 0 {
        let t = Instant::now();
        el.dispatch(Some(Duration::from_millis(2)), &mut cbs).expect("dispatch");
        last_wait = t.elapsed();
    }
    let pings = pings.lock().unwrap().clone();
    info.nontrivial = n >= 2 && case.actors.iter().take(n).filter(|p| !p.is_empty()).count() >= 2;
    info.classes.push("free_running");
    if !case.keep_one {
        info.classes.push("free_all_handles_dropped_concurrently");
    }
    info.counters.push(("free_pings", pings.len() as u64));
    info.counters.push(("free_callbacks", cbs.len() as u64));
    let mut viol = None;
    for (b, _) in &pings {
        if !cbs.iter().any(|s| s >= b) {
            viol = Some(Violation::new("C03.served", format!("free-running: a ping that returned was never followed by a callback that started after it began ({} pings, {} callbacks)", pings.len(), cbs.len())));
            break;
        }
    }
    if viol.is_none() && cbs.len() > pings.len() {
        viol = Some(Violation::new("C03.spurious", format!("free-running: {} callbacks for {} pings", cbs.len(), pings.len())));
    }
    if viol.is_none() {
        if let Some(s) = cbs.iter().find(|s| !pings.iter().any(|(b, _)| b <= *s)) {
            let _ = s;
            viol = Some(Violation::new("C03.spurious", "free-running: a callback started before any ping had begun".to_string()));
        }
    }
    if viol.is_none() {
        let want = if case.keep_one { 1 } else { 0 };
        if occupied != want {
            viol = Some(Violation::new(
                "C03.close",
                format!(
                    "free-running: after every actor finished (all {} handles dropped{}) and 3 more dispatches the loop holds {occupied} sources, expected {want}",
                    if case.keep_one { "actor" } else { "" },
                    if case.keep_one { ", one handle kept by the harness" } else { "" }
                ),
            ));
        } else if occupied == 0 && last_wait < Duration::from_millis(2) {
            viol = Some(Violation::new("C03.close", format!("free-running: a 2 ms dispatch after the source removed itself returned after {last_wait:?} (spinning)")));
        }
    }
    drop(keep);
    (info, viol)
}

// ------------------------------------------------------------------------------------------------
// second loop: a ping source that outlives its loop (registered through a Dispatcher the application keeps, the loop
// dropped without removing it) is inserted into a fresh loop and must work there like anywhere else: pings - from
// this or another thread - are followed by one callback, the last handle going removes the source.

#[derive(Serialize, Deserialize, Debug, Clone, Hash, PartialEq, Eq)]
pub struct SlCase {
    /// sources inserted before the ping source in the first / the second loop (equal: same slot, same token)
    pub pre1: u8,
    pub pre2: u8,
    /// one ping delivered in the first loop
    pub used_in_first: bool,
    /// the source is removed from the first loop before that loop is dropped
    pub removed_first: bool,
    /// pings sent in the second loop (0..=3), from another thread or from this one
    pub pings: u8,
    pub from_thread: bool,
    /// then the last handle is dropped: the source has to leave the second loop
    pub drop_last: bool,
}

fn sl_strategy() -> impl Strategy<Value = SlCase> {
    (0u8..3, 0u8..3, any::<bool>(), any::<bool>(), prop::bool::weighted(0.25), 0u8..=3, any::<bool>(), any::<bool>()).prop_map(|(pre1, d, same, used_in_first, removed_first, pings, from_thread, drop_last)| SlCase {
        pre1,
        pre2: if same { pre1 } else { d },
        used_in_first,
        removed_first,
        pings,
        from_thread,
        drop_last,
    })
}

pub fn run_second_loop(c: &SlCase) -> CaseOutcome {
    use std::cell::Cell;
    use std::rc::Rc;
    let mut info = CaseInfo { fingerprint: fingerprint(c), ..CaseInfo::default() };
    info.nontrivial = c.pre1 == c.pre2 && !c.removed_first && (c.pings > 0 || c.drop_last);
    info.classes.push(if c.pre1 == c.pre2 { "second_loop_same_slot" } else { "second_loop_other_slot" });
    if !c.removed_first {
        info.classes.push("first_loop_dropped_with_the_source_registered");
    }
    let v = |sig: &str, d: String| Some(Violation::new("C03.served", d).with_sig(format!("C03.served/second-loop-{sig}")));
    let (ping, source) = make_ping().expect("make_ping");
    let calls = Rc::new(Cell::new(0u32));
    let c2 = calls.clone();
    let disp = calloop::Dispatcher::new(source, move |_, _, _: &mut ()| c2.set(c2.get() + 1));
    let mut keep = Vec::new();
    {
        let mut el: EventLoop<()> = EventLoop::try_new().expect("loop 1");
        let h = el.handle();
        for _ in 0..c.pre1.min(3) {
            let (p, s) = make_ping().unwrap();
            h.insert_source(s, |_, _, _| {}).unwrap();
            keep.push(p);
        }
        let tok = h.register_dispatcher(disp.clone()).expect("register in loop 1");
        if c.used_in_first {
            ping.ping();
            el.dispatch(Some(Duration::ZERO), &mut ()).expect("dispatch 1");
            if calls.get() != 1 {
                return (info, v("first-loop", format!("first loop: one ping, {} callbacks", calls.get())));
            }
        }
        if c.removed_first {
            h.remove(tok);
        }
    }
    calls.set(0);
    let mut el: EventLoop<()> = EventLoop::try_new().expect("loop 2");
    let h = el.handle();
    for _ in 0..c.pre2.min(3) {
        let (p, s) = make_ping().unwrap();
        h.insert_source(s, |_, _, _| {}).unwrap();
        keep.push(p);
    }
    let tok = match h.register_dispatcher(disp.clone()) {
        Ok(t) => t,
        Err(e) => return (info, v("insert", format!("inserting a ping source that outlived its first loop into a fresh loop failed: {e}"))),
    };
    let n = c.pings.min(3);
    if n > 0 {
        if c.from_thread {
            let p = ping.clone();
            std::thread::spawn(move || {
                for _ in 0..n {
                    p.ping();
                }
            })
            .join()
            .unwrap();
        } else {
            for _ in 0..n {
                ping.ping();
            }
        }
    }
    for _ in 0..2 {
        el.dispatch(Some(Duration::ZERO), &mut ()).expect("dispatch 2");
    }
    let want = (n > 0) as u32;
    if calls.get() != want {
        return (
            info,
            v(
                "ping",
                format!(
                    "second loop ({} sources before it, first loop had {}; first loop {}): {n} ping(s) returned, 2 dispatches, {} callback(s), expected {want}",
                    c.pre2,
                    c.pre1,
                    if c.removed_first { "removed the source before it went" } else { "was dropped with the source still registered" },
                    calls.get()
                ),
            ),
        );
    }
    if c.drop_last {
        drop(ping);
        for _ in 0..2 {
            el.dispatch(Some(Duration::ZERO), &mut ()).expect("dispatch 3");
        }
        if h.disable(&tok).is_ok() {
            let mut viol = v("close", "second loop: the last Ping handle was dropped, 2 dispatches later the source is still inserted (its token is alive)".to_string());
            if let Some(x) = viol.as_mut() {
                x.rule = "C03.close".to_string();
                x.sig = "C03.close/second-loop".to_string();
            }
            return (info, viol);
        }
    }
    drop(keep);
    (info, None)
}

pub fn check(ctx: &CheckCtx) -> Option<Found> {
    if let Some(f) = ctx.run_replays::<Case, _>("sched", run_case) {
        return Some(f);
    }
    if let Some(f) = ctx.run_replays::<SlCase, _>("second_loop", run_second_loop) {
        return Some(f);
    }
    if let Some(f) = ctx.search("second_loop", sl_strategy(), ctx.tier.pick(2_000, 40_000), 4, None, run_second_loop) {
        return Some(f);
    }
    if let Some(f) = ctx.run_replays::<crate::hist::ops::HistCase, _>("hist", |c| run_case_for(&HIST, c)) {
        return Some(f);
    }
    if let Some(f) = ctx.run_replays::<FreeCase, _>("free", run_free) {
        return Some(f);
    }
    let t = ctx.tier;
    let child = crate::ship::is_child();
    // (the ship-profile child runs a short schedule search only)
    if let Some(f) = ctx.search("sched", case_strategy(), if child { 800 } else { t.pick(20_000, 300_000) }, 6, None, run_case) {
        return Some(f);
    }
    if let Some(f) = ctx.search("free", free_strategy(), if child { 300 } else { t.pick(2_000, 120_000) }, 4, None, run_free) {
        return Some(f);
    }
    // bounded-exhaustive: every schedule of tiny configurations
    let tiny: Vec<(Vec<Vec<AOp>>, bool, u8)> = match t {
        Tier::Quick => vec![(vec![vec![AOp::Ping]], false, 1), (vec![vec![AOp::Ping, AOp::Drop]], false, 1)],
        Tier::Thorough => vec![
            (vec![vec![AOp::Ping]], false, 3),
            (vec![vec![AOp::Ping, AOp::Ping]], false, 2),
            (vec![vec![AOp::Ping], vec![AOp::Ping]], false, 1),
            (vec![vec![AOp::Ping, AOp::Drop]], true, 2),
        ],
    };
    for (actors, keep, nd) in tiny {
        if child {
            break;
        }
        if let Some(f) = dfs(ctx, actors, keep, nd, t.pick(20_000, 400_000)) {
            return Some(f);
        }
    }
    let (name, profile, q, th) = hist_profile().remove(0);
    if let Some(f) = ctx.search_with(name, || crate::hist::ops::case_strategy(&profile), t.pick(q, th), 8, None, |c| run_case_for(&HIST, c)) {
        return Some(f);
    }
    None
}

pub fn replay(_ctx: &CheckCtx, sub: &str, case: serde_json::Value) -> Result<Option<Violation>, String> {
    if sub == "hist" {
        return hist_replay(&HIST, case);
    }
    if sub == "free" {
        let c: FreeCase = serde_json::from_value(case).map_err(|e| e.to_string())?;
        return Ok(run_free(&c).1);
    }
    if sub == "second_loop" {
        let c: SlCase = serde_json::from_value(case).map_err(|e| e.to_string())?;
        return Ok(run_second_loop(&c).1);
    }
    let c: Case = serde_json::from_value(case).map_err(|e| e.to_string())?;
    Ok(run_case(&c).1)
}

// ------------------------------------------------------------------------------------------------
// C02's cross-thread sub-check: the same schedule family, only the lost-ping rule (see histprops.rs)

const C02_RULES: &[&str] = &["C03.served"];

pub fn xthread_for_c02(ctx: &CheckCtx) -> Option<Found> {
    use crate::props::histprops::xthread_relabel;
    if let Some(f) = ctx.run_replays::<Case, _>("xthread.ping", |c| xthread_relabel(run_case(c), C02_RULES)) {
        return Some(f);
    }
    ctx.search("xthread.ping", case_strategy(), ctx.tier.pick(5_000, 80_000), 6, None, |c| xthread_relabel(run_case(c), C02_RULES))
}

pub fn xthread_replay(_sub: &str, case: serde_json::Value) -> Result<Option<Violation>, String> {
    let c: Case = serde_json::from_value(case).map_err(|e| e.to_string())?;
    Ok(crate::props::histprops::xthread_relabel(run_case(&c), C02_RULES).1)
}
