//! C17 — Async adapter: byte-exact I/O, tasks always woken, blocking mode restored.
//!
//! History-shaped PBT. One case = one real `EventLoop` with calloop's own executor, one AF_UNIX
//! stream socketpair (fd A = initiating side, fd B = answering side), one or two `Async` adapters
//! made with `LoopHandle::adapt_io`, tasks that move a generated payload through the adapters with
//! generated chunk sizes, and a generated dispatch plan. Everything runs on the calling thread.
//!
//! Oracles (only what the statement says):
//!  * C17.bytes  — what arrives is exactly what was sent (same order, nothing extra, EOF = Ok(0));
//!                 an I/O error surfacing from the adapter although no fault exists is reported here too.
//!  * C17.stuck  — lost wake-up, established by STATE and not by a timeout: a task is Pending inside an
//!                 adapter operation that wants interest X, poll(2) says its fd IS ready for X, and
//!                 1 + 3 consecutive dispatches (the last three with a 20 ms timeout) poll no task at
//!                 all. On a correct adapter a waiting task with a ready fd is polled at the latest in
//!                 the second dispatch (dispatch 1 delivers the one-shot event and wakes, dispatch 2
//!                 runs the executor). Variant "livelock": the task IS polled but nothing completes
//!                 for 12 consecutive rounds while the fd stays ready.
//!  * C17.flags  — O_NONBLOCK is set while the adapter lives and equals the pre-adapt value after
//!                 drop / into_inner.
//! Spurious wake-ups and early `readable()` / `writable()` returns are allowed everywhere.
//! Harness-level deadlocks (nobody ready, nobody runnable) and exhausted step budgets are counted
//! as "inconclusive:*" classes, never as violations.

use crate::driver::{CaseOutcome, CheckCtx, Found, PropMeta, Violation};
use crate::evidence::{fingerprint, CaseInfo};
use crate::kernel;
use calloop::futures::{executor, Scheduler};
use calloop::io::Async;
use calloop::EventLoop;
use futures::io::{AsyncRead, AsyncWrite};
use proptest::prelude::*;
use serde::{Deserialize, Serialize};
use std::cell::{Cell, RefCell};
use std::collections::VecDeque;
use std::future::{poll_fn, Future};
use std::io::{self, IoSlice, IoSliceMut, Read, Write};
use std::os::unix::io::{AsFd, BorrowedFd, RawFd};
use std::pin::Pin;
use std::rc::Rc;
use std::sync::atomic::{AtomicU64, AtomicUsize, Ordering};
use std::task::{Context, Poll};
use std::time::Duration;

pub const META: PropMeta = PropMeta {
    id: "C17",
    level: "exploration",
    rule: "case = payload (0..64 KiB, patterned) x SO_SNDBUF choice per direction x write/read chunk plans (plain or vectored, optional readable()/writable() await first, optional zero-length write first: one poll must return Ok(0)) x topology (writer+reader tasks on two adapters; reader adapter fed synchronously; writer adapter drained synchronously; echo task alternating READ/WRITE on one adapter driven synchronously; echo task + ping-pong client task on two adapters) x scheduling order/gap x dispatch plan (count and timeout of dispatches per round) x injected spurious re-polls x injected abandoned waiters (an adapter operation first polled under a foreign waker, then under the task's own, before any dispatch) x an optional rejected second adapt_io on the fd of a live adapter before the session starts x blocking mode before adapt_io x adapter end (drop | into_inner; inside the task | after the tasks | after the loop was dropped). non-trivial: at least one WouldBlock on a write was observed (adapter poll_write Pending, or EAGAIN on the synchronous writer = payload larger than the send buffer) or an adapter switched its awaited interest (READ<->WRITE) at least once. distinct: by fingerprint of the normalised case. sub-check hist: the history machine with an adapter-heavy profile, the monitor's adapter rules judged for C17; (owned) enumerated: an adapter owned by the callback of a timer / ping source that is removed with LoopHandle::remove outside a dispatch, from another source's callback, or leaves on its own, fd blocking / non-blocking before: no panic, former mode restored, fd out of the poller",
    assumptions: &[
        "AF_UNIX SOCK_STREAM socketpair: poll(2) and epoll share the socket's poll function, so poll(2) readiness is the ground truth for what epoll must report after a one-shot re-arm",
        "a dispatch whose poller reports the executor's ping runs the woken task; hence two dispatches bound the distance from 'fd ready + interest armed' to 'task polled'",
        "single thread per case; the adapter's fd wrapper is non-owning so the harness controls close() and can read F_GETFL at any time",
        "re-adapting an fd after into_inner is out of scope here (C16); a failing second adapt_io on a live adapter's fd is part of the session (the first adapter must keep working)",
    ],
};

// ---------------------------------------------------------------------------------------------
// Case
// ---------------------------------------------------------------------------------------------

#[derive(Serialize, Deserialize, Debug, Clone, Copy, Hash, PartialEq, Eq)]
pub struct Op {
    /// chunk / buffer size in bytes (normalised to 1..=cap)
    pub n: u32,
    /// use the vectored variant (three slices: n/3, 0, rest)
    pub vec: bool,
    /// await readable()/writable() before the operation
    pub pre: bool,
    /// write plans only: issue a zero-length write first (an empty frame): it has to complete at once with Ok(0)
    #[serde(default)]
    pub empty: bool,
}

#[derive(Serialize, Deserialize, Debug, Clone, Hash)]
pub struct Case {
    /// 0 pair (writer task on A, reader task on B); 1 harness writes A, reader task on B;
    /// 2 writer task on A, harness reads B; 3 harness client on A, echo task on B;
    /// 4 ping-pong client task on A, echo task on B.
    pub topo: u8,
    pub len: u32,
    pub pat: u16,
    /// SO_SNDBUF of A (direction A->B) / of B (direction B->A): 0 = leave default, i = SNDBUF[i-1]
    pub sndbuf_a: u8,
    pub sndbuf_b: u8,
    /// A-side task: write plan, read plan (client); B-side task: read plan, write plan (echo)
    pub wops: Vec<Op>,
    pub rops: Vec<Op>,
    pub srv_r: Vec<Op>,
    pub srv_w: Vec<Op>,
    /// chunk sizes of the synchronous (harness) end
    pub hops: Vec<u32>,
    /// consumed one per Pending returned by an adapter operation: true = the task wakes itself
    /// (a spurious re-poll, as under select/join with another ready branch)
    pub spurious: Vec<bool>,
    /// consumed one per poll of an adapter operation: true = the operation is first polled under a foreign
    /// waker (a waiter that is then abandoned: select!/timeout loser, poll! probe, hand-over of the adapter to
    /// another task) and, if that was Pending, polled again under the task's own waker before any dispatch
    #[serde(default)]
    pub foreign: Vec<bool>,
    /// schedule the B-side task first
    pub b_first: bool,
    /// rounds between the first and the second scheduling (single task: before its scheduling)
    pub gap: u8,
    /// per round: (number of dispatches 0..=3, timeout index into TMO_MS), cycled
    pub plan: Vec<(u8, u8)>,
    pub pre_nb_a: bool,
    pub pre_nb_b: bool,
    /// bit 0: into_inner (else drop); bits 1..: 0 inside the task, 1 after all tasks, 2 after loop drop
    pub end_a: u8,
    pub end_b: u8,
    /// writer/client finishes with poll_flush + poll_close
    pub flush: bool,
    /// bit 0 / bit 1: right after the A-side / B-side adapter was created, a second adapt_io on the same fd is
    /// attempted (it must fail: the fd is already registered) and the session goes on with the first adapter
    #[serde(default)]
    pub dup_adapt: u8,
}

const SNDBUF: [i32; 3] = [1, 8192, 32768]; // 1 is clamped by the kernel to its minimum (4608)
const TMO_MS: [u64; 4] = [0, 0, 1, 20];
const OPS_CAP: u64 = 1200;
/// rounds per case whose dispatches use a non-zero timeout from the plan (stuck confirmation is extra)
const MAX_SLOW_DISPATCH_ROUNDS: u32 = 4;
const MAX_LEN: u32 = 65_536;
const PING_PONG_MAX: u32 = 2048;

fn topo_name(t: u8) -> &'static str {
    match t {
        0 => "pair",
        1 => "sync-writer",
        2 => "sync-reader",
        3 => "echo-sync",
        _ => "echo-pair",
    }
}

fn norm_ops(v: &[Op], cap: u32) -> Vec<Op> {
    if v.is_empty() {
        return vec![Op { n: 4096.min(cap), vec: false, pre: false, empty: false }];
    }
    v.iter().map(|o| Op { n: o.n.clamp(1, cap), ..*o }).collect()
}

fn mean(v: impl Iterator<Item = u32>) -> u64 {
    let (mut s, mut c) = (0u64, 0u64);
    for x in v {
        s += x as u64;
        c += 1;
    }
    (s / c.max(1)).max(1)
}

/// Everything derived from the case (a pure function of it).
struct Norm {
    topo: u8,
    len: usize,
    wops: Vec<Op>,
    rops: Vec<Op>,
    srv_r: Vec<Op>,
    srv_w: Vec<Op>,
    hops: Vec<u32>,
    plan: Vec<(u8, u8)>,
    budget: u64,
}

fn normalise(c: &Case) -> Norm {
    let topo = c.topo.min(4);
    let wcap = if topo == 4 { PING_PONG_MAX } else { 70_000 };
    let wops = norm_ops(&c.wops, wcap);
    let rops = norm_ops(&c.rops, 70_000);
    let srv_r = norm_ops(&c.srv_r, 70_000);
    let srv_w = norm_ops(&c.srv_w, 70_000);
    let hops: Vec<u32> = if c.hops.is_empty() { vec![4096] } else { c.hops.iter().map(|n| (*n).clamp(1, 70_000)).collect() };
    // which plans are in use
    let mut used: Vec<Vec<u32>> = Vec::new();
    let ns = |v: &[Op]| v.iter().map(|o| o.n).collect::<Vec<u32>>();
    match topo {
        0 => used.extend([ns(&wops), ns(&srv_r)]),
        1 => used.extend([hops.clone(), ns(&srv_r)]),
        2 => used.extend([ns(&wops), hops.clone()]),
        3 => used.extend([hops.clone(), ns(&srv_r), ns(&srv_w)]),
        _ => used.extend([ns(&wops), ns(&rops), ns(&srv_r), ns(&srv_w)]),
    }
    // clip the payload so that no plan needs more than OPS_CAP operations (keeps a case in the ms range)
    let mut len = c.len.min(MAX_LEN) as u64;
    for u in &used {
        len = len.min(OPS_CAP * mean(u.iter().copied()));
    }
    // Step budget (rounds): an upper bound on the operations of every plan (payload / smallest chunk),
    // times 16 rounds per operation: one ping-pong chunk with readable()/writable() awaits on both
    // adapters costs about ten single-dispatch rounds (register, event + wake, executor run, ... per wait).
    let mut budget = 512 + c.gap as u64;
    for u in &used {
        let min = *u.iter().min().unwrap_or(&1) as u64;
        budget += 16 * (len / min.max(1) + 1);
    }
    let plan = if c.plan.is_empty() { vec![(1, 0)] } else { c.plan.iter().map(|(k, t)| ((*k).min(3), (*t).min(3))).collect() };
    Norm { topo, len: len as usize, wops, rops, srv_r, srv_w, hops, plan, budget: budget.min(1_000_000) }
}

fn make_payload(len: usize, pat: u16) -> Vec<u8> {
    let mut v = Vec::with_capacity(len);
    match pat & 3 {
        0 => {
            // position-revealing counter
            for i in 0..len {
                v.push((i ^ (i >> 8) ^ (pat as usize >> 2)) as u8);
            }
        }
        1 => v.resize(len, (pat >> 2) as u8), // constant: only the length can go wrong
        _ => {
            let mut x = 0x9E37_79B9u32 ^ ((pat as u32) << 7) | 1;
            for _ in 0..len {
                x ^= x << 13;
                x ^= x >> 17;
                x ^= x << 5;
                v.push((x >> 11) as u8);
            }
        }
    }
    v
}

// ---------------------------------------------------------------------------------------------
// Observation state shared between a task, its fd wrapper and the driver
// ---------------------------------------------------------------------------------------------

#[derive(Clone, Copy, PartialEq, Eq, Debug)]
enum Want {
    Read,
    Write,
}

struct Shared {
    spurious: Vec<bool>,
    cursor: Cell<usize>,
    used: Cell<u64>,
    foreign: Vec<bool>,
    fcursor: Cell<usize>,
    fused: Cell<u64>,
    /// wake-ups that went to an abandoned (foreign) waker
    fwoken: Rc<std::sync::atomic::AtomicU64>,
}

impl Shared {
    fn next_spurious(&self) -> bool {
        let i = self.cursor.get();
        if i >= self.spurious.len() {
            return false;
        }
        self.cursor.set(i + 1);
        if self.spurious[i] {
            self.used.set(self.used.get() + 1);
        }
        self.spurious[i]
    }
    fn next_foreign(&self) -> bool {
        let i = self.fcursor.get();
        if i >= self.foreign.len() {
            return false;
        }
        self.fcursor.set(i + 1);
        self.foreign[i]
    }
}

struct ForeignWake(Rc<std::sync::atomic::AtomicU64>);
// the counter is only touched on the case's own thread; Rc inside an Arc<Wake> needs these
unsafe impl Send for ForeignWake {}
unsafe impl Sync for ForeignWake {}
impl std::task::Wake for ForeignWake {
    fn wake(self: std::sync::Arc<Self>) {
        self.0.fetch_add(1, Ordering::Relaxed);
    }
}

/// Poll one adapter operation, optionally first as an abandoned waiter under a foreign waker.
fn polled<T>(st: &TaskSt, cx: &mut Context<'_>, mut op: impl FnMut(&mut Context<'_>) -> Poll<T>) -> Poll<T> {
    if st.shared.next_foreign() {
        let w = std::task::Waker::from(std::sync::Arc::new(ForeignWake(st.shared.fwoken.clone())));
        let mut fcx = Context::from_waker(&w);
        if let Poll::Ready(v) = op(&mut fcx) {
            return Poll::Ready(v);
        }
        st.shared.fused.set(st.shared.fused.get() + 1);
    }
    op(cx)
}

struct TaskSt {
    name: &'static str,
    fd: RawFd,
    shared: Rc<Shared>,
    scheduled: Cell<bool>,
    polls: Cell<u64>,
    progress: Cell<u64>,
    /// Some(x): the task returned Pending from an adapter operation that registered interest x
    waiting: Cell<Option<Want>>,
    /// how it waits: true = inside poll_read/poll_write(/_vectored), false = readable()/writable()/flush
    waiting_in_io: Cell<bool>,
    last_want: Cell<Option<Want>>,
    switches: Cell<u64>,
    wb_read: Cell<u64>,
    wb_write: Cell<u64>,
    pre_awaits: Cell<u64>,
    empty_writes: Cell<u64>,
    vectored: Cell<u64>,
    done: Cell<bool>,
    /// the adapter has been (or is being) ended
    ended: Cell<bool>,
    flag_after_end: Cell<Option<bool>>,
    eof_seen: Cell<bool>,
    /// O_NONBLOCK found clear at an I/O operation while the adapter was alive
    blocking_seen: Cell<bool>,
    err: RefCell<Option<String>>,
}

impl TaskSt {
    fn new(name: &'static str, fd: RawFd, shared: &Rc<Shared>) -> Rc<TaskSt> {
        Rc::new(TaskSt {
            name,
            fd,
            shared: shared.clone(),
            scheduled: Cell::new(false),
            polls: Cell::new(0),
            progress: Cell::new(0),
            waiting: Cell::new(None),
            waiting_in_io: Cell::new(false),
            last_want: Cell::new(None),
            switches: Cell::new(0),
            wb_read: Cell::new(0),
            wb_write: Cell::new(0),
            pre_awaits: Cell::new(0),
            empty_writes: Cell::new(0),
            vectored: Cell::new(0),
            done: Cell::new(false),
            ended: Cell::new(false),
            flag_after_end: Cell::new(None),
            eof_seen: Cell::new(false),
            blocking_seen: Cell::new(false),
            err: RefCell::new(None),
        })
    }

    /// Called after every poll of an adapter operation.
    fn note(&self, cx: &mut Context<'_>, want: Want, pending: bool, is_io: bool) {
        if pending {
            self.waiting.set(Some(want));
            self.waiting_in_io.set(is_io);
            if is_io {
                let c = if want == Want::Read { &self.wb_read } else { &self.wb_write };
                c.set(c.get() + 1);
            }
            if let Some(l) = self.last_want.get() {
                if l != want {
                    self.switches.set(self.switches.get() + 1);
                }
            }
            self.last_want.set(Some(want));
            if self.shared.next_spurious() {
                cx.waker().wake_by_ref();
            }
        } else {
            self.waiting.set(None);
            self.progress.set(self.progress.get() + 1);
        }
    }

    fn fail(&self, msg: String) {
        let mut e = self.err.borrow_mut();
        if e.is_none() {
            *e = Some(msg);
        }
    }
}

/// Non-owning fd wrapper handed to `adapt_io`. Uses plain read/write/readv/writev like a real
/// stream would; if O_NONBLOCK is found clear (which would block the loop thread for ever) it
/// records that for the flags oracle and falls back to MSG_DONTWAIT so the harness cannot hang.
struct Sock {
    fd: RawFd,
    st: Rc<TaskSt>,
}

fn cvt(r: isize) -> io::Result<usize> {
    if r < 0 {
        Err(io::Error::last_os_error())
    } else {
        Ok(r as usize)
    }
}

impl Sock {
    fn nonblocking(&self) -> bool {
        if kernel::is_nonblocking(self.fd) {
            true
        } else {
            if !self.st.ended.get() {
                self.st.blocking_seen.set(true);
            }
            false
        }
    }
}

impl AsFd for Sock {
    fn as_fd(&self) -> BorrowedFd<'_> {
        unsafe { BorrowedFd::borrow_raw(self.fd) }
    }
}

impl Read for Sock {
    fn read(&mut self, buf: &mut [u8]) -> io::Result<usize> {
        if self.nonblocking() {
            cvt(unsafe { libc::read(self.fd, buf.as_mut_ptr() as *mut _, buf.len()) })
        } else {
            cvt(unsafe { libc::recv(self.fd, buf.as_mut_ptr() as *mut _, buf.len(), libc::MSG_DONTWAIT) })
        }
    }
    fn read_vectored(&mut self, bufs: &mut [IoSliceMut<'_>]) -> io::Result<usize> {
        if self.nonblocking() {
            // IoSliceMut is guaranteed ABI compatible with iovec
            cvt(unsafe { libc::readv(self.fd, bufs.as_mut_ptr() as *const libc::iovec, bufs.len() as i32) })
        } else {
            match bufs.iter_mut().find(|b| !b.is_empty()) {
                Some(b) => cvt(unsafe { libc::recv(self.fd, b.as_mut_ptr() as *mut _, b.len(), libc::MSG_DONTWAIT) }),
                None => Ok(0),
            }
        }
    }
}

impl Write for Sock {
    fn write(&mut self, buf: &[u8]) -> io::Result<usize> {
        if self.nonblocking() {
            cvt(unsafe { libc::write(self.fd, buf.as_ptr() as *const _, buf.len()) })
        } else {
            cvt(unsafe { libc::send(self.fd, buf.as_ptr() as *const _, buf.len(), libc::MSG_DONTWAIT | libc::MSG_NOSIGNAL) })
        }
    }
    fn write_vectored(&mut self, bufs: &[IoSlice<'_>]) -> io::Result<usize> {
        if self.nonblocking() {
            cvt(unsafe { libc::writev(self.fd, bufs.as_ptr() as *const libc::iovec, bufs.len() as i32) })
        } else {
            match bufs.iter().find(|b| !b.is_empty()) {
                Some(b) => cvt(unsafe { libc::send(self.fd, b.as_ptr() as *const _, b.len(), libc::MSG_DONTWAIT | libc::MSG_NOSIGNAL) }),
                None => Ok(0),
            }
        }
    }
    fn flush(&mut self) -> io::Result<()> {
        Ok(())
    }
}

type Io = Async<'static, Sock>;

struct TaskOut {
    st: Rc<TaskSt>,
    io: Option<Io>,
}

// ---------------------------------------------------------------------------------------------
// Tiny async helpers: one adapter operation each, with explicit sizes (partial I/O is the point)
// ---------------------------------------------------------------------------------------------

async fn a_read(io: &mut Io, buf: &mut [u8], vec: bool, st: &TaskSt) -> io::Result<usize> {
    if vec {
        st.vectored.set(st.vectored.get() + 1);
    }
    poll_fn(|cx| {
        let r = polled(st, cx, |cx| {
            if vec {
                let cut = buf.len() / 3;
                let (a, b) = buf.split_at_mut(cut);
                let mut none: [u8; 0] = [];
                let mut sl = [IoSliceMut::new(a), IoSliceMut::new(&mut none), IoSliceMut::new(b)];
                Pin::new(&mut *io).poll_read_vectored(cx, &mut sl)
            } else {
                Pin::new(&mut *io).poll_read(cx, buf)
            }
        });
        st.note(cx, Want::Read, r.is_pending(), true);
        r
    })
    .await
}

async fn a_write(io: &mut Io, buf: &[u8], vec: bool, st: &TaskSt) -> io::Result<usize> {
    if vec {
        st.vectored.set(st.vectored.get() + 1);
    }
    poll_fn(|cx| {
        let r = polled(st, cx, |cx| {
            if vec {
                let (a, b) = buf.split_at(buf.len() / 3);
                let sl = [IoSlice::new(a), IoSlice::new(&[]), IoSlice::new(b)];
                Pin::new(&mut *io).poll_write_vectored(cx, &sl)
            } else {
                Pin::new(&mut *io).poll_write(cx, buf)
            }
        });
        st.note(cx, Want::Write, r.is_pending(), true);
        r
    })
    .await
}

/// `readable()` / `writable()`; an early (spurious) return is allowed, so nothing is asserted here.
async fn a_ready(io: &mut Io, want: Want, st: &TaskSt) {
    st.pre_awaits.set(st.pre_awaits.get() + 1);
    match want {
        Want::Read => {
            let mut f = io.readable();
            poll_fn(|cx| {
                let r = polled(st, cx, |cx| Pin::new(&mut f).poll(cx));
                st.note(cx, want, r.is_pending(), false);
                r
            })
            .await
        }
        Want::Write => {
            let mut f = io.writable();
            poll_fn(|cx| {
                let r = polled(st, cx, |cx| Pin::new(&mut f).poll(cx));
                st.note(cx, want, r.is_pending(), false);
                r
            })
            .await
        }
    }
}

async fn a_flush_close(io: &mut Io, st: &TaskSt) {
    let r = poll_fn(|cx| {
        let r = polled(st, cx, |cx| Pin::new(&mut *io).poll_flush(cx));
        st.note(cx, Want::Write, r.is_pending(), false);
        r
    })
    .await;
    if let Err(e) = r {
        st.fail(format!("poll_flush returned {e}"));
    }
    let r = poll_fn(|cx| {
        let r = polled(st, cx, |cx| Pin::new(&mut *io).poll_close(cx));
        st.note(cx, Want::Write, r.is_pending(), false);
        r
    })
    .await;
    if let Err(e) = r {
        st.fail(format!("poll_close returned {e}"));
    }
}

/// Write `data` completely using the chunk plan starting at plan index `*i`.
async fn write_all_chunked(io: &mut Io, data: &[u8], ops: &[Op], i: &mut usize, st: &TaskSt) -> bool {
    let mut off = 0;
    while off < data.len() {
        let op = ops[*i % ops.len()];
        *i += 1;
        if op.pre {
            a_ready(io, Want::Write, st).await;
        }
        if op.empty {
            // an empty frame: nothing to wait for, so one poll has to settle it
            let r = poll_fn(|cx| {
                Poll::Ready(if op.vec {
                    Pin::new(&mut *io).poll_write_vectored(cx, &[IoSlice::new(&[]), IoSlice::new(&[])])
                } else {
                    Pin::new(&mut *io).poll_write(cx, &[])
                })
            })
            .await;
            match r {
                Poll::Ready(Ok(0)) => st.empty_writes.set(st.empty_writes.get() + 1),
                Poll::Ready(Ok(n)) => {
                    st.fail(format!("a zero-length write reported {n} bytes written"));
                    return false;
                }
                Poll::Ready(Err(e)) => {
                    st.fail(format!("a zero-length write failed: {e} (peer open)"));
                    return false;
                }
                Poll::Pending => {
                    st.fail("a zero-length write did not complete at once (it returned Pending): the task waits for a readiness it does not need and, re-polled, never gets past the empty write".to_string());
                    return false;
                }
            }
        }
        let hi = (off + op.n as usize).min(data.len());
        match a_write(io, &data[off..hi], op.vec, st).await {
            Ok(0) => {
                st.fail(format!("poll_write returned Ok(0) for a {}-byte chunk at offset {off}", hi - off));
                return false;
            }
            Ok(n) if n > hi - off => {
                st.fail(format!("poll_write returned {n} for a {}-byte chunk", hi - off));
                return false;
            }
            Ok(n) => off += n,
            Err(e) => {
                st.fail(format!("poll_write returned error {e} at offset {off} (no fault injected, peer open)"));
                return false;
            }
        }
    }
    true
}

fn end_adapter(io: Io, st: &TaskSt, end: u8) {
    st.ended.set(true);
    if end & 1 == 1 {
        let s: Sock = io.into_inner();
        drop(s);
    } else {
        drop(io);
    }
    st.flag_after_end.set(Some(kernel::is_nonblocking(st.fd)));
}

fn finish_task(io: Io, st: Rc<TaskSt>, end: u8) -> TaskOut {
    st.done.set(true);
    st.waiting.set(None);
    if end >> 1 == 0 {
        end_adapter(io, &st, end);
        TaskOut { st, io: None }
    } else {
        TaskOut { st, io: Some(io) }
    }
}

async fn writer_task(mut io: Io, st: Rc<TaskSt>, data: Rc<Vec<u8>>, ops: Vec<Op>, flush: bool, end: u8) -> TaskOut {
    let mut i = 0;
    let ok = write_all_chunked(&mut io, &data, &ops, &mut i, &st).await;
    if ok && flush {
        a_flush_close(&mut io, &st).await;
    }
    finish_task(io, st, end)
}

/// Reads until EOF (Ok(0)).
async fn reader_task(mut io: Io, st: Rc<TaskSt>, ops: Vec<Op>, sink: Rc<RefCell<Vec<u8>>>, end: u8) -> TaskOut {
    let mut i = 0;
    loop {
        let op = ops[i % ops.len()];
        i += 1;
        if op.pre {
            a_ready(&mut io, Want::Read, &st).await;
        }
        let mut buf = vec![0xA5u8; op.n as usize];
        match a_read(&mut io, &mut buf, op.vec, &st).await {
            Ok(0) => {
                st.eof_seen.set(true);
                break;
            }
            Ok(n) if n > buf.len() => {
                st.fail(format!("poll_read returned {n} for a {}-byte buffer", buf.len()));
                break;
            }
            Ok(n) => sink.borrow_mut().extend_from_slice(&buf[..n]),
            Err(e) => {
                st.fail(format!("poll_read returned error {e} after {} bytes (no fault injected)", sink.borrow().len()));
                break;
            }
        }
    }
    finish_task(io, st, end)
}

/// Echo: read a chunk, write it back completely, repeat until EOF. Alternates READ and WRITE
/// interest on ONE adapter whenever the return direction is back-pressured.
async fn echo_task(mut io: Io, st: Rc<TaskSt>, rops: Vec<Op>, wops: Vec<Op>, end: u8) -> TaskOut {
    let (mut i, mut j) = (0, 0);
    loop {
        let op = rops[i % rops.len()];
        i += 1;
        if op.pre {
            a_ready(&mut io, Want::Read, &st).await;
        }
        let mut buf = vec![0x5Au8; op.n as usize];
        match a_read(&mut io, &mut buf, op.vec, &st).await {
            Ok(0) => {
                st.eof_seen.set(true);
                break;
            }
            Ok(n) if n > buf.len() => {
                st.fail(format!("poll_read returned {n} for a {}-byte buffer", buf.len()));
                break;
            }
            Ok(n) => {
                if !write_all_chunked(&mut io, &buf[..n], &wops, &mut j, &st).await {
                    break;
                }
            }
            Err(e) => {
                st.fail(format!("poll_read returned error {e} (no fault injected)"));
                break;
            }
        }
    }
    finish_task(io, st, end)
}

/// Ping-pong client: write one chunk (<= 2 KiB, so it always fits the empty A->B buffer), then read
/// exactly that many echoed bytes. Alternates WRITE and READ on one adapter.
async fn client_task(mut io: Io, st: Rc<TaskSt>, data: Rc<Vec<u8>>, wops: Vec<Op>, rops: Vec<Op>, sink: Rc<RefCell<Vec<u8>>>, flush: bool, end: u8) -> TaskOut {
    let (mut off, mut i, mut j, mut k) = (0usize, 0usize, 0usize, 0usize);
    'outer: while off < data.len() {
        let op = wops[i % wops.len()];
        i += 1;
        let hi = (off + op.n as usize).min(data.len());
        // one ping: the chunk, written with this op's flags (sub-chunks of the same size cannot arise)
        let ping = [Op { n: (hi - off) as u32, ..op }];
        if !write_all_chunked(&mut io, &data[off..hi], &ping, &mut k, &st).await {
            break;
        }
        let mut need = hi - off;
        while need > 0 {
            let rop = rops[j % rops.len()];
            j += 1;
            if rop.pre {
                a_ready(&mut io, Want::Read, &st).await;
            }
            let mut buf = vec![0xC3u8; (rop.n as usize).min(need)];
            match a_read(&mut io, &mut buf, rop.vec, &st).await {
                Ok(0) => {
                    st.fail(format!("client read Ok(0) (EOF) while {need} echoed bytes are outstanding and the peer is open"));
                    break 'outer;
                }
                Ok(n) if n > buf.len() => {
                    st.fail(format!("poll_read returned {n} for a {}-byte buffer", buf.len()));
                    break 'outer;
                }
                Ok(n) => {
                    sink.borrow_mut().extend_from_slice(&buf[..n]);
                    need -= n;
                }
                Err(e) => {
                    st.fail(format!("poll_read returned error {e} (no fault injected)"));
                    break 'outer;
                }
            }
        }
        off = hi;
    }
    if flush && st.err.borrow().is_none() {
        a_flush_close(&mut io, &st).await;
    }
    finish_task(io, st, end)
}

// ---------------------------------------------------------------------------------------------
// The synchronous (harness-driven) end: never blocks, one send and/or one recv attempt per step
// ---------------------------------------------------------------------------------------------

struct SyncEnd {
    fd: RawFd,
    hops: Vec<u32>,
    hi: usize,
    // writing side
    data: Option<Rc<Vec<u8>>>,
    off: usize,
    shut: bool,
    eagain_w: u64,
    // reading side
    reading: bool,
    /// Some(n): stop after n bytes (echo); None: read until EOF
    expect: Option<usize>,
    sink: Vec<u8>,
    eof: bool,
    err: Option<String>,
}

impl SyncEnd {
    fn next_hop(&mut self) -> usize {
        let n = self.hops[self.hi % self.hops.len()] as usize;
        self.hi += 1;
        n
    }
    fn read_done(&self) -> bool {
        !self.reading || self.eof || self.expect.map(|n| self.sink.len() >= n).unwrap_or(false)
    }
    fn write_done(&self) -> bool {
        self.data.is_none() || self.shut
    }
    fn done(&self) -> bool {
        self.read_done() && self.write_done()
    }
    /// One step; returns whether anything moved.
    fn step(&mut self) -> bool {
        let mut progress = false;
        if let Some(data) = self.data.clone() {
            if self.off < data.len() {
                let n = self.next_hop();
                let hi = (self.off + n).min(data.len());
                let r = unsafe { libc::send(self.fd, data[self.off..hi].as_ptr() as *const _, hi - self.off, libc::MSG_DONTWAIT | libc::MSG_NOSIGNAL) };
                if r > 0 {
                    self.off += r as usize;
                    progress = true;
                } else {
                    let e = io::Error::last_os_error();
                    if e.kind() == io::ErrorKind::WouldBlock {
                        self.eagain_w += 1;
                    } else if self.err.is_none() {
                        self.err = Some(format!("harness send failed: {e}"));
                    }
                }
            } else if !self.shut {
                unsafe { libc::shutdown(self.fd, libc::SHUT_WR) };
                self.shut = true;
                progress = true;
            }
        }
        if !self.read_done() {
            let mut n = self.next_hop();
            if let Some(e) = self.expect {
                n = n.min(e - self.sink.len());
            }
            let mut buf = vec![0u8; n];
            let r = unsafe { libc::recv(self.fd, buf.as_mut_ptr() as *mut _, n, libc::MSG_DONTWAIT) };
            if r > 0 {
                self.sink.extend_from_slice(&buf[..r as usize]);
                progress = true;
            } else if r == 0 {
                self.eof = true;
                progress = true;
            } else {
                let e = io::Error::last_os_error();
                if e.kind() != io::ErrorKind::WouldBlock && self.err.is_none() {
                    self.err = Some(format!("harness recv failed: {e}"));
                }
            }
        }
        progress
    }
}

// ---------------------------------------------------------------------------------------------
// Running one case
// ---------------------------------------------------------------------------------------------

#[derive(Default)]
struct Stats {
    topo: u8,
    len: usize,
    rounds: u64,
    wb_write: u64,
    wb_read: u64,
    eagain_sync: u64,
    switches: u64,
    spurious_used: u64,
    dup_attempts: u32,
    dup_ok: u32,
    foreign_used: u64,
    foreign_woken: u64,
    pre_awaits: u64,
    empty_writes: u64,
    vectored: u64,
    eof_seen: bool,
    inconclusive: Option<&'static str>,
    fd_leak: Option<(usize, usize)>,
    fd_checked: bool,
    completed: bool,
}

static ACTIVE: AtomicUsize = AtomicUsize::new(0);
static EPOCH: AtomicU64 = AtomicU64::new(0);

/// Every signature this check can emit (rule/shape).
const SIGNATURES: &[&str] = &[
    "C17.bytes/mismatch",
    "C17.bytes/extra",
    "C17.bytes/eof",
    "C17.bytes/io-error",
    "C17.stuck/lost-wake/read-io",
    "C17.stuck/lost-wake/write-io",
    "C17.stuck/lost-wake/read-ready-future",
    "C17.stuck/lost-wake/write-ready-future",
    "C17.stuck/livelock/read-io",
    "C17.stuck/livelock/write-io",
    "C17.stuck/livelock/read-ready-future",
    "C17.stuck/livelock/write-ready-future",
    "C17.flags/live/after-adapt",
    "C17.flags/live/during",
    "C17.flags/restore/drop",
    "C17.flags/restore/into_inner",
];

fn viol(rule: &str, shape: String, detail: String) -> Violation {
    Violation::new(rule, detail).with_sig(format!("{rule}/{shape}"))
}

/// Narrow shape of a wait for signatures: which interest, and through which kind of operation.
fn wait_shape(t: &TaskSt, w: Want) -> String {
    format!(
        "{}-{}",
        if w == Want::Read { "read" } else { "write" },
        if t.waiting_in_io.get() { "io" } else { "ready-future" }
    )
}

fn diff_bytes(what: &str, got: &[u8], want: &[u8]) -> Option<String> {
    if got == want {
        return None;
    }
    let first = got.iter().zip(want.iter()).position(|(a, b)| a != b);
    Some(match first {
        Some(i) => format!("{what}: byte {i} is {:#04x}, sent {:#04x} (received {} bytes, sent {})", got[i], want[i], got.len(), want.len()),
        None => format!("{what}: received {} bytes, sent {} (common prefix equal)", got.len(), want.len()),
    })
}

fn run(case: &Case) -> (Stats, Option<Violation>) {
    let epoch0 = EPOCH.fetch_add(1, Ordering::SeqCst);
    let alone_at_start = ACTIVE.fetch_add(1, Ordering::SeqCst) == 0;
    let fds0 = kernel::fd_count();
    let (mut stats, v) = run_inner(case);
    let fds1 = kernel::fd_count();
    // the process-wide fd count is only meaningful when no other case overlapped with this one
    let alone = (ACTIVE.fetch_sub(1, Ordering::SeqCst) == 1) & alone_at_start && EPOCH.load(Ordering::SeqCst) == epoch0 + 1;
    stats.fd_checked = alone;
    if alone && fds0 != fds1 {
        stats.fd_leak = Some((fds0, fds1));
    }
    (stats, v)
}

fn run_inner(case: &Case) -> (Stats, Option<Violation>) {
    let n = normalise(case);
    let tn = topo_name(n.topo);
    let mut stats = Stats { topo: n.topo, len: n.len, ..Stats::default() };

    // fds first: they must be closed LAST (an adapter dropped after close() would fcntl a recycled fd)
    let (fa, fb) = kernel::socketpair();
    let _close_a = kernel::OwnedRaw(fa);
    let _close_b = kernel::OwnedRaw(fb);
    if case.sndbuf_a > 0 {
        kernel::set_sndbuf(fa, SNDBUF[(case.sndbuf_a as usize - 1).min(2)]);
    }
    if case.sndbuf_b > 0 {
        kernel::set_sndbuf(fb, SNDBUF[(case.sndbuf_b as usize - 1).min(2)]);
    }
    let a_adapted = matches!(n.topo, 0 | 2 | 4);
    let b_adapted = matches!(n.topo, 0 | 1 | 3 | 4);
    // blocking mode before adapt_io (the synchronous end keeps the socketpair's O_NONBLOCK)
    if a_adapted {
        kernel::set_nonblocking(fa, case.pre_nb_a);
    }
    if b_adapted {
        kernel::set_nonblocking(fb, case.pre_nb_b);
    }

    let payload = Rc::new(make_payload(n.len, case.pat));
    let shared = Rc::new(Shared { spurious: case.spurious.clone(), cursor: Cell::new(0), used: Cell::new(0), foreign: case.foreign.clone(), fcursor: Cell::new(0), fused: Cell::new(0), fwoken: Rc::new(std::sync::atomic::AtomicU64::new(0)) });

    let mut el: EventLoop<'static, ()> = EventLoop::try_new().expect("EventLoop::try_new");
    let handle = el.handle();
    let (exec, sched): (_, Scheduler<TaskOut>) = executor::<TaskOut>().expect("executor()");
    let results: Rc<RefCell<Vec<TaskOut>>> = Rc::new(RefCell::new(Vec::new()));
    let res2 = results.clone();
    let exec_token = handle
        .insert_source(exec, move |out, _, _| res2.borrow_mut().push(out))
        .expect("insert executor");

    // adapters + tasks
    let sink_b: Rc<RefCell<Vec<u8>>> = Rc::new(RefCell::new(Vec::new())); // what the B-side reader received
    let sink_a: Rc<RefCell<Vec<u8>>> = Rc::new(RefCell::new(Vec::new())); // what the A-side client got back
    let mut tasks: Vec<Rc<TaskSt>> = Vec::new();
    type BoxFut = Pin<Box<dyn Future<Output = TaskOut>>>;
    let mut a_task: Option<(Rc<TaskSt>, BoxFut)> = None;
    let mut b_task: Option<(Rc<TaskSt>, BoxFut)> = None;
    let mut early: Option<Violation> = None;
    let mut dup_attempts = 0u32;
    let mut dup_ok = 0u32;

    if a_adapted {
        let name = if n.topo == 4 { "client" } else { "writer" };
        let st = TaskSt::new(name, fa, &shared);
        let io: Io = handle.adapt_io(Sock { fd: fa, st: st.clone() }).expect("adapt_io(A)");
        if case.dup_adapt & 1 != 0 {
            dup_attempts += 1;
            if let Ok(second) = handle.adapt_io(Sock { fd: fa, st: st.clone() }) {
                dup_ok += 1;
                drop(second);
            }
        }
        if !kernel::is_nonblocking(fa) {
            early = Some(viol("C17.flags", "live/after-adapt".into(), format!("O_NONBLOCK clear on fd right after adapt_io (was_nonblocking={})", case.pre_nb_a)));
        }
        let fut: BoxFut = if n.topo == 4 {
            Box::pin(client_task(io, st.clone(), payload.clone(), n.wops.clone(), n.rops.clone(), sink_a.clone(), case.flush, case.end_a))
        } else {
            Box::pin(writer_task(io, st.clone(), payload.clone(), n.wops.clone(), case.flush, case.end_a))
        };
        tasks.push(st.clone());
        a_task = Some((st, fut));
    }
    if b_adapted {
        let name = if n.topo >= 3 { "echo" } else { "reader" };
        let st = TaskSt::new(name, fb, &shared);
        let io: Io = handle.adapt_io(Sock { fd: fb, st: st.clone() }).expect("adapt_io(B)");
        if case.dup_adapt & 2 != 0 {
            dup_attempts += 1;
            if let Ok(second) = handle.adapt_io(Sock { fd: fb, st: st.clone() }) {
                dup_ok += 1;
                drop(second);
            }
        }
        if !kernel::is_nonblocking(fb) && early.is_none() {
            early = Some(viol("C17.flags", "live/after-adapt".into(), format!("O_NONBLOCK clear on fd right after adapt_io (was_nonblocking={})", case.pre_nb_b)));
        }
        let fut: BoxFut = if n.topo >= 3 {
            Box::pin(echo_task(io, st.clone(), n.srv_r.clone(), n.srv_w.clone(), case.end_b))
        } else {
            Box::pin(reader_task(io, st.clone(), n.srv_r.clone(), sink_b.clone(), case.end_b))
        };
        tasks.push(st.clone());
        b_task = Some((st, fut));
    }

    // the synchronous end
    let mut sync: Option<SyncEnd> = match n.topo {
        1 => Some(SyncEnd { fd: fa, hops: n.hops.clone(), hi: 0, data: Some(payload.clone()), off: 0, shut: false, eagain_w: 0, reading: false, expect: None, sink: Vec::new(), eof: false, err: None }),
        2 => Some(SyncEnd { fd: fb, hops: n.hops.clone(), hi: 0, data: None, off: 0, shut: false, eagain_w: 0, reading: true, expect: None, sink: Vec::new(), eof: false, err: None }),
        3 => Some(SyncEnd { fd: fa, hops: n.hops.clone(), hi: 0, data: Some(payload.clone()), off: 0, shut: false, eagain_w: 0, reading: true, expect: Some(n.len), sink: Vec::new(), eof: false, err: None }),
        _ => None,
    };

    // scheduling order: (round, task)
    // Each task future lives in a slot shared with the driver, so that an UNFINISHED task can be dropped
    // by the driver outside of any calloop call at teardown. (Dropping it through
    // `LoopHandle::remove(executor)` would run `Async::drop` -> `kill` while `remove` still holds the
    // `sources` borrow: "RefCell already borrowed" inside async-task's drop guard = process abort.
    // That hazard is outside C17's statement; see the report.)
    type Slot = Rc<RefCell<Option<BoxFut>>>;
    let mut slots: Vec<Slot> = Vec::new();
    let mut pending: VecDeque<(u64, Rc<TaskSt>, Slot)> = VecDeque::new();
    {
        let mut order: Vec<(Rc<TaskSt>, BoxFut)> = Vec::new();
        match (a_task, b_task) {
            (Some(a), Some(b)) => {
                if case.b_first {
                    order.push(b);
                    order.push(a);
                } else {
                    order.push(a);
                    order.push(b);
                }
            }
            (Some(a), None) => order.push(a),
            (None, Some(b)) => order.push(b),
            (None, None) => {}
        }
        let single = order.len() == 1;
        for (i, (st, fut)) in order.into_iter().enumerate() {
            let at = if single || i == 1 { case.gap as u64 } else { 0 };
            let slot: Slot = Rc::new(RefCell::new(Some(fut)));
            slots.push(slot.clone());
            pending.push_back((at, st, slot));
        }
    }

    let mut held: Vec<TaskOut> = Vec::new(); // adapters returned by finished tasks (ended later)
    let mut a_shut = !a_adapted; // the A-side task's EOF signal (shutdown(SHUT_WR) once it is done)
    let mut violation = early;
    let total_polls = |ts: &[Rc<TaskSt>]| ts.iter().map(|t| t.polls.get()).sum::<u64>();
    let total_progress = |ts: &[Rc<TaskSt>]| ts.iter().map(|t| t.progress.get()).sum::<u64>();
    // first unfinished task that is Pending inside an adapter operation whose fd is ready (poll(2))
    let ready_waiter = |ts: &[Rc<TaskSt>]| -> Option<(usize, Want)> {
        ts.iter().enumerate().find_map(|(i, t)| {
            if t.done.get() || !t.scheduled.get() {
                return None;
            }
            match t.waiting.get() {
                Some(Want::Read) if kernel::is_readable(t.fd) => Some((i, Want::Read)),
                Some(Want::Write) if kernel::is_writable(t.fd) => Some((i, Want::Write)),
                _ => None,
            }
        })
    };

    let mut round: u64 = 0;
    let mut idle: u32 = 0;
    let mut idle_ready_all = true;
    let mut idle_who: Option<(usize, Want)> = None;
    let mut noprog: u32 = 0;
    let mut slow_left: u32 = MAX_SLOW_DISPATCH_ROUNDS;

    while violation.is_none() {
        let all_done = pending.is_empty() && tasks.iter().all(|t| t.done.get()) && sync.as_ref().map(|s| s.done()).unwrap_or(true) && a_shut;
        if all_done {
            stats.completed = true;
            break;
        }
        if round >= n.budget {
            stats.inconclusive = Some("inconclusive:budget");
            break;
        }
        let mut hp = false;
        // scheduling steps
        while pending.front().map(|p| p.0 <= round).unwrap_or(false) {
            let (_, st, slot) = pending.pop_front().unwrap();
            st.scheduled.set(true);
            let st2 = st.clone();
            sched
                .schedule(poll_fn(move |cx| {
                    st2.polls.set(st2.polls.get() + 1);
                    let mut g = slot.borrow_mut();
                    match g.as_mut() {
                        Some(fut) => fut.as_mut().poll(cx),
                        None => Poll::Ready(TaskOut { st: st2.clone(), io: None }), // cancelled by the driver
                    }
                }))
                .expect("schedule");
            hp = true;
        }
        if !pending.is_empty() {
            hp = true; // a planned scheduling is still to come: the harness itself has work left
        }
        if let Some(s) = sync.as_mut() {
            hp |= s.step();
            if let Some(e) = s.err.take() {
                panic!("{e}");
            }
        }
        // A-side task finished writing: signal EOF to the B side (the fd stays open, flags stay observable)
        if !a_shut && tasks[0].done.get() {
            unsafe { libc::shutdown(fa, libc::SHUT_WR) };
            a_shut = true;
            hp = true;
        }

        let (mut k, ti) = n.plan[(round % n.plan.len() as u64) as usize];
        // A non-zero timeout only matters when nothing is ready (then it sleeps); single-threaded, nothing
        // can become ready during the sleep, so the number of such dispatches per case is capped.
        let mut tmo = if slow_left > 0 { TMO_MS[ti as usize] } else { 0 };
        if tmo > 0 {
            slow_left -= 1;
        }
        if idle > 0 {
            k = 1;
            tmo = 20;
        } else if k == 0 && !hp {
            k = 1;
        }
        let p0 = total_polls(&tasks);
        let g0 = total_progress(&tasks);
        let ready0 = ready_waiter(&tasks);
        for _ in 0..k {
            el.dispatch(Some(Duration::from_millis(tmo)), &mut ()).expect("dispatch failed (no source can fail in this world)");
        }
        held.extend(results.borrow_mut().drain(..));
        round += 1;
        let ran = total_polls(&tasks) != p0;
        let progressed = hp || total_progress(&tasks) != g0;
        let ready1 = ready_waiter(&tasks);

        // O_NONBLOCK while the adapter lives
        for t in &tasks {
            if t.blocking_seen.get() || (!t.ended.get() && !kernel::is_nonblocking(t.fd)) {
                violation = Some(viol("C17.flags", "live/during".into(), format!("O_NONBLOCK found clear on the {} adapter's fd while the adapter is alive (round {round})", t.name)));
            }
            if let Some(e) = t.err.borrow().clone() {
                if violation.is_none() {
                    violation = Some(viol("C17.bytes", "io-error".into(), format!("topology {tn}: {} task: {e}", t.name)));
                }
            }
        }
        if violation.is_some() {
            break;
        }

        if hp || ran {
            idle = 0;
        } else {
            if idle == 0 {
                idle_ready_all = true;
                idle_who = ready0;
            }
            idle += 1;
            idle_ready_all &= ready0.is_some() && ready0 == ready1 && ready0 == idle_who;
            if idle >= 4 {
                // 1 dispatch with the planned timeout + 3 dispatches of 20 ms: nothing was polled.
                if idle_ready_all {
                    let (i, w) = idle_who.unwrap();
                    let t = &tasks[i];
                    violation = Some(viol(
                        "C17.stuck",
                        format!("lost-wake/{}", wait_shape(t, w)),
                        format!(
                            "topology {tn}: {} task is Pending in an adapter operation awaiting {:?}; poll(2) reports its fd ready for that interest before and after each of 4 consecutive dispatches (3 x 20 ms) and no task was polled: the wake-up is lost (round {round}, {} bytes payload, task polled {} times)",
                            t.name, w, n.len, t.polls.get()
                        ),
                    ));
                } else {
                    // nobody runnable, nobody ready, the harness has nothing to do: a deadlock of the
                    // generated scenario itself, not attributable to the adapter
                    stats.inconclusive = Some("inconclusive:deadlock");
                }
                break;
            }
        }
        if progressed {
            noprog = 0;
        } else if ready0.is_some() && ready1.is_some() {
            noprog += 1;
            if noprog >= 12 && ran {
                let (i, w) = ready1.unwrap();
                let t = &tasks[i];
                violation = Some(viol(
                    "C17.stuck",
                    format!("livelock/{}", wait_shape(t, w)),
                    format!(
                        "topology {tn}: {} task awaits {:?}; its fd has been ready for that interest (poll(2)) for 12 consecutive rounds in which tasks were polled but no adapter operation completed (round {round})",
                        t.name, w
                    ),
                ));
                break;
            }
        } else {
            noprog = 0;
        }
    }
    stats.rounds = round;

    // ---- results, adapter ends, teardown -------------------------------------------------------
    if violation.is_none() && stats.completed {
        // bytes
        let d = match n.topo {
            0 | 1 => diff_bytes("reader task", &sink_b.borrow(), &payload),
            2 => diff_bytes("synchronous reader", &sync.as_ref().unwrap().sink, &payload),
            3 => diff_bytes("echoed stream", &sync.as_ref().unwrap().sink, &payload),
            _ => diff_bytes("echoed stream (client task)", &sink_a.borrow(), &payload),
        };
        if let Some(d) = d {
            violation = Some(viol("C17.bytes", "mismatch".into(), format!("topology {tn}: {d}")));
        } else if n.topo >= 3 {
            // nothing extra after the echo finished
            let mut b = [0u8; 64];
            let r = unsafe { libc::recv(fa, b.as_mut_ptr() as *mut _, 64, libc::MSG_DONTWAIT) };
            if r > 0 {
                violation = Some(viol("C17.bytes", "extra".into(), format!("topology {tn}: {r} extra bytes arrived after the complete echo of {} bytes", n.len)));
            }
        }
        // EOF: every task that reads to the end must have seen Ok(0)
        if violation.is_none() {
            for t in &tasks {
                if matches!(t.name, "reader" | "echo") && !t.eof_seen.get() {
                    violation = Some(viol("C17.bytes", "eof".into(), format!("topology {tn}: {} task finished without reading Ok(0) after the peer shut down", t.name)));
                }
            }
        }
    }

    let pre_of = |t: &TaskSt| if t.fd == fa { case.pre_nb_a } else { case.pre_nb_b };
    let flag_check = |t: &TaskSt, when: &str, how: u8| -> Option<Violation> {
        let now = t.flag_after_end.get()?;
        if now != pre_of(t) {
            Some(viol(
                "C17.flags",
                format!("restore/{}", if how & 1 == 1 { "into_inner" } else { "drop" }),
                format!(
                    "{} adapter ended by {} ({when}): O_NONBLOCK is {} afterwards, was {} before adapt_io",
                    t.name,
                    if how & 1 == 1 { "into_inner" } else { "drop" },
                    now,
                    pre_of(t)
                ),
            ))
        } else {
            None
        }
    };
    let end_of = |t: &TaskSt| if t.fd == fa { case.end_a } else { case.end_b };

    // adapters ended inside their task
    if violation.is_none() {
        for t in &tasks {
            if t.ended.get() && end_of(t) >> 1 == 0 {
                if let Some(v) = flag_check(t, "inside the task", end_of(t)) {
                    violation = Some(v);
                    break;
                }
            }
        }
    }
    // adapters ended after all tasks, loop still alive
    let mut after_loop: Vec<TaskOut> = Vec::new();
    for out in held.drain(..) {
        let how = end_of(&out.st);
        if how >> 1 == 1 {
            if let Some(io) = out.io {
                end_adapter(io, &out.st, how);
                if violation.is_none() {
                    violation = flag_check(&out.st, "after the tasks, loop alive", how);
                }
            }
        } else {
            after_loop.push(out);
        }
    }
    // tear the loop down: drop unfinished task futures (and with them their adapters) first; a task
    // owns an adapter, the adapter owns the loop's inner state: a cycle unless broken here
    drop(pending);
    for slot in &slots {
        let fut = slot.borrow_mut().take();
        drop(fut);
    }
    handle.remove(exec_token);
    drop(sched);
    drop(handle);
    drop(el);
    for out in after_loop {
        let how = end_of(&out.st);
        if let Some(io) = out.io {
            end_adapter(io, &out.st, how);
            if violation.is_none() {
                violation = flag_check(&out.st, "after the event loop was dropped", how);
            }
        }
    }
    results.borrow_mut().clear();
    // final state of every adapted fd whose adapter was ended in an orderly way
    if violation.is_none() && stats.completed {
        for t in &tasks {
            let now = kernel::is_nonblocking(t.fd);
            if now != pre_of(t) {
                violation = Some(viol(
                    "C17.flags",
                    format!("restore/{}", if end_of(t) & 1 == 1 { "into_inner" } else { "drop" }),
                    format!("{} adapter gone: O_NONBLOCK is {now} at the end of the case, was {} before adapt_io", t.name, pre_of(t)),
                ));
                break;
            }
        }
    }

    for t in &tasks {
        stats.wb_write += t.wb_write.get();
        stats.wb_read += t.wb_read.get();
        stats.switches += t.switches.get();
        stats.pre_awaits += t.pre_awaits.get();
        stats.empty_writes += t.empty_writes.get();
        stats.vectored += t.vectored.get();
        stats.eof_seen |= t.eof_seen.get();
    }
    stats.spurious_used = shared.used.get();
    stats.dup_attempts = dup_attempts;
    stats.dup_ok = dup_ok;
    stats.foreign_used = shared.fused.get();
    stats.foreign_woken = shared.fwoken.load(Ordering::Relaxed);
    stats.eagain_sync = sync.as_ref().map(|s| s.eagain_w).unwrap_or(0);
    (stats, violation)
}

pub fn run_case(case: &Case) -> CaseOutcome {
    let (s, v) = run(case);
    let mut info = CaseInfo::default();
    // normalised case: what the interpreter actually used
    let n = normalise(case);
    info.fingerprint = fingerprint(&(
        (n.topo, n.len, case.pat, case.sndbuf_a.min(3), case.sndbuf_b.min(3)),
        (&n.wops, &n.rops, &n.srv_r, &n.srv_w, &n.hops),
        (&case.spurious, &case.foreign, case.b_first, case.gap, &n.plan),
        (case.pre_nb_a, case.pre_nb_b, case.end_a & 7, case.end_b & 7, case.flush),
    ));
    info.nontrivial = s.wb_write > 0 || s.eagain_sync > 0 || s.switches > 0;
    info.classes.push(match s.topo {
        0 => "topo:pair",
        1 => "topo:sync-writer+reader-task",
        2 => "topo:writer-task+sync-reader",
        3 => "topo:echo-task+sync-client",
        _ => "topo:echo-task+client-task",
    });
    info.classes.push(match s.len {
        0 => "len:0",
        1..=4095 => "len:<4K",
        4096..=32767 => "len:4K-32K",
        _ => "len:>=32K",
    });
    if s.wb_write > 0 {
        info.classes.push("adapter_write_wouldblock");
    }
    if s.wb_read > 0 {
        info.classes.push("adapter_read_wouldblock");
    }
    if s.eagain_sync > 0 {
        info.classes.push("sync_writer_eagain");
    }
    if s.switches > 0 {
        info.classes.push("interest_switched_on_one_adapter");
    }
    if s.dup_attempts > 0 {
        info.classes.push("second_adapt_io_on_live_adapter_fd_rejected");
    }
    if s.dup_ok > 0 {
        info.classes.push("second_adapt_io_unexpectedly_accepted");
    }
    if s.foreign_used > 0 {
        info.classes.push("abandoned_waiter_then_own_poll");
    }
    if s.foreign_woken > 0 {
        info.classes.push("abandoned_waker_woken");
    }
    if s.spurious_used > 0 {
        info.classes.push("spurious_repoll");
    }
    if s.pre_awaits > 0 {
        info.classes.push("readable_or_writable_awaited");
    }
    if s.vectored > 0 {
        info.classes.push("vectored_op");
    }
    if s.empty_writes > 0 {
        info.classes.push("zero_length_write");
    }
    if s.eof_seen {
        info.classes.push("eof_read");
    }
    if s.completed {
        info.classes.push("completed");
    }
    if let Some(l) = s.inconclusive {
        info.classes.push(l);
        if std::env::var_os("VERIF_C17_DEBUG").is_some() {
            eprintln!("C17 {l} after {} rounds: {}", s.rounds, serde_json::to_string(case).unwrap_or_default());
        }
    }
    if s.fd_checked {
        info.classes.push("fd_count_compared_before_after");
    }
    if s.fd_leak.is_some() {
        info.classes.push("infra:fd_count_changed");
    }
    let adapted_a = matches!(s.topo, 0 | 2 | 4);
    let adapted_b = matches!(s.topo, 0 | 1 | 3 | 4);
    if (adapted_a && !case.pre_nb_a) || (adapted_b && !case.pre_nb_b) {
        info.classes.push("fd_blocking_before_adapt");
    }
    if (adapted_a && case.pre_nb_a) || (adapted_b && case.pre_nb_b) {
        info.classes.push("fd_nonblocking_before_adapt");
    }
    for (ad, e) in [(adapted_a, case.end_a), (adapted_b, case.end_b)] {
        if ad {
            info.classes.push(if e & 1 == 1 { "end:into_inner" } else { "end:drop" });
            info.classes.push(match e >> 1 {
                0 => "end_when:in_task",
                1 => "end_when:after_tasks",
                _ => "end_when:after_loop_drop",
            });
        }
    }
    info.counters.push(("rounds", s.rounds));
    info.counters.push(("adapter_write_wouldblocks", s.wb_write));
    info.counters.push(("adapter_read_wouldblocks", s.wb_read));
    info.counters.push(("interest_switches", s.switches));
    info.counters.push(("payload_bytes", s.len as u64));
    (info, v)
}

// ---------------------------------------------------------------------------------------------
// Generators
// ---------------------------------------------------------------------------------------------

fn size() -> impl Strategy<Value = u32> {
    prop_oneof![
        3 => 1u32..=8,
        4 => 1u32..=600,
        3 => 600u32..=6000,
        2 => 6000u32..=70_000,
    ]
}

fn op() -> impl Strategy<Value = Op> {
    (size(), prop::bool::weighted(0.25), prop::bool::weighted(0.25), prop::bool::weighted(0.08)).prop_map(|(n, vec, pre, empty)| Op { n, vec, pre, empty })
}

fn ops() -> impl Strategy<Value = Vec<Op>> {
    prop::collection::vec(op(), 0..=5)
}

fn case_strategy() -> impl Strategy<Value = Case> {
    let payload = (
        0u8..=4,
        prop_oneof![1 => Just(0u32), 2 => 1u32..=64, 3 => 1u32..=6000, 7 => 6000u32..=MAX_LEN],
        any::<u16>(),
        prop_oneof![1 => Just(0u8), 5 => Just(1u8), 2 => 2u8..=3],
        prop_oneof![1 => Just(0u8), 5 => Just(1u8), 2 => 2u8..=3],
    );
    let plans = (ops(), ops(), ops(), ops(), prop::collection::vec(size(), 0..=4));
    let sched = (
        (prop::collection::vec(prop::bool::weighted(0.35), 0..=12), prop_oneof![2 => Just(vec![]), 3 => prop::collection::vec(prop::bool::weighted(0.3), 1..=16)]),
        any::<bool>(),
        0u8..=3,
        prop::collection::vec((0u8..=3, 0u8..=3), 1..=4),
    );
    let ends = (any::<bool>(), any::<bool>(), 0u8..=5, 0u8..=5, any::<bool>(), prop_oneof![3 => Just(0u8), 1 => 1u8..=3]);
    (payload, plans, sched, ends).prop_map(
        |((topo, len, pat, sndbuf_a, sndbuf_b), (wops, rops, srv_r, srv_w, hops), ((spurious, foreign), b_first, gap, plan), (pre_nb_a, pre_nb_b, end_a, end_b, flush, dup_adapt))| Case {
            topo,
            len,
            pat,
            sndbuf_a,
            sndbuf_b,
            wops,
            rops,
            srv_r,
            srv_w,
            hops,
            spurious,
            foreign,
            b_first,
            gap,
            plan,
            pre_nb_a,
            pre_nb_b,
            end_a,
            end_b,
            flush,
            dup_adapt,
        },
    )
}

// ---------------------------------------------------------------------------------------------
// Entry points
// ---------------------------------------------------------------------------------------------

// ------------------------------------------------------------------------------------------------
// hist sub-check: adapters inside the history machine (armed / re-armed for the other direction / dropped / handed to
// callbacks, from between dispatches and from inside callbacks of the same batch), judged by the monitor's adapter
// rules: a stored waker is woken once the fd is ready for what it last asked for; the fd is registered with that interest

fn hist_profile() -> Vec<(&'static str, crate::hist::ops::Profile, u32, u32)> {
    let mut p = crate::hist::ops::Profile::base();
    p.k_ping = 3;
    p.k_gen = 2;
    p.k_exec = 2;
    p.o_exec = 3;
    p.o_async = 16;
    p.o_cause = 10;
    p.o_token = 6;
    p.o_insert = 6;
    p.post_pct = 20;
    p.max_ops = 40;
    vec![("hist", p, 20_000, 400_000)]
}

pub static HIST: crate::props::histprops::HistProp = crate::props::histprops::HistProp {
    id: "C17",
    meta: &META,
    profiles: hist_profile,
    nontrivial: |f| f.adapter_waits_armed > 0 && f.in_cb_ops > 0,
    classes: |f, c| {
        if f.adapter_waits_armed > 0 {
            c.push("hist_adapter_wait_armed");
        }
        if f.adapters_given > 0 {
            c.push("hist_adapter_owned_by_a_callback");
        }
    },
    epoll_each_step: true,
    workers: 8,
    table: None,
    extra: None,
};

// ---------------------------------------------------------------------------------------------
// the lowest descriptor: an adapter over fd 0 (a socket that took the place of stdin) behaves like one over any other
// descriptor - non-blocking while adapted, former mode restored and the fd out of the poller afterwards (enumerated:
// drop | into_inner x blocking | non-blocking before). Runs first, while the check process is single-threaded.

#[derive(Serialize, Deserialize, Debug, Clone, Hash, PartialEq, Eq)]
pub struct LowFdCase {
    pub into_inner: bool,
    pub was_nonblocking: bool,
}

pub fn run_low_fd(c: &LowFdCase) -> CaseOutcome {
    use std::os::unix::io::AsRawFd;
    let mut info = CaseInfo { fingerprint: fingerprint(c), nontrivial: !c.was_nonblocking, ..CaseInfo::default() };
    info.classes.push("adapter_over_fd_0");
    let saved = kernel::dup(0);
    let (a, b) = kernel::socketpair();
    unsafe { libc::dup2(a, 0) };
    kernel::close(a);
    kernel::set_nonblocking(0, c.was_nonblocking);
    let v = |d: String| Some(Violation::new("C17.flags", format!("adapter over file descriptor 0 ({}, {} before): {d}", if c.into_inner { "into_inner" } else { "drop" }, if c.was_nonblocking { "non-blocking" } else { "blocking" })).with_sig("C17.flags/fd0"));
    let viol = (|| {
        let el: EventLoop<'static, ()> = EventLoop::try_new().expect("event loop");
        let epfd = el.as_raw_fd();
        let io = match el.handle().adapt_io(kernel::BorrowedRaw(0)) {
            Ok(io) => io,
            Err(e) => return v(format!("adapt_io failed: {e}")),
        };
        if !kernel::is_nonblocking(0) {
            return v("O_NONBLOCK is clear while the adapter lives".into());
        }
        if c.into_inner {
            let _ = io.into_inner();
        } else {
            drop(io);
        }
        if kernel::is_nonblocking(0) != c.was_nonblocking {
            return v(format!("after the adapter is gone O_NONBLOCK is {}, it was {} before adapt_io", kernel::is_nonblocking(0), c.was_nonblocking));
        }
        if kernel::epoll_table(epfd).iter().any(|e| e.tfd == 0) {
            return v("after the adapter is gone the descriptor is still registered with the poller".into());
        }
        match el.handle().adapt_io(kernel::BorrowedRaw(0)) {
            Ok(io) => drop(io),
            Err(e) => return v(format!("adapting the descriptor again failed: {e}")),
        }
        None
    })();
    unsafe {
        if saved >= 0 {
            libc::dup2(saved, 0);
            libc::close(saved);
        } else {
            libc::close(0);
        }
    }
    kernel::close(b);
    (info, viol)
}

fn low_fd(ctx: &CheckCtx) -> Option<Found> {
    if let Some(f) = ctx.run_replays::<LowFdCase, _>("low_fd", run_low_fd) {
        return Some(f);
    }
    for into_inner in [false, true] {
        for was_nonblocking in [false, true] {
            let c = LowFdCase { into_inner, was_nonblocking };
            let (info, v) = run_low_fd(&c);
            ctx.col.record(&info, || serde_json::to_value(&c).unwrap());
            if let Some(v) = v {
                return Some(Found { sub: "low_fd".into(), violation: v, case: serde_json::to_value(&c).unwrap(), replay_path: None });
            }
        }
    }
    None
}

// ---------------------------------------------------------------------------------------------
// an adapter owned by the callback of an event source of the same loop: however that source goes away (removed through
// the handle outside a dispatch, removed from another source's callback, leaving on its own), the adapter's Drop runs
// inside calloop and must still restore the blocking mode and take the fd out of the poller, without panicking.

#[derive(Serialize, Deserialize, Debug, Clone, Hash, PartialEq, Eq)]
pub struct OwnedCase {
    /// the owning source: 0 = timer, 1 = ping source
    pub owner: u8,
    /// 0 = LoopHandle::remove outside a dispatch, 1 = LoopHandle::remove from another source's callback,
    /// 2 = the owner leaves on its own (timer: TimeoutAction::Drop; ping: last handle dropped)
    pub how: u8,
    pub was_nonblocking: bool,
}

pub fn run_owned(c: &OwnedCase) -> CaseOutcome {
    use std::os::unix::io::{AsRawFd, FromRawFd};
    let mut info = CaseInfo { fingerprint: fingerprint(c), nontrivial: !c.was_nonblocking, ..CaseInfo::default() };
    info.classes.push("adapter_owned_by_a_source_callback");
    let (a, b) = kernel::socketpair();
    kernel::set_nonblocking(a, c.was_nonblocking);
    // the adapter gets a duplicate: O_NONBLOCK lives in the shared open file description and stays observable through
    // `a` after the adapter closed its descriptor; a registration left in the poller would stay visible too
    let d = kernel::dup(a);
    let what = format!(
        "adapter owned by the callback of a {} that {} (fd {} before)",
        if c.owner == 0 { "timer" } else { "ping source" },
        match c.how {
            0 => "is removed with LoopHandle::remove outside a dispatch",
            1 => "is removed with LoopHandle::remove from another source's callback",
            _ => "leaves the loop on its own",
        },
        if c.was_nonblocking { "non-blocking" } else { "blocking" }
    );
    let v = |detail: String| Some(Violation::new("C17.flags", format!("{what}: {detail}")).with_sig("C17.flags/owned"));
    let res = std::panic::catch_unwind(std::panic::AssertUnwindSafe(|| -> Option<Violation> {
        let mut el: EventLoop<'static, ()> = EventLoop::try_new().expect("event loop");
        let epfd = el.as_raw_fd();
        let handle = el.handle();
        let io = match handle.adapt_io(unsafe { std::os::fd::OwnedFd::from_raw_fd(d) }) {
            Ok(io) => io,
            Err(e) => return v(format!("adapt_io failed: {e}")),
        };
        if !kernel::is_nonblocking(a) {
            return v("O_NONBLOCK is clear while the adapter lives".into());
        }
        let mut ping_handle = None;
        let token = if c.owner == 0 {
            let t = if c.how == 2 { calloop::timer::Timer::immediate() } else { calloop::timer::Timer::from_duration(Duration::from_secs(3600)) };
            handle
                .insert_source(t, move |_, _, _| {
                    let _ = &io;
                    calloop::timer::TimeoutAction::Drop
                })
                .expect("insert timer")
        } else {
            let (p, src) = calloop::ping::make_ping().expect("ping");
            ping_handle = Some(p);
            handle
                .insert_source(src, move |_, _, _| {
                    let _ = &io;
                })
                .expect("insert ping")
        };
        match c.how {
            0 => handle.remove(token),
            1 => {
                let h2 = handle.clone();
                handle
                    .insert_source(calloop::timer::Timer::immediate(), move |_, _, _| {
                        h2.remove(token);
                        calloop::timer::TimeoutAction::Drop
                    })
                    .expect("insert timer");
                if let Err(e) = el.dispatch(Some(Duration::ZERO), &mut ()) {
                    return v(format!("dispatch failed: {e}"));
                }
            }
            _ => {
                drop(ping_handle.take());
                for _ in 0..2 {
                    if let Err(e) = el.dispatch(Some(Duration::ZERO), &mut ()) {
                        return v(format!("dispatch failed: {e}"));
                    }
                }
            }
        }
        drop(ping_handle);
        if kernel::is_nonblocking(a) != c.was_nonblocking {
            return v(format!("after the source (and the adapter with it) is gone O_NONBLOCK is {}, it was {} before adapt_io", kernel::is_nonblocking(a), c.was_nonblocking));
        }
        if kernel::epoll_table(epfd).iter().any(|e| e.tfd == d) {
            return v("after the source (and the adapter with it) is gone the descriptor is still registered with the poller".into());
        }
        None
    }));
    let viol = match res {
        Ok(v) => v,
        Err(p) => {
            let msg = p.downcast_ref::<String>().cloned().or_else(|| p.downcast_ref::<&str>().map(|s| s.to_string())).unwrap_or_else(|| "?".into());
            let r = v(format!("panic inside calloop: {msg}; O_NONBLOCK is now {}", kernel::is_nonblocking(a)));
            r
        }
    };
    kernel::close(a);
    kernel::close(b);
    (info, viol)
}

fn owned(ctx: &CheckCtx) -> Option<Found> {
    if let Some(f) = ctx.run_replays::<OwnedCase, _>("owned", run_owned) {
        return Some(f);
    }
    for owner in 0u8..2 {
        for how in 0u8..3 {
            for was_nonblocking in [false, true] {
                let c = OwnedCase { owner, how, was_nonblocking };
                let (info, v) = run_owned(&c);
                ctx.col.record(&info, || serde_json::to_value(&c).unwrap());
                if let Some(v) = v {
                    return Some(Found { sub: "owned".into(), violation: v, case: serde_json::to_value(&c).unwrap(), replay_path: None });
                }
            }
        }
    }
    None
}

pub fn check(ctx: &CheckCtx) -> Option<Found> {
    if let Some(f) = low_fd(ctx) {
        return Some(f);
    }
    if let Some(f) = owned(ctx) {
        return Some(f);
    }
    if let Some(f) = ctx.run_replays::<crate::hist::ops::HistCase, _>("hist", |c| crate::props::histprops::run_case_for(&HIST, c)) {
        return Some(f);
    }
    {
        let (name, profile, q, th) = hist_profile().remove(0);
        if let Some(f) = ctx.search_with(name, || crate::hist::ops::case_strategy(&profile), ctx.tier.pick(q, th), 8, None, |c| crate::props::histprops::run_case_for(&HIST, c)) {
            return Some(f);
        }
    }
    for sub in ["io", "io_solo"] {
        if let Some(f) = ctx.run_replays::<Case, _>(sub, run_case) {
            return Some(f);
        }
    }
    // Open known findings of this property are tolerated per narrow signature by the driver (counted in
    // excluded_known, reported once as KNOWN-FINDING); every other shape still fails the check.
    for sig in SIGNATURES {
        if ctx.known_open(sig) {
            ctx.col.note(format!("signature {sig} is listed as an open known finding: cases ending in it are counted, not reported"));
        }
    }
    let t = ctx.tier;
    if let Some(f) = ctx.search("io", case_strategy(), t.pick(2_000, 60_000), 8, None, run_case) {
        return Some(f);
    }
    // same generator on one worker: here the process-wide fd count is comparable before/after a case
    if let Some(f) = ctx.search("io_solo", case_strategy(), t.pick(150, 1_500), 1, None, run_case) {
        return Some(f);
    }
    if t == crate::driver::Tier::Thorough {
        if let Some(f) = crate::fuzz::campaign(ctx, &fuzz_subs(ctx), 20_000, 16) {
            return Some(f);
        }
    }
    ctx.col.note("classes 'inconclusive:*' count cases that ended in a deadlock of the generated scenario or ran out of step budget; they are never violations. 'infra:fd_count_changed' is an infrastructure observation (fd count before/after a case that ran alone), not a C17 rule");
    None
}

/// Byte decoder for the libFuzzer target: same domains and weights as `case_strategy`.
fn case_from_bytes(data: &[u8]) -> Case {
    use crate::hist::fuzzgen::Dec;
    let mut d = Dec::new(data);
    let size = |d: &mut Dec| match d.pickw(&[3, 4, 3, 2]) {
        0 => d.u32r(1, 8),
        1 => d.u32r(1, 600),
        2 => d.u32r(600, 6000),
        _ => d.u32r(6000, 70_000),
    };
    let op = |d: &mut Dec| Op { n: size(d), vec: d.pct(25), pre: d.pct(25), empty: d.pct(8) };
    let ops = |d: &mut Dec| {
        let n = d.len(0, 5);
        (0..n).map(|_| op(d)).collect::<Vec<_>>()
    };
    let sndbuf = |d: &mut Dec| match d.pickw(&[1, 5, 2]) {
        0 => 0u8,
        1 => 1,
        _ => d.u8r(2, 3),
    };
    let topo = d.u8r(0, 4);
    let len = match d.pickw(&[1, 2, 3, 7]) {
        0 => 0,
        1 => d.u32r(1, 64),
        2 => d.u32r(1, 6000),
        _ => d.u32r(6000, MAX_LEN),
    };
    let pat = d.u16();
    let sndbuf_a = sndbuf(&mut d);
    let sndbuf_b = sndbuf(&mut d);
    let wops = ops(&mut d);
    let rops = ops(&mut d);
    let srv_r = ops(&mut d);
    let srv_w = ops(&mut d);
    let nh = d.len(0, 4);
    let hops = (0..nh).map(|_| size(&mut d)).collect();
    let ns = d.len(0, 12);
    let spurious = (0..ns).map(|_| d.pct(35)).collect();
    let foreign = if d.pickw(&[2, 3]) == 0 {
        vec![]
    } else {
        let nf = d.len(1, 16);
        (0..nf).map(|_| d.pct(30)).collect()
    };
    let b_first = d.bool();
    let gap = d.u8r(0, 3);
    let np = d.len(1, 4);
    let plan = (0..np).map(|_| (d.u8r(0, 3), d.u8r(0, 3))).collect();
    Case {
        topo,
        len,
        pat,
        sndbuf_a,
        sndbuf_b,
        wops,
        rops,
        srv_r,
        srv_w,
        hops,
        spurious,
        foreign,
        b_first,
        gap,
        plan,
        pre_nb_a: d.bool(),
        pre_nb_b: d.bool(),
        end_a: d.u8r(0, 5),
        end_b: d.u8r(0, 5),
        flush: d.bool(),
        dup_adapt: if d.pickw(&[3, 1]) == 0 { 0 } else { d.u8r(1, 3) },
    }
}

pub fn fuzz_subs(_ctx: &CheckCtx) -> Vec<crate::fuzz::FuzzSub> {
    vec![crate::fuzz::sub("io", case_from_bytes, run_case)]
}

pub fn replay(_ctx: &CheckCtx, sub: &str, case: serde_json::Value) -> Result<Option<Violation>, String> {
    if sub == "hist" {
        return crate::props::histprops::hist_replay(&HIST, case);
    }
    if sub == "low_fd" {
        let c: LowFdCase = serde_json::from_value(case).map_err(|e| e.to_string())?;
        return Ok(run_low_fd(&c).1);
    }
    if sub == "owned" {
        let c: OwnedCase = serde_json::from_value(case).map_err(|e| e.to_string())?;
        return Ok(run_owned(&c).1);
    }
    let c: Case = serde_json::from_value(case).map_err(|e| e.to_string())?;
    Ok(run_case(&c).1)
}
