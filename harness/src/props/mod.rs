//! Per-property checks.
use crate::driver::{CheckCtx, Found, PropMeta, Violation};

pub mod c20;

pub struct PropEntry {
    pub meta: &'static PropMeta,
    pub check: fn(&CheckCtx) -> Option<Found>,
    pub replay: fn(&CheckCtx, &str, serde_json::Value) -> Result<Option<Violation>, String>,
}

pub fn registry() -> Vec<PropEntry> {
    vec![
        PropEntry { meta: &c20::META, check: c20::check, replay: c20::replay },
    ]
}
