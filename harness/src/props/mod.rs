//! Per-property checks.
use crate::driver::{CheckCtx, Found, PropMeta, Violation};

pub mod c03;
pub mod c04;
pub mod c10;
pub mod c11;
pub mod c12;
pub mod c17;
pub mod c18;
pub mod c19;
pub mod c20;
pub mod histprops;

pub struct PropEntry {
    pub meta: &'static PropMeta,
    pub check: fn(&CheckCtx) -> Option<Found>,
    pub replay: fn(&CheckCtx, &str, serde_json::Value) -> Result<Option<Violation>, String>,
    /// sub-checks that are pure functions of a generated case on one thread: fuzzable by libFuzzer (thorough tier)
    pub fuzz: Option<fn(&CheckCtx) -> Vec<crate::fuzz::FuzzSub>>,
}

pub fn registry() -> Vec<PropEntry> {
    vec![
        PropEntry { meta: &c03::META, check: c03::check, replay: c03::replay, fuzz: None },
        PropEntry { meta: &c04::META, check: c04::check, replay: c04::replay, fuzz: None },
        PropEntry { meta: &c10::META, check: c10::check, replay: c10::replay, fuzz: None },
        PropEntry { meta: &c11::META, check: c11::check, replay: c11::replay, fuzz: None },
        PropEntry { meta: &c12::META, check: c12::check, replay: c12::replay, fuzz: None },
        PropEntry { meta: &c17::META, check: c17::check, replay: c17::replay, fuzz: Some(c17::fuzz_subs) },
        PropEntry { meta: &c18::META, check: c18::check, replay: c18::replay, fuzz: Some(c18::fuzz_subs) },
        PropEntry { meta: &c19::META, check: c19::check, replay: c19::replay, fuzz: None },
        PropEntry { meta: &c20::META, check: c20::check, replay: c20::replay, fuzz: Some(c20::fuzz_subs) },
        PropEntry { meta: &histprops::C01_META, check: |c| histprops::hist_check(c, &histprops::C01), replay: |_, _, v| histprops::hist_replay(&histprops::C01, v), fuzz: Some(|_| histprops::hist_fuzz_subs(&histprops::C01)) },
        PropEntry { meta: &histprops::C02_META, check: |c| histprops::hist_check(c, &histprops::C02), replay: |_, sub, v| histprops::c02_replay(sub, v), fuzz: Some(|_| histprops::hist_fuzz_subs(&histprops::C02)) },
        PropEntry { meta: &histprops::C05_META, check: |c| histprops::hist_check(c, &histprops::C05), replay: |_, _, v| histprops::hist_replay(&histprops::C05, v), fuzz: Some(|_| histprops::hist_fuzz_subs(&histprops::C05)) },
        PropEntry { meta: &histprops::C06_META, check: |c| histprops::hist_check(c, &histprops::C06), replay: |_, _, v| histprops::hist_replay(&histprops::C06, v), fuzz: Some(|_| histprops::hist_fuzz_subs(&histprops::C06)) },
        PropEntry { meta: &histprops::C07_META, check: |c| histprops::hist_check(c, &histprops::C07), replay: |_, _, v| histprops::hist_replay(&histprops::C07, v), fuzz: Some(|_| histprops::hist_fuzz_subs(&histprops::C07)) },
        PropEntry { meta: &histprops::C08_META, check: |c| histprops::hist_check(c, &histprops::C08), replay: |_, _, v| histprops::hist_replay(&histprops::C08, v), fuzz: Some(|_| histprops::hist_fuzz_subs(&histprops::C08)) },
        PropEntry { meta: &histprops::C09_META, check: |c| histprops::hist_check(c, &histprops::C09), replay: |_, _, v| histprops::hist_replay(&histprops::C09, v), fuzz: Some(|_| histprops::hist_fuzz_subs(&histprops::C09)) },
        PropEntry { meta: &histprops::C13_META, check: |c| histprops::hist_check(c, &histprops::C13), replay: |_, sub, v| histprops::c13_replay(sub, v), fuzz: Some(|_| histprops::hist_fuzz_subs(&histprops::C13)) },
        PropEntry { meta: &histprops::C14_META, check: |c| histprops::hist_check(c, &histprops::C14), replay: |_, sub, v| histprops::c14_replay(sub, v), fuzz: Some(|_| histprops::hist_fuzz_subs(&histprops::C14)) },
        PropEntry { meta: &histprops::C15_META, check: |c| histprops::hist_check(c, &histprops::C15), replay: |_, _, v| histprops::hist_replay(&histprops::C15, v), fuzz: Some(|_| histprops::hist_fuzz_subs(&histprops::C15)) },
        PropEntry { meta: &histprops::C16_META, check: |c| histprops::hist_check(c, &histprops::C16), replay: |_, sub, v| histprops::c16_replay(sub, v), fuzz: Some(|_| histprops::hist_fuzz_subs(&histprops::C16)) },
    ]
}
