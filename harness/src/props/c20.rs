//! C20 — poller keys encode (slot, generation, sub-source) injectively and reversibly.
//!
//! pure input PBT + bounded-exhaustive planes + factory runs + kernel cross-check (fdinfo).

use crate::driver::{CaseOutcome, CheckCtx, Found, PropMeta, Tier, Violation};
use crate::evidence::{fingerprint, CaseInfo};
use crate::kernel;
use calloop::verif as cv;
use calloop::{EventLoop, EventSource, Interest, Mode, Poll, PostAction, Readiness, Token, TokenFactory};
use proptest::prelude::*;
use serde::{Deserialize, Serialize};
use serde_json::json;
use std::cell::RefCell;
use std::os::unix::io::{AsRawFd, RawFd};
use std::panic::{catch_unwind, AssertUnwindSafe};
use std::rc::Rc;
use std::sync::atomic::{AtomicBool, AtomicU64, Ordering};
use std::sync::Mutex;
use std::time::Duration;

pub const META: PropMeta = PropMeta {
    id: "C20",
    level: "exploration",
    rule: "cases: (a) random (id,generation,sub) triples, pairs of triples and raw usize keys checked for round trip, injectivity, field isolation, reserved key, bump/same_source laws; (b) boundary-id planes over all generations x sub-ids (quick: every generation x sub-ids at stride 61; thorough: every pair), distinct by construction; (c) token factories asked for n tokens; (d) real loops whose slot is reused g times, key compared with the kernel epoll table; (e) composites mixing calloop's Generic children with token-drawing children in generated order, inserted and re-registered 0..3 times: every live sub-source holds its own key of the source's (slot, generation), pairwise distinct (kernel table for the Generic children). non-trivial: generation >= 256 or sub-id >= 256 or id >= 2^16, a factory run of >= 255 tokens, or a loop case with >= 2 reuses or >= 2 sub-sources. distinct: by fingerprint of the case (planes: by construction); (ship) the triple / factory / loop cases once more in a build without overflow checks and debug assertions",
    assumptions: &[
        "verif::pack/unpack/bump_version/same_source/token_factory are thin wrappers over TokenInner conversions (hook commit)",
        "/proc/self/fdinfo reports the epoll data field as registered",
        "64-bit target (16/16/32 bit fields)",
    ],
};

const BOUNDARY_IDS: [u32; 7] = [0, 1, 0xFFFF, 0x1_0000, 0x8000_0000, 0xFFFF_FFFE, 0xFFFF_FFFF];

#[derive(Serialize, Deserialize, Debug, Clone, Hash)]
pub enum Case {
    Triple {
        a: (u32, u16, u16),
        b: (u32, u16, u16),
        raw: u64,
    },
    Factory {
        id: u32,
        ver: u16,
        start_sub: u16,
        n: u32,
    },
    Loop {
        pre_slots: u8,
        reuses: u32,
        subs: u8,
    },
    /// a slot used `reuses` times, then `rejected` insertions into it that fail half-way (composite: an eventfd child the
    /// poller accepts, then a regular file it refuses; no roll-back, the handed-back source is kept alive, so its first
    /// child stays known to the poller), then a successor in the same slot: no two entries of the kernel table may
    /// carry the same key, and an event of a rejected source must not reach the successor
    Rejected {
        pre_slots: u8,
        reuses: u8,
        rejected: u8,
    },
    /// a composite of calloop's own sub-sources in the given order (true = `Generic` over an eventfd, false = a child
    /// that just draws its token from the factory, like a Timer or a freshly set TransientSource child), inserted,
    /// then re-registered `updates` times: every live sub-source must hold its own key of the source's (slot, generation)
    /// `shape`: which drawing children take a token in which pass (bit (pass * 3 + i) % 32; all of them in pass 0 if
    /// the mask is 0): a child that starts or stops drawing (a Timer whose deadline comes and goes, a transient child
    /// that leaves) shifts the sub-ids of everything registered after it, and every key has to follow
    Mixed {
        layout: Vec<bool>,
        updates: u8,
        #[serde(default)]
        shape: u32,
        /// bit i: the non-Generic child i is a real `Timer` (armed, so it draws a token in every pass, whatever `shape`
        /// says) due 1 ms after the last pass: the expiry must come back under the key the child holds NOW (its
        /// position in the last pass) and fire that timer once - the token the timer wheel holds is a poller key too
        #[serde(default)]
        timers: u8,
        /// which Generic children the composite PAUSES in which pass after the first (bit (pass * 5 + i) % 32): a paused
        /// child is unregistered on its own (`child.unregister(poll)`) and takes no sub-token while its siblings are
        /// re-registered - flow control. It must not be in the kernel table, everything after it moves up, and when
        /// the siblings become ready (every event is offered to every child, each filters by its own token) the paused
        /// child must not take a sibling's event for its own
        #[serde(default)]
        paused: u32,
    },
}

fn id_strategy() -> impl Strategy<Value = u32> {
    prop_oneof![
        3 => any::<u32>(),
        2 => 0u32..8,
        2 => proptest::sample::select(BOUNDARY_IDS.to_vec()),
        1 => (0u32..32).prop_map(|s| 1u32 << s),
        1 => (0u32..32).prop_map(|s| (1u32 << s).wrapping_sub(1)),
    ]
}

fn u16_strategy() -> impl Strategy<Value = u16> {
    prop_oneof![
        3 => any::<u16>(),
        1 => 0u16..4,
        1 => proptest::sample::select(vec![0u16, 1, 254, 255, 256, 257, 0x7FFF, 0x8000, 0xFFFE, 0xFFFF]),
    ]
}

fn triple() -> impl Strategy<Value = (u32, u16, u16)> {
    (id_strategy(), u16_strategy(), u16_strategy())
}

fn triple_case() -> impl Strategy<Value = Case> {
    (triple(), triple(), any::<u64>(), 0u8..8).prop_map(|(a, b, raw, rel)| {
        // relate b to a so that "differ in exactly one field / adjacent" pairs are frequent
        let b = match rel {
            0 => (a.0, a.1, b.2),
            1 => (a.0, b.1, a.2),
            2 => (b.0, a.1, a.2),
            3 => (a.0, a.1, a.2.wrapping_add(1)),
            4 => (a.0, a.1.wrapping_add(1), a.2),
            5 => (a.0.wrapping_add(1), a.1, a.2),
            _ => b,
        };
        Case::Triple { a, b, raw }
    })
}

fn factory_case() -> impl Strategy<Value = Case> {
    (
        id_strategy(),
        u16_strategy(),
        u16_strategy(),
        prop_oneof![
            4 => 1u32..40,
            1 => proptest::sample::select(vec![255u32, 256, 257, 1000]),
        ],
    )
        .prop_map(|(id, ver, start_sub, n)| Case::Factory { id, ver, start_sub, n })
}

fn loop_case() -> impl Strategy<Value = Case> {
    (0u8..4, prop_oneof![4 => 0u32..6, 1 => proptest::sample::select(vec![255u32, 256, 257])], 0u8..5)
        .prop_map(|(pre_slots, reuses, subs)| if subs == 0 { Case::Rejected { pre_slots, reuses: (reuses % 4) as u8, rejected: 1 + (reuses % 3) as u8 } } else { Case::Loop { pre_slots, reuses, subs } })
}

fn mixed_case() -> impl Strategy<Value = Case> {
    (proptest::collection::vec(any::<bool>(), 1..=6), 0u8..4, prop_oneof![1 => Just(0u32), 2 => any::<u32>()], prop_oneof![2 => Just(0u8), 1 => any::<u8>()], prop_oneof![2 => Just(0u32), 1 => any::<u32>()]).prop_map(|(layout, updates, shape, timers, paused)| Case::Mixed { layout, updates, shape, timers, paused })
}

fn v(rule: &str, detail: String) -> Option<Violation> {
    Some(Violation::new(rule, detail))
}

/// The laws for one triple `t`.
#[inline]
fn check_triple(t: (u32, u16, u16)) -> Option<Violation> {
    let k = cv::pack(t.0, t.1, t.2);
    let back = cv::unpack(k);
    if back != t {
        return v("C20.roundtrip", format!("unpack(pack({t:?})) = {back:?} (key {k:#x})"));
    }
    if t.0 < u32::MAX && k == cv::poller_notify_key() {
        return v("C20.reserved", format!("pack({t:?}) equals the poller's notification key"));
    }
    None
}

fn check_pair(a: (u32, u16, u16), b: (u32, u16, u16)) -> Option<Violation> {
    let ka = cv::pack(a.0, a.1, a.2);
    let kb = cv::pack(b.0, b.1, b.2);
    if (a == b) != (ka == kb) {
        return v("C20.inject", format!("{a:?} -> {ka:#x}, {b:?} -> {kb:#x}"));
    }
    let same = cv::same_source(ka, kb);
    if same != (a.0 == b.0 && a.1 == b.1) {
        return v("C20.bump", format!("same_source({a:?},{b:?}) = {same}"));
    }
    // field isolation: changing only the sub-id must leave (id, generation) of the decoded key alone
    if a.0 == b.0 && a.1 == b.1 {
        let (ia, va, _) = cv::unpack(ka);
        let (ib, vb, _) = cv::unpack(kb);
        if (ia, va) != (ib, vb) {
            return v("C20.inject", format!("sub-id leaks into id/generation: {a:?} {b:?}"));
        }
        if cv::forget_sub_id(ka) != cv::forget_sub_id(kb) {
            return v("C20.inject", format!("forget_sub_id differs for {a:?} {b:?}"));
        }
    }
    None
}

fn check_laws(a: (u32, u16, u16)) -> Option<Violation> {
    let k = cv::pack(a.0, a.1, a.2);
    let bumped = cv::unpack(cv::bump_version(k));
    if bumped != (a.0, a.1.wrapping_add(1), 0) {
        return v("C20.bump", format!("bump_version({a:?}) = {bumped:?}"));
    }
    let f = cv::unpack(cv::forget_sub_id(k));
    if f != (a.0, a.1, 0) {
        return v("C20.bump", format!("forget_sub_id({a:?}) = {f:?}"));
    }
    if a.2 < u16::MAX {
        match catch_unwind(|| cv::bump_sub_id(k)) {
            Ok(k2) => {
                let s = cv::unpack(k2);
                if s != (a.0, a.1, a.2 + 1) {
                    return v("C20.factory", format!("increment_sub_id({a:?}) = {s:?}"));
                }
            }
            Err(_) => return v("C20.factory", format!("increment_sub_id({a:?}) panicked although representable")),
        }
    } else if let Ok(k2) = catch_unwind(|| cv::bump_sub_id(k)) {
        return v(
            "C20.factory",
            format!("increment_sub_id({a:?}) wrapped to {:?} instead of failing", cv::unpack(k2)),
        );
    }
    None
}

fn check_raw(raw: u64) -> Option<Violation> {
    let k = raw as usize;
    let (i, ve, s) = cv::unpack(k);
    let k2 = cv::pack(i, ve, s);
    if k2 != k {
        return v("C20.roundtrip", format!("pack(unpack({k:#x})) = {k2:#x}"));
    }
    None
}

fn run_factory(id: u32, ver: u16, start_sub: u16, n: u32) -> Option<Violation> {
    let key = cv::pack(id, ver, start_sub);
    let base = cv::pack(id, ver, 0);
    let mut factory = cv::token_factory(key);
    let mut seen: Vec<usize> = Vec::with_capacity(n.min(70_000) as usize);
    for i in 0..n {
        let r = catch_unwind(AssertUnwindSafe(|| factory.token().verif_key()));
        match r {
            Ok(k) => {
                if i >= 65_536 {
                    return v(
                        "C20.factory",
                        format!("request #{} of one factory returned {:?}: more tokens than sub-ids", i + 1, cv::unpack(k)),
                    );
                }
                let t = cv::unpack(k);
                if t != (id, ver, i as u16) {
                    return v(
                        "C20.factory",
                        format!("token #{i} of factory({id},{ver}) is {t:?}, expected sub-id {i}"),
                    );
                }
                if !cv::same_source(k, base) {
                    return v("C20.factory", format!("token #{i} {t:?} not same_source as its factory"));
                }
                if let Some(&prev) = seen.last() {
                    if prev >= k && cv::unpack(prev) == t {
                        return v("C20.factory", format!("token #{i} repeats {t:?}"));
                    }
                }
                seen.push(k);
            }
            Err(_) => {
                // failing loudly is allowed only when the next sub-id could become unrepresentable:
                // the factory computes the successor eagerly, so the earliest legitimate panic is at
                // the request that returns sub-id 65535 (i == 65535).
                if i < 65_535 {
                    return v(
                        "C20.factory",
                        format!("request #{} panicked although sub-id {} is representable", i + 1, i),
                    );
                }
                return None;
            }
        }
    }
    // pairwise distinct: sub-ids are consecutive from 0, so distinctness of keys follows from
    // roundtrip; check explicitly on the collected keys anyway
    let mut sorted = seen.clone();
    sorted.sort_unstable();
    sorted.dedup();
    if sorted.len() != seen.len() {
        return v("C20.factory", format!("factory({id},{ver}) returned duplicate tokens within {n} requests"));
    }
    None
}

/// Source with `n` eventfds, each registered under the next token of the factory; records the keys.
struct KeyProbe {
    fds: Vec<kernel::OwnedRaw>,
    keys: Rc<RefCell<Vec<usize>>>,
    seen: Rc<RefCell<Vec<usize>>>,
}

impl EventSource for KeyProbe {
    type Event = ();
    type Metadata = ();
    type Ret = ();
    type Error = std::io::Error;
    fn process_events<F>(&mut self, _: Readiness, token: Token, _cb: F) -> Result<PostAction, Self::Error>
    where
        F: FnMut((), &mut ()),
    {
        self.seen.borrow_mut().push(token.verif_key());
        Ok(PostAction::Continue)
    }
    fn register(&mut self, poll: &mut Poll, tf: &mut TokenFactory) -> calloop::Result<()> {
        let mut keys = self.keys.borrow_mut();
        keys.clear();
        for fd in &self.fds {
            let t = tf.token();
            keys.push(t.verif_key());
            unsafe { poll.register(fd, Interest::READ, Mode::Level, t)? };
        }
        Ok(())
    }
    fn reregister(&mut self, poll: &mut Poll, tf: &mut TokenFactory) -> calloop::Result<()> {
        let mut keys = self.keys.borrow_mut();
        keys.clear();
        for fd in &self.fds {
            let t = tf.token();
            keys.push(t.verif_key());
            poll.reregister(fd, Interest::READ, Mode::Level, t)?;
        }
        Ok(())
    }
    fn unregister(&mut self, poll: &mut Poll) -> calloop::Result<()> {
        for fd in &self.fds {
            poll.unregister(fd)?;
        }
        Ok(())
    }
}

/// Composite of real `Generic` children and token-drawing children, registered in order through the shared factory.
struct MixedProbe {
    gens: Vec<Option<calloop::generic::Generic<kernel::OwnedRaw>>>,
    /// per child: the key drawn by a drawing child at its last (re)registration
    drawn: Rc<RefCell<Vec<Option<usize>>>>,
    /// bit i: drawing child i takes a token in the current pass
    draws: Rc<std::cell::Cell<u32>>,
    /// real Timer children (same index space)
    timers: Vec<Option<calloop::timer::Timer>>,
    /// keys of the events handed to process_events
    events: Rc<RefCell<Vec<usize>>>,
    /// per child: how often its Timer fired
    fired: Rc<RefCell<Vec<u32>>>,
    /// bit i: Generic child i is paused in the current pass
    pause: Rc<std::cell::Cell<u32>>,
    /// per child: currently unregistered by the composite itself
    is_paused: Vec<bool>,
    /// per child: how often its Generic callback ran
    hits: Rc<RefCell<Vec<u32>>>,
}

impl EventSource for MixedProbe {
    type Event = ();
    type Metadata = ();
    type Ret = ();
    type Error = std::io::Error;
    fn process_events<F>(&mut self, readiness: Readiness, token: Token, _cb: F) -> Result<PostAction, Self::Error>
    where
        F: FnMut((), &mut ()),
    {
        self.events.borrow_mut().push(token.verif_key());
        // book style: every event is offered to every Timer child, each filters by its own token
        for (i, t) in self.timers.iter_mut().enumerate() {
            if let Some(t) = t {
                let fired = self.fired.clone();
                let _ = t.process_events(readiness, token, |_, _| {
                    fired.borrow_mut()[i] += 1;
                    calloop::timer::TimeoutAction::Drop
                });
            }
        }
        // ... and to every Generic child, paused or not
        for (i, g) in self.gens.iter_mut().enumerate() {
            if let Some(g) = g {
                let hits = self.hits.clone();
                let _ = g.process_events(readiness, token, |_, fd| {
                    hits.borrow_mut()[i] += 1;
                    let _ = kernel::eventfd_read(fd.0);
                    Ok(PostAction::Continue)
                });
            }
        }
        Ok(PostAction::Continue)
    }
    fn register(&mut self, poll: &mut Poll, tf: &mut TokenFactory) -> calloop::Result<()> {
        for (i, g) in self.gens.iter_mut().enumerate() {
            if let Some(t) = self.timers[i].as_mut() {
                t.register(poll, tf)?;
                continue;
            }
            match g {
                Some(g) => g.register(poll, tf)?,
                None => self.drawn.borrow_mut()[i] = if self.draws.get() >> i & 1 == 1 { Some(tf.token().verif_key()) } else { None },
            }
        }
        Ok(())
    }
    fn reregister(&mut self, poll: &mut Poll, tf: &mut TokenFactory) -> calloop::Result<()> {
        for (i, g) in self.gens.iter_mut().enumerate() {
            if let Some(t) = self.timers[i].as_mut() {
                t.reregister(poll, tf)?;
                continue;
            }
            match g {
                Some(g) => {
                    let pause_now = self.pause.get() >> i & 1 == 1;
                    match (self.is_paused[i], pause_now) {
                        (false, false) => g.reregister(poll, tf)?,
                        (false, true) => g.unregister(poll)?,
                        (true, false) => g.register(poll, tf)?,
                        (true, true) => {}
                    }
                    self.is_paused[i] = pause_now;
                }
                None => self.drawn.borrow_mut()[i] = if self.draws.get() >> i & 1 == 1 { Some(tf.token().verif_key()) } else { None },
            }
        }
        Ok(())
    }
    fn unregister(&mut self, poll: &mut Poll) -> calloop::Result<()> {
        for (i, g) in self.gens.iter_mut().enumerate() {
            if let (Some(g), false) = (g, self.is_paused[i]) {
                g.unregister(poll)?;
            }
        }
        for t in self.timers.iter_mut().flatten() {
            t.unregister(poll)?;
        }
        Ok(())
    }
}

fn run_mixed(layout: &[bool], updates: u8, shape: u32, timers: u8, paused: u32) -> Option<Violation> {
    let layout: Vec<bool> = layout.iter().copied().take(8).collect();
    if layout.is_empty() {
        return None;
    }
    let mut el: EventLoop<()> = EventLoop::try_new().expect("event loop");
    let epfd = el.as_raw_fd();
    let h = el.handle();
    let mut raw: Vec<Option<RawFd>> = Vec::new();
    let mut gens = Vec::new();
    let is_timer = |i: usize| !layout[i] && timers >> i & 1 == 1;
    // far enough for the passes below, re-set to "1 ms from now" before the last one
    let timer_children: Vec<Option<calloop::timer::Timer>> =
        (0..layout.len()).map(|i| if is_timer(i) { Some(calloop::timer::Timer::from_duration(Duration::from_secs(3600))) } else { None }).collect();
    let any_timer = timer_children.iter().any(|t| t.is_some());
    let events = Rc::new(RefCell::new(Vec::new()));
    let fired = Rc::new(RefCell::new(vec![0u32; layout.len()]));
    for is_gen in &layout {
        if *is_gen {
            let fd = kernel::eventfd_nonblock();
            raw.push(Some(fd));
            gens.push(Some(calloop::generic::Generic::new(kernel::OwnedRaw(fd), Interest::READ, Mode::Level)));
        } else {
            raw.push(None);
            gens.push(None);
        }
    }
    let drawn = Rc::new(RefCell::new(vec![None; layout.len()]));
    let timer_mask: u32 = (0..layout.len()).fold(0, |m, i| m | ((is_timer(i) as u32) << i));
    let draws_of = |pass: u32| -> u32 {
        timer_mask
            | if shape == 0 {
                u32::MAX
            } else {
                (0..layout.len() as u32).fold(0, |m, i| m | ((shape >> ((pass * 3 + i) % 32) & 1) << i))
            }
    };
    let draws = Rc::new(std::cell::Cell::new(draws_of(0)));
    // nobody is paused in the first pass
    let pause_of = |pass: u32| -> u32 {
        if pass == 0 || paused == 0 {
            0
        } else {
            (0..layout.len() as u32).fold(0, |m, i| m | ((layout[i as usize] as u32 & (paused >> ((pass * 5 + i) % 32) & 1)) << i))
        }
    };
    let pause = Rc::new(std::cell::Cell::new(0u32));
    let hits = Rc::new(RefCell::new(vec![0u32; layout.len()]));
    let probe = calloop::Dispatcher::new(
        MixedProbe { gens, drawn: drawn.clone(), draws: draws.clone(), timers: timer_children, events: events.clone(), fired: fired.clone(), pause: pause.clone(), is_paused: vec![false; layout.len()], hits: hits.clone() },
        |_: (), _: &mut (), _: &mut ()| {},
    );
    let tok = h.register_dispatcher(probe.clone()).expect("insert MixedProbe");
    let last_round = updates.min(4);
    let mut timer_keys: Vec<(usize, usize)> = Vec::new();
    let (slot, ver, _) = cv::unpack(tok.verif_key());
    for round in 0..=updates.min(4) {
        if any_timer && round == last_round {
            // the deadline the last pass arms (set through the guard, which is released before the loop is called)
            let mut g = probe.as_source_mut();
            for t in g.timers.iter_mut().flatten() {
                t.set_duration(Duration::from_millis(1));
            }
            drop(g);
            if round == 0 {
                if let Err(e) = h.update(&tok) {
                    return v("C20.kernel", format!("update() of the composite failed: {e}"));
                }
            }
        }
        if round > 0 {
            draws.set(draws_of(round as u32));
            pause.set(pause_of(round as u32));
            if let Err(e) = h.update(&tok) {
                return v("C20.kernel", format!("update() of the composite failed: {e}"));
            }
        }
        let table = kernel::epoll_table(epfd);
        let mut keys: Vec<usize> = Vec::new();
        // sub-ids are handed out in registration order to whoever takes one in this pass
        let mut next_sub = 0u16;
        for (i, fd) in raw.iter().enumerate() {
            if fd.is_none() && draws.get() >> i & 1 == 0 {
                continue;
            }
            if let (Some(fd), true) = (fd, pause.get() >> i & 1 == 1) {
                if table.iter().any(|e| e.tfd == *fd) {
                    return v("C20.kernel", format!("generic child {i} (fd {fd}) was unregistered by its composite in round {round} and is still in the kernel table"));
                }
                continue;
            }
            let want_sub = next_sub;
            next_sub += 1;
            if is_timer(i) {
                // what the wheel holds shows when the timer expires (below); its place in this pass is `want_sub`
                if round == last_round {
                    timer_keys.push((i, cv::pack(slot, ver, want_sub)));
                }
                keys.push(cv::pack(slot, ver, want_sub));
                continue;
            }
            let k = match fd {
                Some(fd) => match table.iter().find(|e| e.tfd == *fd) {
                    Some(e) => e.data as usize,
                    None => return v("C20.kernel", format!("generic child {i} (fd {fd}) is not in the kernel table after {round} update(s)")),
                },
                None => match drawn.borrow()[i] {
                    Some(k) => k,
                    None => return v("C20.factory", format!("drawing child {i} was not (re)registered in round {round}")),
                },
            };
            let (s2, v2, sub2) = cv::unpack(k);
            if (s2, v2) != (slot, ver) {
                return v("C20.kernel", format!("child {i} holds key {:?} after {round} update(s), the source is ({slot},{ver})", cv::unpack(k)));
            }
            if sub2 != want_sub {
                return v(
                    "C20.kernel",
                    format!(
                        "after {round} update(s) child {i} ({}) is known to the poller / holds sub-id {sub2}, but it was the {}th to take a sub-token in this pass (layout {layout:?}, drawing mask {:#b})",
                        if fd.is_some() { "Generic" } else { "drawing child" },
                        want_sub + 1,
                        draws.get() & ((1u32 << layout.len()) - 1)
                    ),
                );
            }
            keys.push(k);
        }
        let mut sorted = keys.clone();
        sorted.sort_unstable();
        sorted.dedup();
        if sorted.len() != keys.len() {
            return v(
                "C20.inject",
                format!(
                    "after {round} update(s) two live sub-sources of one source hold the same poller key: layout {:?} (true = Generic), keys {:?}",
                    layout,
                    keys.iter().map(|k| cv::unpack(*k)).collect::<Vec<_>>()
                ),
            );
        }
    }
    // the registered Generic children become ready (the paused ones too, which nobody watches): each registered one runs
    // its callback once, a paused one never - it holds no key, so no event of the batch can be its own
    let gen_keys: Vec<usize> = kernel::epoll_table(epfd).iter().filter(|e| raw.iter().flatten().any(|fd| *fd == e.tfd)).map(|e| e.data as usize).collect();
    if raw.iter().any(|fd| fd.is_some()) {
        for fd in raw.iter().flatten() {
            kernel::eventfd_write(*fd, 1);
        }
        for _ in 0..2 {
            if let Err(e) = el.dispatch(Some(Duration::ZERO), &mut ()) {
                return v("C20.kernel", format!("dispatch failed: {e}"));
            }
        }
        for (i, fd) in raw.iter().enumerate() {
            if fd.is_none() {
                continue;
            }
            let is_paused = pause.get() >> i & 1 == 1;
            let n = hits.borrow()[i];
            if is_paused && n != 0 {
                return v(
                    "C20.inject",
                    format!(
                        "generic child {i} is paused (unregistered by its composite, it took no sub-token in the last pass) and its callback ran {n} time(s) when its siblings became ready: it still answers to a key that now is a sibling's (layout {layout:?}, paused mask {:#b}, events {:?})",
                        pause.get(),
                        events.borrow().iter().map(|k| cv::unpack(*k)).collect::<Vec<_>>()
                    ),
                );
            }
            if !is_paused && n != 1 {
                return v("C20.kernel", format!("generic child {i} is registered and became ready once, its callback ran {n} time(s) (layout {layout:?}, paused mask {:#b})", pause.get()));
            }
        }
    }
    if any_timer {
        // nothing but the timers can be ready (the eventfds were never written): every event of the next dispatches
        // must carry the key one of the Timer children holds now, and each of them fires exactly once
        let t0 = std::time::Instant::now();
        while fired.borrow().iter().zip(0..).any(|(n, i)| is_timer(i) && *n == 0) && t0.elapsed() < Duration::from_millis(300) {
            if let Err(e) = el.dispatch(Some(Duration::from_millis(20)), &mut ()) {
                return v("C20.kernel", format!("dispatch failed: {e}"));
            }
        }
        let want: Vec<usize> = timer_keys.iter().map(|(_, k)| *k).collect();
        for k in events.borrow().iter() {
            if !want.contains(k) && !gen_keys.contains(k) {
                return v(
                    "C20.kernel",
                    format!(
                        "a timer expiry came back under key {:?}; the Timer children hold {:?} after the last pass (layout {layout:?}, timers {timers:#b}, shape {shape:#x}): the timer wheel still holds the key of an earlier pass, which now is {}",
                        cv::unpack(*k),
                        want.iter().map(|k| cv::unpack(*k)).collect::<Vec<_>>(),
                        if keys_of_last_pass(&drawn, &table_keys(epfd)).contains(k) { "the key of a sibling" } else { "nobody's" }
                    ),
                );
            }
        }
        for (i, _) in &timer_keys {
            let n = fired.borrow()[*i];
            if n != 1 {
                return v("C20.kernel", format!("Timer child {i} fired {n} time(s) within 300 ms of a 1 ms deadline, expected once (events seen: {:?})", events.borrow().iter().map(|k| cv::unpack(*k)).collect::<Vec<_>>()));
            }
        }
    }
    h.remove(tok);
    None
}

fn table_keys(epfd: RawFd) -> Vec<usize> {
    kernel::epoll_table(epfd).iter().map(|e| e.data as usize).collect()
}

fn keys_of_last_pass(drawn: &Rc<RefCell<Vec<Option<usize>>>>, table: &[usize]) -> Vec<usize> {
    drawn.borrow().iter().flatten().copied().chain(table.iter().copied()).collect()
}

/// Composite whose children register in order without roll-back (book style): Generic children over the given fds.
struct RejProbe {
    gens: Vec<calloop::generic::Generic<kernel::OwnedRaw>>,
}

impl EventSource for RejProbe {
    type Event = ();
    type Metadata = ();
    type Ret = ();
    type Error = std::io::Error;
    fn process_events<F>(&mut self, _: Readiness, _: Token, _cb: F) -> Result<PostAction, Self::Error>
    where
        F: FnMut((), &mut ()),
    {
        Ok(PostAction::Continue)
    }
    fn register(&mut self, poll: &mut Poll, tf: &mut TokenFactory) -> calloop::Result<()> {
        for g in &mut self.gens {
            g.register(poll, tf)?;
        }
        Ok(())
    }
    fn reregister(&mut self, poll: &mut Poll, tf: &mut TokenFactory) -> calloop::Result<()> {
        for g in &mut self.gens {
            g.reregister(poll, tf)?;
        }
        Ok(())
    }
    fn unregister(&mut self, poll: &mut Poll) -> calloop::Result<()> {
        for g in &mut self.gens {
            g.unregister(poll)?;
        }
        Ok(())
    }
}

fn run_rejected(pre_slots: u8, reuses: u8, rejected: u8) -> Option<Violation> {
    use std::os::unix::io::IntoRawFd;
    let mut el: EventLoop<()> = EventLoop::try_new().expect("event loop");
    let epfd = el.as_raw_fd();
    let base: Vec<(RawFd, u64)> = kernel::epoll_table(epfd).iter().map(|e| (e.tfd, e.data)).collect();
    let h = el.handle();
    let mut keep = Vec::new();
    for _ in 0..pre_slots.min(3) {
        let (p, s) = calloop::ping::make_ping().unwrap();
        h.insert_source(s, |_, _, _| {}).unwrap();
        keep.push(p);
    }
    for _ in 0..reuses.min(3) {
        let (p, s) = calloop::ping::make_ping().unwrap();
        let t = h.insert_source(s, |_, _, _| {}).unwrap();
        h.remove(t);
        drop(p);
    }
    let mut handed_back = Vec::new();
    let mut rejected_fds = Vec::new();
    for k in 0..rejected.clamp(1, 3) {
        let good = kernel::eventfd_nonblock();
        let file = match std::fs::File::open("/proc/self/exe") {
            Ok(f) => f.into_raw_fd(),
            Err(_) => return None,
        };
        let src = RejProbe {
            gens: vec![
                calloop::generic::Generic::new(kernel::OwnedRaw(good), Interest::READ, Mode::Level),
                calloop::generic::Generic::new(kernel::OwnedRaw(file), Interest::READ, Mode::Level),
            ],
        };
        match h.insert_source(src, |_, _, _| {}) {
            Ok(_) => return v("C20.kernel", format!("insertion #{k} of a composite with a regular-file child succeeded (the poller is expected to refuse it)")),
            Err(e) => handed_back.push(e.inserted),
        }
        rejected_fds.push(good);
    }
    let keys = Rc::new(RefCell::new(Vec::new()));
    let seen = Rc::new(RefCell::new(Vec::new()));
    let fd = kernel::eventfd_nonblock();
    let succ = KeyProbe { fds: vec![kernel::OwnedRaw(fd)], keys: keys.clone(), seen: seen.clone() };
    let tok = h.insert_source(succ, |_, _, _| {}).expect("insert successor");
    let table: Vec<(RawFd, u64)> = kernel::epoll_table(epfd).iter().map(|e| (e.tfd, e.data)).filter(|e| !base.contains(e)).collect();
    for (i, a) in table.iter().enumerate() {
        for b in &table[i + 1..] {
            if a.1 == b.1 {
                return v(
                    "C20.inject",
                    format!(
                        "two registrations known to the poller carry the same key {:?}: fd {} and fd {} (slot used {reuses} time(s) before, {rejected} insertion(s) rejected half-way and handed back, then a successor inserted; successor token {:?})",
                        cv::unpack(a.1 as usize),
                        a.0,
                        b.0,
                        cv::unpack(tok.verif_key())
                    ),
                );
            }
        }
    }
    // an event of a rejected source's child that is still known to the poller is nobody's
    for r in &rejected_fds {
        kernel::eventfd_write(*r, 1);
    }
    el.dispatch(Some(Duration::ZERO), &mut ()).expect("dispatch");
    if !seen.borrow().is_empty() {
        return v("C20.inject", format!("the successor was handed events {:?} although only the rejected sources' descriptors are ready", seen.borrow().iter().map(|k| cv::unpack(*k)).collect::<Vec<_>>()));
    }
    drop(handed_back);
    h.remove(tok);
    drop(keep);
    None
}

fn run_loop(pre_slots: u8, reuses: u32, subs: u8) -> Option<Violation> {
    let mut el: EventLoop<()> = EventLoop::try_new().expect("event loop");
    let epfd = el.as_raw_fd();
    let base: Vec<RawFd> = kernel::epoll_table(epfd).iter().map(|e| e.tfd).collect();
    let h = el.handle();
    // occupy pre_slots slots so the probed slot index is > 0
    let mut keep = Vec::new();
    for _ in 0..pre_slots {
        let (p, s) = calloop::ping::make_ping().unwrap();
        h.insert_source(s, |_, _, _| {}).unwrap();
        keep.push(p);
    }
    let slot = pre_slots as u32;
    let mut result = None;
    for g in 0..=reuses {
        let keys = Rc::new(RefCell::new(Vec::new()));
        let seen = Rc::new(RefCell::new(Vec::new()));
        let fds: Vec<kernel::OwnedRaw> = (0..subs).map(|_| kernel::OwnedRaw(kernel::eventfd_nonblock())).collect();
        let raw: Vec<RawFd> = fds.iter().map(|f| f.0).collect();
        let src = KeyProbe { fds, keys: keys.clone(), seen: seen.clone() };
        let tok = h.insert_source(src, |_, _, _| {}).expect("insert KeyProbe");
        // only inspect the first, the last and a few boundary generations (cheap ones in between just reuse)
        let inspect = g == 0 || g == reuses || g == 1 || (g & 0xFF) == 0 || (g & 0xFF) == 0xFF;
        if inspect {
            let want_ver = (g % 65_536) as u16;
            let rk = tok.verif_key();
            if cv::unpack(rk) != (slot, want_ver, 0) {
                result = v(
                    "C20.kernel",
                    format!("registration token after {g} reuses of slot {slot} decodes to {:?}", cv::unpack(rk)),
                );
                break;
            }
            let table = kernel::epoll_table(epfd);
            for (i, fd) in raw.iter().enumerate() {
                let k = keys.borrow()[i];
                if cv::unpack(k) != (slot, want_ver, i as u16) {
                    result = v("C20.kernel", format!("sub-source {i} got token {:?}, want ({slot},{want_ver},{i})", cv::unpack(k)));
                    break;
                }
                match table.iter().find(|e| e.tfd == *fd) {
                    Some(e) if e.data as usize == k => {}
                    other => {
                        result = v(
                            "C20.kernel",
                            format!("kernel epoll data for fd {fd} is {:?}, calloop token key is {k:#x}", other.map(|e| e.data)),
                        );
                        break;
                    }
                }
            }
            if result.is_some() {
                break;
            }
            // make the last sub-source ready and check the token that comes back
            let last = raw.len() - 1;
            kernel::eventfd_write(raw[last], 1);
            el.dispatch(Some(Duration::ZERO), &mut ()).expect("dispatch");
            let want = keys.borrow()[last];
            if !seen.borrow().contains(&want) {
                result = v(
                    "C20.kernel",
                    format!("event for sub-source {last} arrived with keys {:?}, registered key {want:#x}", seen.borrow()),
                );
                break;
            }
        }
        h.remove(tok);
        let _ = base.len();
    }
    drop(keep);
    result
}

pub fn run_case(case: &Case) -> CaseOutcome {
    let mut info = CaseInfo::default();
    info.fingerprint = fingerprint(case);
    let viol = match case {
        Case::Triple { a, b, raw } => {
            info.classes.push("triple");
            info.nontrivial = a.1 >= 256 || a.2 >= 256 || a.0 >= 0x1_0000;
            if a.0 == b.0 && a.1 == b.1 && a.2 != b.2 {
                info.classes.push("pair_differs_in_sub_only");
            }
            if a.0 == b.0 && a.1 != b.1 && a.2 == b.2 {
                info.classes.push("pair_differs_in_generation_only");
            }
            if a.0 != b.0 && a.1 == b.1 && a.2 == b.2 {
                info.classes.push("pair_differs_in_id_only");
            }
            check_triple(*a)
                .or_else(|| check_triple(*b))
                .or_else(|| check_pair(*a, *b))
                .or_else(|| check_laws(*a))
                .or_else(|| check_raw(*raw))
        }
        Case::Factory { id, ver, start_sub, n } => {
            info.classes.push("factory");
            info.nontrivial = *n >= 255;
            run_factory(*id, *ver, *start_sub, *n)
        }
        Case::Rejected { pre_slots, reuses, rejected } => {
            info.classes.push("rejected_insertions_then_successor");
            info.nontrivial = *reuses >= 1;
            run_rejected(*pre_slots, *reuses, *rejected)
        }
        Case::Loop { pre_slots, reuses, subs } => {
            info.classes.push("loop");
            info.nontrivial = *reuses >= 2 || *subs >= 2;
            run_loop(*pre_slots, *reuses, *subs)
        }
        Case::Mixed { layout, updates, shape, timers, paused } => {
            info.classes.push("mixed_composite");
            if *paused != 0 && *updates > 0 {
                info.classes.push("mixed_composite_pausing_children");
            }
            if layout.iter().enumerate().any(|(i, g)| !*g && *timers >> i & 1 == 1) {
                info.classes.push("mixed_composite_with_timer_children");
            }
            if *shape != 0 {
                info.classes.push("mixed_composite_with_shifting_sub_ids");
            }
            info.nontrivial = layout.len() >= 2 && *updates >= 1 && layout.iter().any(|g| *g) && layout.iter().any(|g| !*g);
            run_mixed(layout, *updates, *shape, *timers, *paused)
        }
    };
    (info, viol)
}

/// Enumerate the (generation, sub) plane of one id with the given sub-id stride on worker threads.
fn plane(ctx: &CheckCtx, id: u32, stride: usize, workers: usize) -> Option<Found> {
    let bad: Mutex<Option<((u32, u16, u16), Violation)>> = Mutex::new(None);
    let stop = AtomicBool::new(false);
    let evals = AtomicU64::new(0);
    let nontrivial = AtomicU64::new(0);
    std::thread::scope(|sc| {
        for w in 0..workers {
            let bad = &bad;
            let stop = &stop;
            let evals = &evals;
            let nontrivial = &nontrivial;
            sc.spawn(move || {
                let mut n = 0u64;
                let mut nt = 0u64;
                let mut ver = w;
                while ver < 65_536 {
                    if stop.load(Ordering::Relaxed) {
                        break;
                    }
                    let mut sub = (ver * 7) % stride; // rotate the phase so that all sub-ids are hit across generations
                    while sub < 65_536 {
                        let t = (id, ver as u16, sub as u16);
                        n += 1;
                        if ver >= 256 || sub >= 256 || id >= 0x1_0000 {
                            nt += 1;
                        }
                        if let Some(vv) = check_triple(t) {
                            stop.store(true, Ordering::Relaxed);
                            let mut g = bad.lock().unwrap();
                            if g.is_none() {
                                *g = Some((t, vv));
                            }
                            break;
                        }
                        // key -> fields -> key on the same point (covers every key of the plane)
                        let k = cv::pack(t.0, t.1, t.2);
                        if { let (i, ve, su) = cv::unpack(k); cv::pack(i, ve, su) == k } {
                        } else {
                            stop.store(true, Ordering::Relaxed);
                            let mut g = bad.lock().unwrap();
                            if g.is_none() {
                                *g = Some((t, Violation::new("C20.roundtrip", format!("pack(unpack({k:#x})) differs"))));
                            }
                            break;
                        }
                        sub += stride;
                    }
                    ver += workers;
                }
                evals.fetch_add(n, Ordering::Relaxed);
                nontrivial.fetch_add(nt, Ordering::Relaxed);
            });
        }
    });
    ctx.col
        .record_enumerated(&format!("plane_id_{id:#x}_stride_{stride}"), evals.load(Ordering::Relaxed), nontrivial.load(Ordering::Relaxed));
    let g = bad.into_inner().unwrap();
    g.map(|(t, vv)| Found {
        sub: "triple".into(),
        violation: vv,
        case: serde_json::to_value(Case::Triple { a: t, b: t, raw: 0 }).unwrap(),
        replay_path: None,
    })
}

pub fn check(ctx: &CheckCtx) -> Option<Found> {
    for sub in ["triple", "factory", "loop", "mixed"] {
        if let Some(f) = ctx.run_replays::<Case, _>(sub, run_case) {
            return Some(f);
        }
    }
    let t = ctx.tier;
    if let Some(f) = ctx.search("triple", triple_case(), t.pick(400_000, 6_000_000), 8, None, run_case) {
        return Some(f);
    }
    // planes
    let stride = t.pick(61, 1);
    for id in BOUNDARY_IDS {
        if let Some(f) = plane(ctx, id, stride, 16) {
            return Some(f);
        }
    }
    if stride == 1 {
        ctx.col.exhaustive("boundary-id planes: all 2^16 generations x 2^16 sub-ids for 7 slot indices");
    } else {
        ctx.col.note("boundary-id planes sampled: every generation, sub-ids at stride 61 with rotating phase");
    }
    if let Some(f) = ctx.search("factory", factory_case(), t.pick(3_000, 40_000), 8, None, run_case) {
        return Some(f);
    }
    // fixed large factory runs around the representable limit
    for n in [65_534u32, 65_535, 65_536, 65_537, 70_000] {
        for (id, ver) in [(0u32, 0u16), (3, 0xFFFF), (0xFFFF_FFFE, 0x100)] {
            let c = Case::Factory { id, ver, start_sub: 7, n };
            let (info, viol) = run_case(&c);
            ctx.col.record(&info, || serde_json::to_value(&c).unwrap());
            if let Some(vv) = viol {
                return Some(Found { sub: "factory".into(), violation: vv, case: serde_json::to_value(&c).unwrap(), replay_path: None });
            }
        }
    }
    if let Some(f) = ctx.search("loop", loop_case(), t.pick(600, 8_000), 8, None, run_case) {
        return Some(f);
    }
    if let Some(f) = ctx.search("mixed", mixed_case(), t.pick(2_000, 40_000), 8, None, run_case) {
        return Some(f);
    }
    let big: &[u32] = match t {
        Tier::Quick => &[65_535, 65_537],
        Tier::Thorough => &[65_535, 65_536, 65_537, 131_073],
    };
    for &reuses in big {
        let c = Case::Loop { pre_slots: 1, reuses, subs: 2 };
        let (info, viol) = run_case(&c);
        ctx.col.record(&info, || serde_json::to_value(&c).unwrap());
        if let Some(vv) = viol {
            return Some(Found { sub: "loop".into(), violation: vv, case: serde_json::to_value(&c).unwrap(), replay_path: None });
        }
    }
    for (pre_slots, reuses, rejected) in [(0u8, 0u8, 1u8), (1, 1, 1), (0, 2, 2), (2, 1, 3)] {
        let c = Case::Rejected { pre_slots, reuses, rejected };
        let (info, viol) = run_case(&c);
        ctx.col.record(&info, || serde_json::to_value(&c).unwrap());
        if let Some(vv) = viol {
            return Some(Found { sub: "loop".into(), violation: vv, case: serde_json::to_value(&c).unwrap(), replay_path: None });
        }
    }
    ctx.col.set_sub("boundary_ids", json!(BOUNDARY_IDS));
    if let Some(f) = ship_check(ctx) {
        return Some(f);
    }
    if t == Tier::Thorough {
        if let Some(f) = crate::fuzz::campaign(ctx, &fuzz_subs(ctx), 100_000, 16) {
            return Some(f);
        }
    }
    None
}

// byte decoders for the libFuzzer target (same domains as the strategies above)
fn id_from(d: &mut crate::hist::fuzzgen::Dec) -> u32 {
    match d.pickw(&[3, 2, 2, 1, 1]) {
        0 => d.u32r(0, u32::MAX),
        1 => d.u32r(0, 7),
        2 => BOUNDARY_IDS[d.len(0, BOUNDARY_IDS.len() - 1)],
        3 => 1u32 << d.u32r(0, 31),
        _ => (1u32 << d.u32r(0, 31)).wrapping_sub(1),
    }
}

fn u16_from(d: &mut crate::hist::fuzzgen::Dec) -> u16 {
    match d.pickw(&[3, 1, 1]) {
        0 => d.u16(),
        1 => d.u32r(0, 3) as u16,
        _ => [0u16, 1, 254, 255, 256, 257, 0x7FFF, 0x8000, 0xFFFE, 0xFFFF][d.len(0, 9)],
    }
}

fn triple_from_bytes(data: &[u8]) -> Case {
    let mut d = crate::hist::fuzzgen::Dec::new(data);
    let a = (id_from(&mut d), u16_from(&mut d), u16_from(&mut d));
    let b = (id_from(&mut d), u16_from(&mut d), u16_from(&mut d));
    let raw = ((d.u32r(0, u32::MAX) as u64) << 32) | d.u32r(0, u32::MAX) as u64;
    let b = match d.u8r(0, 7) {
        0 => (a.0, a.1, b.2),
        1 => (a.0, b.1, a.2),
        2 => (b.0, a.1, a.2),
        3 => (a.0, a.1, a.2.wrapping_add(1)),
        4 => (a.0, a.1.wrapping_add(1), a.2),
        5 => (a.0.wrapping_add(1), a.1, a.2),
        _ => b,
    };
    Case::Triple { a, b, raw }
}

fn factory_from_bytes(data: &[u8]) -> Case {
    let mut d = crate::hist::fuzzgen::Dec::new(data);
    let id = id_from(&mut d);
    let ver = u16_from(&mut d);
    let start_sub = u16_from(&mut d);
    let n = if d.pickw(&[4, 1]) == 0 { d.u32r(1, 39) } else { [255u32, 256, 257, 1000][d.len(0, 3)] };
    Case::Factory { id, ver, start_sub, n }
}

fn loop_from_bytes(data: &[u8]) -> Case {
    let mut d = crate::hist::fuzzgen::Dec::new(data);
    let pre_slots = d.u8r(0, 3);
    let reuses = if d.pickw(&[4, 1]) == 0 { d.u32r(0, 5) } else { [255u32, 256, 257][d.len(0, 2)] };
    let subs = d.u8r(1, 4);
    Case::Loop { pre_slots, reuses, subs }
}

fn mixed_from_bytes(data: &[u8]) -> Case {
    let mut d = crate::hist::fuzzgen::Dec::new(data);
    let n = d.len(1, 6);
    let layout = (0..n).map(|_| d.bool()).collect();
    let updates = d.u8r(0, 3);
    let shape = if d.pct(33) { 0 } else { d.u32r(0, u32::MAX) };
    let timers = if d.pct(60) { 0 } else { d.u8r(0, 255) };
    let paused = if d.pct(60) { 0 } else { d.u32r(0, u32::MAX) };
    Case::Mixed { layout, updates, shape, timers, paused }
}

pub fn fuzz_subs(_ctx: &CheckCtx) -> Vec<crate::fuzz::FuzzSub> {
    vec![
        crate::fuzz::sub("triple", triple_from_bytes, run_case),
        crate::fuzz::sub("factory", factory_from_bytes, run_case),
        crate::fuzz::sub("loop", loop_from_bytes, run_case),
        crate::fuzz::sub("mixed", mixed_from_bytes, run_case),
    ]
}

pub fn replay(ctx: &CheckCtx, sub: &str, case: serde_json::Value) -> Result<Option<Violation>, String> {
    if sub.starts_with("ship.") {
        return crate::ship::replay(ctx, sub, &case);
    }
    let c: Case = serde_json::from_value(case).map_err(|e| e.to_string())?;
    Ok(run_case(&c).1)
}

// ------------------------------------------------------------------------------------------
// "ship" sub-check: the arithmetic-sensitive part of the property (packing, sub-token exhaustion, factory runs) once
// more in a second build of harness + calloop WITHOUT overflow checks and debug assertions - the profile calloop's
// users ship - where "fails loudly instead of wrapping around" cannot lean on rustc's own overflow panics.
// bin/check builds that binary (cargo profile `ship`) next to the normal one for C20; this process spawns it.
// ------------------------------------------------------------------------------------------

/// Body of the child process (`check C20 <tier> --seed N --ship-child`).
pub fn ship_child(ctx: &CheckCtx) -> i32 {
    if let Err(e) = crate::ship::child_profile_ok() {
        crate::ship::child_error(&e);
        return 2;
    }
    let t = ctx.tier;
    let mut found: Option<Found> = None;
    if let Some((_sub, case)) = crate::ship::child_replay_request() {
        match serde_json::from_value::<Case>(case) {
            Ok(c) => {
                if let Some(v) = run_case(&c).1 {
                    found = Some(Found { sub: "replay".into(), violation: v, case: serde_json::to_value(&c).unwrap(), replay_path: None });
                }
            }
            Err(e) => {
                crate::ship::child_error(&format!("bad replay case: {e}"));
                return 2;
            }
        }
    } else {
        found = ctx
            .search("triple", triple_case(), t.pick(100_000, 1_500_000), 8, None, run_case)
            .or_else(|| ctx.search("factory", factory_case(), t.pick(2_000, 20_000), 8, None, run_case));
        if found.is_none() {
            'outer: for n in [65_535u32, 65_536, 65_537, 70_000] {
                for (id, ver) in [(0u32, 0u16), (3, 0xFFFF), (0xFFFF_FFFE, 0x100)] {
                    let c = Case::Factory { id, ver, start_sub: 7, n };
                    let (info, viol) = run_case(&c);
                    ctx.col.record(&info, || serde_json::to_value(&c).unwrap());
                    if let Some(vv) = viol {
                        found = Some(Found { sub: "factory".into(), violation: vv, case: serde_json::to_value(&c).unwrap(), replay_path: None });
                        break 'outer;
                    }
                }
            }
        }
        if found.is_none() {
            found = ctx.search("loop", loop_case(), t.pick(200, 2_000), 8, None, run_case);
        }
    }
    crate::ship::child_report(ctx, found);
    0
}

fn ship_check(ctx: &CheckCtx) -> Option<Found> {
    crate::ship::check(ctx, "triple / factory / loop cases re-run in a build of harness + calloop with overflow-checks = false, debug-assertions = false")
}
