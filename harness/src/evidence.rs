//! Evidence collection and the EVIDENCE.schema writer.

use serde_json::{json, Value};
use std::collections::{BTreeMap, HashSet};
use std::hash::{Hash, Hasher};
use std::path::Path;
use std::sync::Mutex;

/// What one executed case tells the collector.
#[derive(Default, Debug, Clone)]
pub struct CaseInfo {
    /// Non-trivial by the property's stated rule.
    pub nontrivial: bool,
    /// Fingerprint of the normalised case (distinctness).
    pub fingerprint: u64,
    /// Class labels (histogram).
    pub classes: Vec<&'static str>,
    /// Number of generated shapes the interpreter steered away from because of an open known finding.
    pub excluded_known: u64,
    /// Additional numeric counters summed over the run.
    pub counters: Vec<(&'static str, u64)>,
}

pub fn fingerprint<T: Hash>(t: &T) -> u64 {
    let mut h = std::collections::hash_map::DefaultHasher::new();
    t.hash(&mut h);
    h.finish()
}

pub fn fingerprint_str(s: &str) -> u64 {
    fingerprint(&s)
}

#[derive(Default)]
struct Inner {
    evaluations: u64,
    nontrivial_cases: u64,
    distinct: HashSet<u64>,
    classes: BTreeMap<String, u64>,
    counters: BTreeMap<String, u64>,
    first_samples: Vec<Value>,
    last_samples: Vec<Value>,
    excluded_known: u64,
    sub: BTreeMap<String, Value>,
    exhaustive_parts: Vec<String>,
    notes: Vec<String>,
}

/// Thread-safe collector, one per check run.
#[derive(Default)]
pub struct Collector {
    inner: Mutex<Inner>,
}

impl Collector {
    pub fn new() -> Self {
        Self::default()
    }

    /// Record one executed case. `sample` is only evaluated when a sample slot is free.
    pub fn record(&self, info: &CaseInfo, sample: impl FnOnce() -> Value) {
        crate::driver::HEARTBEAT.fetch_add(1, std::sync::atomic::Ordering::Relaxed);
        let mut g = self.inner.lock().unwrap();
        g.evaluations += 1;
        g.excluded_known += info.excluded_known;
        for c in &info.classes {
            *g.classes.entry((*c).to_string()).or_insert(0) += 1;
        }
        for (k, v) in &info.counters {
            *g.counters.entry((*k).to_string()).or_insert(0) += *v;
        }
        if info.nontrivial {
            g.nontrivial_cases += 1;
            let new = g.distinct.insert(info.fingerprint);
            if new {
                if g.first_samples.len() < 3 {
                    let s = sample();
                    g.first_samples.push(s);
                } else if g.distinct.len() % 64 == 0 || g.last_samples.is_empty() {
                    // keep a rolling pair of late samples, cheaply
                    let s = sample();
                    if g.last_samples.len() >= 2 {
                        g.last_samples.remove(0);
                    }
                    g.last_samples.push(s);
                }
            }
        }
    }

    /// Record many evaluations of an enumerated (cheap) space at once.
    pub fn record_bulk(&self, evaluations: u64, distinct_nontrivial: &[u64], class: &'static str) {
        let mut g = self.inner.lock().unwrap();
        g.evaluations += evaluations;
        *g.classes.entry(class.to_string()).or_insert(0) += evaluations;
        for f in distinct_nontrivial {
            g.distinct.insert(*f);
        }
        g.nontrivial_cases += distinct_nontrivial.len() as u64;
    }

    /// Add `n` to the distinct-nontrivial count for cases that are distinct by construction
    /// (enumerations too large to keep in a hash set); they are folded in as synthetic
    /// fingerprints derived from (tag, index).
    pub fn record_enumerated(&self, tag: &str, evaluations: u64, nontrivial: u64) {
        let mut g = self.inner.lock().unwrap();
        g.evaluations += evaluations;
        g.nontrivial_cases += nontrivial;
        *g.classes.entry(format!("enumerated:{tag}")).or_insert(0) += evaluations;
        let e = g.counters.entry("enumerated_distinct_nontrivial".into()).or_insert(0);
        *e += nontrivial;
    }

    pub fn add_excluded(&self, n: u64) {
        self.inner.lock().unwrap().excluded_known += n;
    }

    pub fn add_sample(&self, v: Value) {
        let mut g = self.inner.lock().unwrap();
        if g.first_samples.len() < 6 {
            g.first_samples.push(v);
        }
    }

    pub fn set_sub(&self, name: &str, v: Value) {
        self.inner.lock().unwrap().sub.insert(name.to_string(), v);
    }

    pub fn sub_json(&self, name: &str) -> String {
        self.inner.lock().unwrap().sub.get(name).map(|v| v.to_string()).unwrap_or_default()
    }

    pub fn exhaustive(&self, part: &str) {
        self.inner.lock().unwrap().exhaustive_parts.push(part.to_string());
    }

    pub fn note(&self, s: impl Into<String>) {
        self.inner.lock().unwrap().notes.push(s.into());
    }

    pub fn evaluations(&self) -> u64 {
        self.inner.lock().unwrap().evaluations
    }

    pub fn distinct_nontrivial(&self) -> u64 {
        let g = self.inner.lock().unwrap();
        g.distinct.len() as u64
            + g.counters
                .get("enumerated_distinct_nontrivial")
                .copied()
                .unwrap_or(0)
    }

    #[allow(clippy::too_many_arguments)]
    pub fn write(
        &self,
        path: &Path,
        property_id: &str,
        tier: &str,
        seed: u64,
        level: &str,
        rule: &str,
        assumptions: &[&str],
        wall_s: f64,
        violations: u64,
        known_findings: &[String],
    ) -> std::io::Result<()> {
        let g = self.inner.lock().unwrap();
        let mut samples = g.first_samples.clone();
        samples.extend(g.last_samples.iter().cloned());
        if samples.is_empty() {
            samples.push(json!({"note": "no non-trivial case sampled in this run"}));
        }
        let distinct = g.distinct.len() as u64
            + g.counters
                .get("enumerated_distinct_nontrivial")
                .copied()
                .unwrap_or(0);
        let mut coverage = json!({
            "evaluations": g.evaluations,
            "distinct_nontrivial": distinct,
            "nontrivial_cases": g.nontrivial_cases,
            "rule": rule,
            "samples": samples,
            "classes": g.classes,
            "counters": g.counters,
            "excluded_known": g.excluded_known,
            "sub_checks": g.sub,
            "exhaustive_parts": g.exhaustive_parts,
            "notes": g.notes,
            "known_findings_reported": known_findings,
        });
        // `exhaustive: true` only describes the enumerated sub-checks named in exhaustive_parts;
        // the run as a whole is a search, so the top-level flag stays false unless every part was enumerated.
        coverage["exhaustive"] = json!(false);
        let doc = json!({
            "property_id": property_id,
            "tier": tier,
            "seed": seed,
            "level": level,
            "coverage": coverage,
            "assumptions": assumptions,
            "wall_s": wall_s,
            "violations": violations,
        });
        if let Some(dir) = path.parent() {
            std::fs::create_dir_all(dir)?;
        }
        let tmp = path.with_extension("json.tmp");
        std::fs::write(&tmp, serde_json::to_string_pretty(&doc).unwrap())?;
        std::fs::rename(tmp, path)
    }
}
