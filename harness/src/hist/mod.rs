//! Single-thread history machine: real world + trace-checking monitor.
pub mod monitor;
pub mod ops;
pub mod trace;
pub mod world;

use crate::driver::{CaseOutcome, Violation};
use crate::evidence::{fingerprint, CaseInfo};
use monitor::{Facts, Monitor};
use ops::HistCase;

/// Run one history and judge it for property `prop`. Violations of rules that do not speak for
/// `prop` end the judgement of the case (the model may be out of step afterwards) and are only counted.
pub fn run_for(prop: &'static str, case: &HistCase, epoll_each_step: bool) -> (Facts, Option<Violation>, Option<Violation>) {
    let trace = world::run_history(case, world::Opts { epoll_each_step });
    let judged = Monitor::judge_for(&trace, prop);
    if std::env::var("VERIF_TRACE").is_ok() && (judged.violation.is_some() || std::env::var("VERIF_TRACE").as_deref() == Ok("all")) {
        for (i, e) in trace.iter().enumerate() {
            eprintln!("{i:4} {e:?}");
        }
    }
    match judged.violation {
        Some((v, props)) if props.contains(&prop) || v.rule.starts_with(prop) => (judged.facts, Some(v), None),
        Some((v, _)) => (judged.facts, None, Some(v)),
        None => (judged.facts, None, None),
    }
}

pub fn base_info(case: &HistCase, facts: &Facts, foreign: &Option<Violation>) -> CaseInfo {
    let mut info = CaseInfo::default();
    info.fingerprint = fingerprint(case);
    if let Some(f) = foreign {
        info.classes.push("foreign_violation_not_judged");
        let _ = f;
    }
    if facts.in_cb_ops > 0 {
        info.classes.push("in_callback_ops");
    }
    if facts.in_batch_mutation > 0 {
        info.classes.push("in_batch_mutation");
    }
    if facts.slot_reuse > 0 {
        info.classes.push("slot_reuse");
    }
    if facts.stale_token_ops > 0 {
        info.classes.push("stale_token_op");
    }
    if facts.failed_dispatches > 0 {
        info.classes.push("failed_dispatch");
    }
    if !facts.taints.is_empty() {
        info.classes.push("tainted_source");
    }
    if facts.foreign.is_some() {
        info.classes.push("unmodelled_dispatch_error");
    }
    for k in &facts.kinds_seen {
        info.classes.push(match *k {
            "ping" => "kind_ping",
            "chan" => "kind_chan",
            "timer" => "kind_timer",
            "gen" => "kind_gen",
            "probe" => "kind_probe",
            _ => "kind_other",
        });
    }
    info.counters.push(("callbacks", facts.callbacks as u64));
    info.counters.push(("dispatches", facts.dispatches as u64));
    info.counters.push(("in_callback_ops", facts.in_cb_ops as u64));
    info
}

pub type Outcome = CaseOutcome;
