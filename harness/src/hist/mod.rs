//! Single-thread history machine: real world + trace-checking monitor.
pub mod fuzzgen;
pub mod monitor;
pub mod ops;
pub mod trace;
pub mod world;

use crate::driver::{CaseOutcome, Violation};
use crate::evidence::{fingerprint, CaseInfo};
use monitor::{Facts, Monitor};
use ops::HistCase;

/// Run one history and judge it for property `prop`. Violations of rules that do not speak for
/// `prop` end the judgement of the case (the model may be out of step afterwards) and are only counted.
pub fn run_for(prop: &'static str, case: &HistCase, epoll_each_step: bool) -> (Facts, Option<Violation>, Option<Violation>) {
    run_for_fault(prop, case, epoll_each_step, None).0
}

/// Like `run_for`, with the fault site number `fault_at` failing; also returns the number of fault sites passed.
pub fn run_for_fault(prop: &'static str, case: &HistCase, epoll_each_step: bool, fault_at: Option<u32>) -> ((Facts, Option<Violation>, Option<Violation>), u32) {
    let trace = world::run_history(case, world::Opts { epoll_each_step, fault_at });
    let sites = trace.iter().rev().find_map(|e| if let trace::Ev::FaultSites { n } = e { Some(*n) } else { None }).unwrap_or(0);
    (judge_trace(prop, &trace), sites)
}

fn judge_trace(prop: &'static str, trace: &[trace::Ev]) -> (Facts, Option<Violation>, Option<Violation>) {
    let judged = Monitor::judge_for(trace, prop);
    if std::env::var("VERIF_TRACE").is_ok() && (judged.violation.is_some() || std::env::var("VERIF_TRACE").as_deref() == Ok("all")) {
        for (i, e) in trace.iter().enumerate() {
            eprintln!("{i:4} {e:?}");
        }
    }
    match judged.violation {
        Some((v, props)) if props.contains(&prop) || v.rule.starts_with(prop) => (judged.facts, Some(v), None),
        // C15: after a failed registration or a failing source "the loop behaves as if the call had not been made",
        // "every other source keeps working and loses none of its events or armed timers": a violation of the
        // callback-legality / obligation / timer / removal rules that shows up behind such a fault is a C15 violation
        Some((v, props))
            if prop == "C15"
                && (judged.facts.failed_registrations > 0 || judged.facts.failed_dispatches > 0 || judged.facts.failed_adapts > 0)
                // (not the table/bookkeeping rules: what a failed unregistration leaves behind for the failing source
                // itself is unspecified, and those rules are C15's own where they apply)
                && (v.rule.starts_with("C01.") || v.rule.starts_with("C02.") || v.rule.starts_with("C05.") || v.rule == "C06.after_remove")
                && props.iter().any(|p| matches!(*p, "C01" | "C02" | "C05" | "C06")) =>
        {
            let v2 = Violation::new("C15.intact", format!("behind a failed registration / failing source: {} ({})", v.detail, v.rule)).with_sig(v.sig.clone());
            (judged.facts, Some(v2), None)
        }
        // C08: an operation issued from inside a callback "has the effect it would have outside a dispatch": a timer that
        // a callback of the same dispatch re-armed, postponed, disabled or removed and that then fires early, for the
        // wrong arming or although cancelled shows that the in-callback operation did not have that effect
        Some((v, _)) if prop == "C08" && judged.facts.in_batch_mutation > 0 && matches!(v.rule.as_str(), "C05.early" | "C05.deadline" | "C05.cancelled") => {
            let v2 = Violation::new("C08.effect", format!("in a history whose callbacks act on sources with an event in the same batch: {} ({})", v.detail, v.rule)).with_sig(v.sig.clone());
            (judged.facts, Some(v2), None)
        }
        Some((v, _)) => (judged.facts, None, Some(v)),
        None => (judged.facts, None, None),
    }
}

pub fn base_info(case: &HistCase, facts: &Facts, foreign: &Option<Violation>) -> CaseInfo {
    let mut info = CaseInfo::default();
    info.fingerprint = fingerprint(case);
    if let Some(f) = foreign {
        info.classes.push("foreign_violation_not_judged");
        let _ = f;
    }
    if facts.in_cb_ops > 0 {
        info.classes.push("in_callback_ops");
    }
    if facts.in_batch_mutation > 0 {
        info.classes.push("in_batch_mutation");
    }
    if facts.slot_reuse > 0 {
        info.classes.push("slot_reuse");
    }
    if facts.stale_token_ops > 0 {
        info.classes.push("stale_token_op");
    }
    if facts.failed_dispatches > 0 {
        info.classes.push("failed_dispatch");
    }
    if !facts.taints.is_empty() {
        info.classes.push("tainted_source");
    }
    if facts.foreign.is_some() {
        info.classes.push("unmodelled_dispatch_error");
    }
    for k in &facts.kinds_seen {
        info.classes.push(match *k {
            "ping" => "kind_ping",
            "chan" => "kind_chan",
            "timer" => "kind_timer",
            "gen" => "kind_gen",
            "probe" => "kind_probe",
            "exec" => "kind_exec",
            "stream" => "kind_stream",
            "comp" => "kind_comp",
            _ => "kind_other",
        });
    }
    if facts.tasks_scheduled > 0 {
        info.classes.push("executor_task_scheduled");
    }
    if facts.tasks_scheduled_in_cb > 0 {
        info.classes.push("executor_task_scheduled_from_callback");
    }
    if facts.task_wakes > 0 {
        info.classes.push("executor_task_woken");
    }
    if facts.stream_items > 0 {
        info.classes.push("stream_item_delivered");
    }
    if facts.stream_ends > 0 {
        info.classes.push("stream_ended_and_removed");
    }
    info.counters.push(("stream_items", facts.stream_items as u64));
    info.counters.push(("task_polls", facts.task_polls as u64));
    info.counters.push(("callbacks", facts.callbacks as u64));
    info.counters.push(("dispatches", facts.dispatches as u64));
    info.counters.push(("in_callback_ops", facts.in_cb_ops as u64));
    info
}

pub type Outcome = CaseOutcome;
