//! Operation grammar of the single-thread history machine, with proptest strategies.
//!
//! Every index is a u16 that the interpreter reduces monotonically (`i * len >> 16`) onto the
//! table it refers to (all tokens ever issued, all sources of one kind ever created, all idles),
//! so any subsequence of a history is still a valid history and shrinking works.

use proptest::prelude::*;
use serde::{Deserialize, Serialize};

#[derive(Serialize, Deserialize, Debug, Clone, Copy, Hash, PartialEq, Eq)]
pub enum FdKind {
    EventFd,
    Sock,
    PipeR,
    PipeW,
}

#[derive(Serialize, Deserialize, Debug, Clone, Hash, PartialEq, Eq)]
pub enum Kind {
    Ping,
    /// bound None = channel(), Some(n) = sync_channel(n)
    Chan { bound: Option<u8> },
    /// deadline = creation time + delta (negative = already past); None = no deadline (Duration::MAX)
    Timer { delta_us: Option<i32> },
    /// interest: 0 EMPTY 1 READ 2 WRITE 3 BOTH; mode: 0 Level 1 Edge 2 OneShot
    Gen { fd: FdKind, interest: u8, mode: u8 },
    Exec,
    /// scripted source over `subs` real ping sub-sources
    /// fail_reg = Some(k): the very first register() fails at sub-source step k (failing insertion)
    Probe { subs: u8, lifecycle: bool, synthetic: Option<u8>, fail_reg: Option<u8> },
}

#[derive(Serialize, Deserialize, Debug, Clone, Copy, Hash, PartialEq, Eq)]
pub enum PostRet {
    Continue,
    Reregister,
    Disable,
    Remove,
    Err,
}

#[derive(Serialize, Deserialize, Debug, Clone, Copy, Hash, PartialEq, Eq)]
pub enum TRet {
    Drop,
    /// absolute: callback time + delta_us (may be negative = already past)
    ToInstant(i32),
    ToDuration(u32),
    /// Duration::MAX: unrepresentable, the timer must drop itself
    ToDurationMax,
}

/// One in-callback program: consumed per callback invocation, the last one repeats.
#[derive(Serialize, Deserialize, Debug, Clone, Hash, PartialEq, Eq)]
pub struct Prog {
    pub ops: Vec<Op>,
    pub post: PostRet,
    pub timer: TRet,
}

impl Prog {
    pub fn plain() -> Prog {
        Prog { ops: vec![], post: PostRet::Continue, timer: TRet::Drop }
    }
}

#[derive(Serialize, Deserialize, Debug, Clone, Copy, Hash, PartialEq, Eq)]
pub enum FailStep {
    /// the k-th sub-source registration of the next register() fails
    Register(u8),
    Reregister(u8),
    Unregister(u8),
    Process,
    BeforeSleep,
}

/// Plan of a scripted future: stay Pending `pendings` times (waking itself if `self_wake`),
/// run `ops` on its first poll, then complete with `val`.
#[derive(Serialize, Deserialize, Debug, Clone, Hash, PartialEq, Eq)]
pub struct FutPlan {
    pub pendings: u8,
    pub self_wake: bool,
    pub val: u8,
    pub ops: Vec<Op>,
}

#[derive(Serialize, Deserialize, Debug, Clone, Hash, PartialEq, Eq)]
pub enum Op {
    Insert { kind: Kind, script: Vec<Prog>, via_disp: bool },
    Remove { tok: u16 },
    Disable { tok: u16 },
    Enable { tok: u16 },
    Update { tok: u16 },
    /// ping a Ping source (first live handle)
    Ping { src: u16 },
    CloneHandle { src: u16 },
    DropHandle { src: u16 },
    /// ping sub-source `sub` of a Probe
    ProbePing { src: u16, sub: u8 },
    Send { src: u16, val: u8 },
    CloneSender { src: u16 },
    DropSender { src: u16 },
    /// make a Generic's fd readable: write n+1 bytes to its peer / add to its eventfd counter
    PeerWrite { src: u16, n: u8 },
    /// consume from the Generic's own fd (n+1 bytes / whole eventfd counter)
    OwnRead { src: u16, n: u8 },
    PeerClose { src: u16 },
    /// set_deadline(now + delta) followed by update(token) (documented protocol)
    SetDeadline { src: u16, delta_us: i32 },
    /// change interest/mode of a Generic followed by update(token)
    SetInterest { src: u16, interest: u8, mode: u8 },
    Schedule { src: u16, plan: FutPlan },
    Wake { task: u16 },
    DropScheduler { src: u16 },
    InsertIdle { prog: Box<Prog> },
    CancelIdle { idle: u16 },
    DropIdleHandle { idle: u16 },
    FailNext { src: u16, step: FailStep },
    /// into_source_inner + Generic::unwrap of a removed Generic, then insert a new Generic over the same fd
    Recycle { src: u16 },
    Dispatch { timeout_ms: u8 },
}

#[derive(Serialize, Deserialize, Debug, Clone, Hash, PartialEq, Eq)]
pub struct HistCase {
    pub ops: Vec<Op>,
    /// true: drop the loop before the kept dispatchers/handles; false: the other way round
    pub loop_first: bool,
}

/// Generator weights; each property supplies its own bias.
#[derive(Clone, Debug)]
pub struct Profile {
    pub max_ops: usize,
    pub max_cb_ops: usize,
    pub max_depth: u32,
    // kinds
    pub k_ping: u32,
    pub k_chan: u32,
    pub k_timer: u32,
    pub k_gen: u32,
    pub k_exec: u32,
    pub k_probe: u32,
    pub probe_lifecycle_pct: u32,
    // ops
    pub o_insert: u32,
    pub o_token: u32,    // remove/disable/enable/update
    pub o_cause: u32,    // ping/send/peerwrite/setdeadline...
    pub o_handle: u32,   // clone/drop handles
    pub o_idle: u32,
    pub o_fail: u32,
    pub o_recycle: u32,
    pub o_dispatch: u32,
    pub o_exec: u32,
    /// probability (percent) that a script program returns a non-Continue post action
    pub post_pct: u32,
    /// probability (percent) that a script program returns Err
    pub err_pct: u32,
    /// allow dispatch timeouts > 0 (ms)
    pub max_timeout_ms: u8,
    /// timers: allow far deadlines / reschedules
    pub timer_future_pct: u32,
}

impl Profile {
    pub fn base() -> Profile {
        Profile {
            max_ops: 40,
            max_cb_ops: 4,
            max_depth: 2,
            k_ping: 4,
            k_chan: 3,
            k_timer: 3,
            k_gen: 4,
            k_exec: 0,
            k_probe: 0,
            probe_lifecycle_pct: 70,
            o_insert: 6,
            o_token: 8,
            o_cause: 10,
            o_handle: 2,
            o_idle: 1,
            o_fail: 0,
            o_recycle: 0,
            o_dispatch: 8,
            o_exec: 0,
            post_pct: 25,
            err_pct: 0,
            max_timeout_ms: 0,
            timer_future_pct: 25,
        }
    }
}

fn w(n: u32) -> u32 {
    n
}

pub fn kind_strategy(p: &Profile) -> BoxedStrategy<Kind> {
    let mut v: Vec<(u32, BoxedStrategy<Kind>)> = Vec::new();
    if p.k_ping > 0 {
        v.push((w(p.k_ping), Just(Kind::Ping).boxed()));
    }
    if p.k_chan > 0 {
        v.push((
            w(p.k_chan),
            prop_oneof![
                3 => Just(None),
                2 => proptest::sample::select(vec![Some(0u8), Some(1), Some(2), Some(8)]),
            ]
            .prop_map(|bound| Kind::Chan { bound })
            .boxed(),
        ));
    }
    if p.k_timer > 0 {
        let fut = p.timer_future_pct;
        v.push((
            w(p.k_timer),
            prop_oneof![
                (100 - fut) => (-3000i32..=0).prop_map(Some),
                (fut / 2 + 1) => (1i32..20_000).prop_map(Some),
                (fut / 4 + 1) => Just(Some(1_500_000_000i32)),
                (fut / 4 + 1) => Just(None),
            ]
            .prop_map(|delta_us| Kind::Timer { delta_us })
            .boxed(),
        ));
    }
    if p.k_gen > 0 {
        v.push((
            w(p.k_gen),
            (
                prop_oneof![
                    3 => Just(FdKind::EventFd),
                    3 => Just(FdKind::Sock),
                    1 => Just(FdKind::PipeR),
                    1 => Just(FdKind::PipeW),
                ],
                prop_oneof![1 => Just(0u8), 5 => Just(1u8), 1 => Just(2u8), 2 => Just(3u8)],
                prop_oneof![4 => Just(0u8), 2 => Just(1u8), 2 => Just(2u8)],
            )
                .prop_map(|(fd, interest, mode)| Kind::Gen { fd, interest, mode })
                .boxed(),
        ));
    }
    if p.k_exec > 0 {
        v.push((w(p.k_exec), Just(Kind::Exec).boxed()));
    }
    if p.k_probe > 0 {
        let lp = p.probe_lifecycle_pct;
        v.push((
            w(p.k_probe),
            (
                1u8..=4,
                prop::bool::weighted(lp as f64 / 100.0),
                prop::option::weighted(0.35, 0u8..4),
                if p.o_fail > 0 { prop::option::weighted(0.25, 0u8..5).boxed() } else { Just(None).boxed() },
            )
                .prop_map(|(subs, lifecycle, synthetic, fail_reg)| Kind::Probe {
                    subs,
                    lifecycle,
                    synthetic: if lifecycle { synthetic.map(|s| s % subs) } else { None },
                    fail_reg,
                })
                .boxed(),
        ));
    }
    proptest::strategy::Union::new_weighted(v).boxed()
}

fn post_strategy(p: &Profile) -> BoxedStrategy<PostRet> {
    let nonc = p.post_pct.min(95);
    let err = p.err_pct.min(50);
    let cont = 100u32.saturating_sub(nonc + err).max(1);
    let mut v: Vec<(u32, BoxedStrategy<PostRet>)> = vec![(cont, Just(PostRet::Continue).boxed())];
    if nonc > 0 {
        v.push((nonc, prop_oneof![Just(PostRet::Reregister), Just(PostRet::Disable), Just(PostRet::Remove)].boxed()));
    }
    if err > 0 {
        v.push((err, Just(PostRet::Err).boxed()));
    }
    proptest::strategy::Union::new_weighted(v).boxed()
}

fn tret_strategy(p: &Profile) -> BoxedStrategy<TRet> {
    let fut = p.timer_future_pct.max(1);
    prop_oneof![
        50 => Just(TRet::Drop),
        20 => (-2000i32..=0).prop_map(TRet::ToInstant),
        (fut / 2 + 1) => (1i32..15_000).prop_map(TRet::ToInstant),
        10 => (0u32..2000).prop_map(TRet::ToDuration),
        (fut / 4 + 1) => Just(TRet::ToDuration(3_000_000_000)),
        2 => Just(TRet::ToDurationMax),
    ]
    .boxed()
}

fn idx() -> impl Strategy<Value = u16> {
    any::<u16>()
}

pub fn prog_strategy(p: &Profile, depth: u32) -> BoxedStrategy<Prog> {
    let ops = if depth == 0 {
        Just(Vec::new()).boxed()
    } else {
        proptest::collection::vec(op_strategy(p, depth - 1, true), 0..=p.max_cb_ops).boxed()
    };
    (ops, post_strategy(p), tret_strategy(p))
        .prop_map(|(ops, post, timer)| Prog { ops, post, timer })
        .boxed()
}

fn script_strategy(p: &Profile, depth: u32) -> BoxedStrategy<Vec<Prog>> {
    proptest::collection::vec(prog_strategy(p, depth), 0..=3).boxed()
}

/// One op; `in_cb` removes Dispatch and biases towards token ops.
pub fn op_strategy(p: &Profile, depth: u32, in_cb: bool) -> BoxedStrategy<Op> {
    let mut v: Vec<(u32, BoxedStrategy<Op>)> = Vec::new();
    if p.o_insert > 0 {
        v.push((
            p.o_insert,
            (kind_strategy(p), script_strategy(p, depth), any::<bool>())
                .prop_map(|(kind, script, via_disp)| Op::Insert { kind, script, via_disp })
                .boxed(),
        ));
    }
    if p.o_token > 0 {
        v.push((
            p.o_token * if in_cb { 2 } else { 1 },
            prop_oneof![
                3 => idx().prop_map(|tok| Op::Remove { tok }),
                3 => idx().prop_map(|tok| Op::Disable { tok }),
                3 => idx().prop_map(|tok| Op::Enable { tok }),
                2 => idx().prop_map(|tok| Op::Update { tok }),
            ]
            .boxed(),
        ));
    }
    if p.o_cause > 0 {
        let mut c: Vec<(u32, BoxedStrategy<Op>)> = Vec::new();
        if p.k_ping > 0 {
            c.push((4, idx().prop_map(|src| Op::Ping { src }).boxed()));
        }
        if p.k_chan > 0 {
            c.push((4, (idx(), any::<u8>()).prop_map(|(src, val)| Op::Send { src, val }).boxed()));
        }
        if p.k_gen > 0 {
            c.push((4, (idx(), 0u8..8).prop_map(|(src, n)| Op::PeerWrite { src, n }).boxed()));
            c.push((2, (idx(), 0u8..8).prop_map(|(src, n)| Op::OwnRead { src, n }).boxed()));
            c.push((1, idx().prop_map(|src| Op::PeerClose { src }).boxed()));
            c.push((1, (idx(), 0u8..4, 0u8..3).prop_map(|(src, interest, mode)| Op::SetInterest { src, interest, mode }).boxed()));
        }
        if p.k_timer > 0 {
            let fut = p.timer_future_pct.max(1);
            c.push((
                4,
                (
                    idx(),
                    prop_oneof![
                        (100 - fut.min(90)) => -2000i32..=0,
                        (fut / 2 + 1) => 1i32..15_000,
                        (fut / 2 + 1) => Just(2_000_000_000i32),
                    ],
                )
                    .prop_map(|(src, delta_us)| Op::SetDeadline { src, delta_us })
                    .boxed(),
            ));
        }
        if p.k_probe > 0 {
            c.push((5, (idx(), 0u8..4).prop_map(|(src, sub)| Op::ProbePing { src, sub }).boxed()));
        }
        if !c.is_empty() {
            v.push((p.o_cause, proptest::strategy::Union::new_weighted(c).boxed()));
        }
    }
    if p.o_handle > 0 {
        let mut c: Vec<(u32, BoxedStrategy<Op>)> = Vec::new();
        if p.k_ping > 0 {
            c.push((2, idx().prop_map(|src| Op::CloneHandle { src }).boxed()));
            c.push((3, idx().prop_map(|src| Op::DropHandle { src }).boxed()));
        }
        if p.k_chan > 0 {
            c.push((2, idx().prop_map(|src| Op::CloneSender { src }).boxed()));
            c.push((3, idx().prop_map(|src| Op::DropSender { src }).boxed()));
        }
        if !c.is_empty() {
            v.push((p.o_handle, proptest::strategy::Union::new_weighted(c).boxed()));
        }
    }
    if p.o_idle > 0 {
        v.push((
            p.o_idle,
            prop_oneof![
                4 => prog_strategy(p, depth.min(1)).prop_map(|prog| Op::InsertIdle { prog: Box::new(prog) }),
                2 => idx().prop_map(|idle| Op::CancelIdle { idle }),
                1 => idx().prop_map(|idle| Op::DropIdleHandle { idle }),
            ]
            .boxed(),
        ));
    }
    if p.o_fail > 0 && p.k_probe > 0 {
        v.push((
            p.o_fail,
            (
                idx(),
                prop_oneof![
                    3 => (0u8..4).prop_map(FailStep::Register),
                    2 => (0u8..4).prop_map(FailStep::Reregister),
                    2 => (0u8..4).prop_map(FailStep::Unregister),
                    2 => Just(FailStep::Process),
                    1 => Just(FailStep::BeforeSleep),
                ],
            )
                .prop_map(|(src, step)| Op::FailNext { src, step })
                .boxed(),
        ));
    }
    if p.o_recycle > 0 && p.k_gen > 0 {
        v.push((p.o_recycle, idx().prop_map(|src| Op::Recycle { src }).boxed()));
    }
    if p.o_exec > 0 && p.k_exec > 0 {
        let plan = (0u8..3, any::<bool>(), any::<u8>(), if depth == 0 {
            Just(Vec::new()).boxed()
        } else {
            proptest::collection::vec(op_strategy(p, depth - 1, true), 0..=2).boxed()
        })
            .prop_map(|(pendings, self_wake, val, ops)| FutPlan { pendings, self_wake, val, ops });
        v.push((
            p.o_exec,
            prop_oneof![
                5 => (idx(), plan).prop_map(|(src, plan)| Op::Schedule { src, plan }),
                4 => idx().prop_map(|task| Op::Wake { task }),
                1 => idx().prop_map(|src| Op::DropScheduler { src }),
            ]
            .boxed(),
        ));
    }
    if !in_cb && p.o_dispatch > 0 {
        let max = p.max_timeout_ms;
        v.push((
            p.o_dispatch,
            if max == 0 {
                Just(Op::Dispatch { timeout_ms: 0 }).boxed()
            } else {
                prop_oneof![4 => Just(0u8), 1 => 1u8..=max].prop_map(|timeout_ms| Op::Dispatch { timeout_ms }).boxed()
            },
        ));
    }
    proptest::strategy::Union::new_weighted(v).boxed()
}

pub fn case_strategy(p: &Profile) -> BoxedStrategy<HistCase> {
    (proptest::collection::vec(op_strategy(p, p.max_depth, false), 1..=p.max_ops), any::<bool>())
        .prop_map(|(ops, loop_first)| HistCase { ops, loop_first })
        .boxed()
}

/// Monotone index reduction.
#[inline]
pub fn pick(i: u16, len: usize) -> Option<usize> {
    if len == 0 {
        None
    } else {
        Some(((i as usize) * len) >> 16)
    }
}
