//! The real side of the history machine: a real EventLoop, an instrumented source zoo and the
//! interpreter that executes generated operations (also from inside callbacks) while recording a trace.

use super::ops::*;
#[allow(unused_imports)]
use super::ops::CKind;
use super::trace::*;
use crate::kernel::{self, BorrowedRaw, OwnedRaw};
use calloop::channel::{self, Channel, Event as ChEvent, Sender, SyncSender};
use calloop::generic::Generic;
use calloop::ping::{make_ping, Ping, PingSource};
use calloop::timer::{TimeoutAction, Timer};
use calloop::{
    Dispatcher, EventLoop, EventSource, Idle, Interest, LoopHandle, Mode, Poll, PostAction, Readiness,
    RegistrationToken, Token, TokenFactory,
};
use std::cell::{Cell, RefCell};
use std::os::unix::io::{AsRawFd, RawFd};
use std::panic::{catch_unwind, AssertUnwindSafe};
use std::rc::Rc;
use std::time::{Duration, Instant};

type BoxErr = Box<dyn std::error::Error + Send + Sync>;

// ---------------------------------------------------------------------------------------------
// guards

pub struct SrcGuard {
    id: SrcId,
    sh: Sh,
    alive: Rc<Cell<bool>>,
}
impl Drop for SrcGuard {
    fn drop(&mut self) {
        self.alive.set(false);
        self.sh.push(Ev::SrcDrop { src: self.id });
    }
}
pub struct CbGuard {
    id: SrcId,
    sh: Sh,
}
impl Drop for CbGuard {
    fn drop(&mut self) {
        self.sh.push(Ev::CbDrop { src: self.id });
        self.sh.cb_dropped.borrow_mut().insert(self.id);
        // what the closure owned goes with it (Async adapters: their Drop calls back into the loop)
        let bag = self.sh.bags.borrow_mut().remove(&self.id);
        drop(bag);
    }
}
pub struct IdleGuard {
    id: IdleId,
    sh: Sh,
}
impl Drop for IdleGuard {
    fn drop(&mut self) {
        self.sh.push(Ev::IdleDrop { idle: self.id });
    }
}

fn res_of<T>(r: &calloop::Result<T>) -> Res {
    match r {
        Ok(_) => Res::Ok,
        Err(calloop::Error::InvalidToken) => Res::InvalidToken,
        Err(e) => Res::OtherErr(format!("{e}")),
    }
}

fn panic_res(p: Box<dyn std::any::Any + Send>) -> Res {
    let info = crate::panics::take_last().unwrap_or_default();
    let msg = if info.message.is_empty() { crate::driver::panic_msg(&p) } else { info.message };
    Res::Panic { msg, file: info.file, line: info.line }
}

// ---------------------------------------------------------------------------------------------
// Tracked<S>: delegating EventSource that records every call the loop makes

pub struct Tracked<S> {
    pub inner: S,
    id: SrcId,
    sh: Sh,
    _guard: SrcGuard,
}

impl<S> Tracked<S> {
    fn new(inner: S, id: SrcId, sh: &Sh, alive: &Rc<Cell<bool>>) -> Self {
        alive.set(true);
        Tracked { inner, id, sh: sh.clone(), _guard: SrcGuard { id, sh: sh.clone(), alive: alive.clone() } }
    }
}

#[derive(Debug)]
struct Scripted(&'static str);
impl std::fmt::Display for Scripted {
    fn fmt(&self, f: &mut std::fmt::Formatter<'_>) -> std::fmt::Result {
        write!(f, "scripted failure: {}", self.0)
    }
}
impl std::error::Error for Scripted {}

fn to_pret(a: PostAction) -> PRet {
    match a {
        PostAction::Continue => PRet::Continue,
        PostAction::Reregister => PRet::Reregister,
        PostAction::Disable => PRet::Disable,
        PostAction::Remove => PRet::Remove,
    }
}

impl<S> EventSource for Tracked<S>
where
    S: EventSource,
{
    type Event = S::Event;
    type Metadata = S::Metadata;
    type Ret = S::Ret;
    type Error = BoxErr;

    fn process_events<F>(&mut self, readiness: Readiness, token: Token, callback: F) -> Result<PostAction, BoxErr>
    where
        F: FnMut(Self::Event, &mut Self::Metadata) -> Self::Ret,
    {
        self.sh.push(Ev::Proc {
            src: self.id,
            key: token.verif_key() as u64,
            r: readiness.readable,
            w: readiness.writable,
            e: readiness.error,
        });
        let prev = self.sh.cur_proc.replace(Some(self.id));
        self.sh.forced.set(None);
        let res = self.inner.process_events(readiness, token, callback);
        self.sh.cur_proc.set(prev);
        let forced = match self.sh.forced.take() {
            Some((id, p)) if id == self.id => Some(p),
            _ => None,
        };
        let out: Result<PostAction, BoxErr> = match res {
            Err(e) => Err(e.into()),
            Ok(PostAction::Continue) => match forced {
                Some(PostRet::Err) => Err(Box::new(Scripted("process_events"))),
                Some(PostRet::Reregister) => Ok(PostAction::Reregister),
                Some(PostRet::Disable) => Ok(PostAction::Disable),
                Some(PostRet::Remove) => Ok(PostAction::Remove),
                _ => Ok(PostAction::Continue),
            },
            // the wrapped source decided something itself (a timer that dropped itself, a closed channel): a real
            // source does not both do that and fail, so the scripted error is not injected on top of it
            Ok(a) => Ok(a),
        };
        let ret = match &out {
            Ok(a) => to_pret(*a),
            Err(_) => PRet::Err,
        };
        if ret == PRet::Remove {
            self.sh.ret_removed.borrow_mut().push(self.id);
        }
        self.sh.push(Ev::ProcRet { src: self.id, ret, t_ns: self.sh.now_ns() });
        out
    }

    fn register(&mut self, poll: &mut Poll, tf: &mut TokenFactory) -> calloop::Result<()> {
        let r = self.inner.register(poll, tf);
        self.sh.push(Ev::Reg { src: self.id, res: res_of(&r), keys: vec![] });
        r
    }
    fn reregister(&mut self, poll: &mut Poll, tf: &mut TokenFactory) -> calloop::Result<()> {
        let r = self.inner.reregister(poll, tf);
        self.sh.push(Ev::Rereg { src: self.id, res: res_of(&r), keys: vec![] });
        r
    }
    fn unregister(&mut self, poll: &mut Poll) -> calloop::Result<()> {
        let r = self.inner.unregister(poll);
        self.sh.push(Ev::Unreg { src: self.id, res: res_of(&r) });
        r
    }
}

// ---------------------------------------------------------------------------------------------
// Probe: a fully scripted source over `n` real ping sub-sources, optional lifecycle opt-in,
// optional synthetic event from before_sleep, scripted failures.

pub struct Probe<const L: bool> {
    id: SrcId,
    sh: Sh,
    subs: Vec<PingSource>,
    toks: Vec<Option<Token>>,
    synth_tok: Option<Token>,
    synthetic: Option<u8>,
    fail: Rc<RefCell<Option<FailStep>>>,
    _guard: SrcGuard,
}

impl<const L: bool> Probe<L> {
    fn take_fail(&self, want: impl Fn(&FailStep) -> bool) -> Option<FailStep> {
        let mut f = self.fail.borrow_mut();
        if f.as_ref().map(&want).unwrap_or(false) {
            f.take()
        } else {
            None
        }
    }
}

impl<const L: bool> EventSource for Probe<L> {
    type Event = (u8, bool);
    type Metadata = ();
    type Ret = ();
    type Error = BoxErr;
    const NEEDS_EXTRA_LIFECYCLE_EVENTS: bool = L;

    fn process_events<F>(&mut self, readiness: Readiness, token: Token, mut callback: F) -> Result<PostAction, BoxErr>
    where
        F: FnMut((u8, bool), &mut ()),
    {
        self.sh.push(Ev::Proc {
            src: self.id,
            key: token.verif_key() as u64,
            r: readiness.readable,
            w: readiness.writable,
            e: readiness.error,
        });
        let prev = self.sh.cur_proc.replace(Some(self.id));
        self.sh.forced.set(None);
        let mut res: Result<PostAction, BoxErr> = Ok(PostAction::Continue);
        let scripted = self.take_fail(|f| matches!(f, FailStep::Process)).is_some();
        if self.sh.fault_here() | scripted {
            res = Err(Box::new(Scripted("probe process_events")));
        } else if self.synth_tok == Some(token) {
            callback((self.synthetic.unwrap_or(0), true), &mut ());
        } else if self.synthetic.map_or(false, |s| s >= 128 && self.toks.get((s - 128) as usize).copied().flatten() == Some(token)) && readiness.writable && !readiness.readable {
            // the synthetic event carried on a sub-source's own token (told apart from that sub-source's real,
            // readable events by its write-only readiness)
            callback((self.synthetic.unwrap_or(0), true), &mut ());
        } else {
            for (i, sub) in self.subs.iter_mut().enumerate() {
                if self.toks[i] == Some(token) {
                    let r = sub.process_events(readiness, token, |(), _| callback((i as u8, false), &mut ()));
                    match r {
                        Ok(PostAction::Continue) => {}
                        // a sub-ping asks for removal only when all its handles are gone; the probe keeps
                        // handles alive itself, so this does not happen; forward anything else unchanged
                        Ok(a) => res = Ok(a),
                        Err(e) => res = Err(e.into()),
                    }
                }
            }
        }
        self.sh.cur_proc.set(prev);
        let forced = match self.sh.forced.take() {
            Some((id, p)) if id == self.id => Some(p),
            _ => None,
        };
        let out = match res {
            Ok(PostAction::Continue) => match forced {
                Some(PostRet::Err) => Err(Box::new(Scripted("probe callback")) as BoxErr),
                Some(PostRet::Reregister) => Ok(PostAction::Reregister),
                Some(PostRet::Disable) => Ok(PostAction::Disable),
                Some(PostRet::Remove) => Ok(PostAction::Remove),
                _ => Ok(PostAction::Continue),
            },
            other => other,
        };
        let ret = match &out {
            Ok(a) => to_pret(*a),
            Err(_) => PRet::Err,
        };
        if ret == PRet::Remove {
            self.sh.ret_removed.borrow_mut().push(self.id);
        }
        self.sh.push(Ev::ProcRet { src: self.id, ret, t_ns: self.sh.now_ns() });
        out
    }

    fn register(&mut self, poll: &mut Poll, tf: &mut TokenFactory) -> calloop::Result<()> {
        let fail_at = self.take_fail(|f| matches!(f, FailStep::Register(_))).map(|f| match f {
            FailStep::Register(k) => k as usize % (self.subs.len() + 1),
            _ => 0,
        });
        let mut keys = vec![];
        let mut result = Ok(());
        for i in 0..self.subs.len() {
            if self.sh.fault_here() | (fail_at == Some(i)) {
                // a composite whose (i+1)-th sub-source fails to register: roll back the earlier ones,
                // as a careful composite would, and report the error
                for j in 0..i {
                    let _ = self.subs[j].unregister(poll);
                    self.toks[j] = None;
                }
                result = Err(calloop::Error::OtherError(Box::new(Scripted("probe register"))));
                break;
            }
            // the sub-source takes its own token from the factory; peek at it through a clone of the state
            let before = tf.token();
            // `before` consumed one sub-id; hand the same token to the sub-source by registering its Generic by hand
            // is not possible (PingSource takes the factory), so give it a one-token factory instead:
            let mut one = calloop::verif::token_factory(before.verif_key());
            // advance the one-token factory to the sub-id of `before`
            let (_, _, sub_id) = calloop::verif::unpack(before.verif_key());
            for _ in 0..sub_id {
                let _ = one.token();
            }
            match self.subs[i].register(poll, &mut one) {
                Ok(()) => {
                    self.toks[i] = Some(before);
                    keys.push(before.verif_key() as u64);
                }
                Err(e) => {
                    for j in 0..i {
                        let _ = self.subs[j].unregister(poll);
                        self.toks[j] = None;
                    }
                    result = Err(e);
                    break;
                }
            }
        }
        if result.is_ok() {
            if self.sh.fault_here() | (fail_at == Some(self.subs.len())) {
                for j in 0..self.subs.len() {
                    let _ = self.subs[j].unregister(poll);
                    self.toks[j] = None;
                }
                result = Err(calloop::Error::OtherError(Box::new(Scripted("probe register (last step)"))));
            } else {
                self.synth_tok = Some(tf.token());
            }
        }
        self.sh.push(Ev::Reg { src: self.id, res: res_of(&result), keys });
        result
    }

    fn reregister(&mut self, poll: &mut Poll, tf: &mut TokenFactory) -> calloop::Result<()> {
        let fail = self.sh.fault_here() | self.take_fail(|f| matches!(f, FailStep::Reregister(_))).is_some();
        let mut keys = vec![];
        let mut result = Ok(());
        if fail {
            // fails before touching anything: registration stays as it was
            result = Err(calloop::Error::OtherError(Box::new(Scripted("probe reregister"))));
        } else {
            for i in 0..self.subs.len() {
                let before = tf.token();
                let mut one = calloop::verif::token_factory(before.verif_key());
                let (_, _, sub_id) = calloop::verif::unpack(before.verif_key());
                for _ in 0..sub_id {
                    let _ = one.token();
                }
                match self.subs[i].reregister(poll, &mut one) {
                    Ok(()) => {
                        self.toks[i] = Some(before);
                        keys.push(before.verif_key() as u64);
                    }
                    Err(e) => {
                        result = Err(e);
                        break;
                    }
                }
            }
            if result.is_ok() {
                self.synth_tok = Some(tf.token());
            }
        }
        self.sh.push(Ev::Rereg { src: self.id, res: res_of(&result), keys });
        result
    }

    fn unregister(&mut self, poll: &mut Poll) -> calloop::Result<()> {
        let fail = self.sh.fault_here() | self.take_fail(|f| matches!(f, FailStep::Unregister(_))).is_some();
        let mut result = Ok(());
        if fail {
            result = Err(calloop::Error::OtherError(Box::new(Scripted("probe unregister"))));
        } else {
            for i in 0..self.subs.len() {
                if let Err(e) = self.subs[i].unregister(poll) {
                    if result.is_ok() {
                        result = Err(e);
                    }
                }
                self.toks[i] = None;
            }
            self.synth_tok = None;
        }
        self.sh.push(Ev::Unreg { src: self.id, res: res_of(&result) });
        result
    }

    fn before_sleep(&mut self) -> calloop::Result<Option<(Readiness, Token)>> {
        if self.sh.fault_here() | self.take_fail(|f| matches!(f, FailStep::BeforeSleep)).is_some() {
            self.sh.push(Ev::BeforeSleep { src: self.id, ret: None, err: true });
            return Err(calloop::Error::OtherError(Box::new(Scripted("probe before_sleep"))));
        }
        let ret = match (self.synthetic, self.synth_tok) {
            (Some(s), Some(t)) => {
                self.sh.push(Ev::BeforeSleep { src: self.id, ret: Some(s), err: false });
                match self.toks.get((s & 127) as usize).copied().flatten() {
                    Some(sub_tok) if s >= 128 => Some((Readiness { readable: false, writable: true, error: false }, sub_tok)),
                    _ => Some((Readiness { readable: true, writable: false, error: false }, t)),
                }
            }
            _ => {
                self.sh.push(Ev::BeforeSleep { src: self.id, ret: None, err: false });
                None
            }
        };
        Ok(ret)
    }

    fn before_handle_events(&mut self, events: calloop::EventIterator<'_>) {
        let keys: Vec<u64> = events.map(|(_, t)| t.verif_key() as u64).collect();
        self.sh.push(Ev::BeforeHandle { src: self.id, keys });
    }
}

// ---------------------------------------------------------------------------------------------
// Composite source in the style of the calloop book: children register in field order through the
// shared TokenFactory, every event is offered to every child, children filter by their own token.

pub enum ChildEv {
    Ping,
    Timer(Instant),
    Ready(Readiness),
}

pub enum ChildSrc {
    Ping(PingSource),
    Timer(Timer),
    Gen(Generic<OwnedRaw>),
    Bad(Generic<BorrowedRaw>),
}

/// A child of the composite: the real source plus the key it last registered with; a child-level
/// post action can be scripted (used by TransientSource parents).
pub struct CChild {
    src: ChildSrc,
    owner: SrcId,
    idx: u8,
    sh: Sh,
    key: Rc<Cell<Option<u64>>>,
}

impl EventSource for CChild {
    type Event = ChildEv;
    type Metadata = ();
    type Ret = TRet;
    type Error = BoxErr;

    fn process_events<F>(&mut self, readiness: Readiness, token: Token, mut callback: F) -> Result<PostAction, BoxErr>
    where
        F: FnMut(ChildEv, &mut ()) -> TRet,
    {
        self.sh.child_forced.set(None);
        let now = Instant::now();
        let r: Result<PostAction, BoxErr> = match &mut self.src {
            ChildSrc::Ping(p) => p.process_events(readiness, token, |(), _| {
                callback(ChildEv::Ping, &mut ());
            }).map_err(|e| e.into()),
            ChildSrc::Timer(t) => t
                .process_events(readiness, token, |inst, _| match callback(ChildEv::Timer(inst), &mut ()) {
                    TRet::Drop => TimeoutAction::Drop,
                    TRet::ToInstant(d) => TimeoutAction::ToInstant(if d >= 0 { now + Duration::from_micros(d as u64) } else { now.checked_sub(Duration::from_micros((-d) as u64)).unwrap_or(now) }),
                    TRet::ToDuration(us) => TimeoutAction::ToDuration(Duration::from_micros(us as u64)),
                    TRet::ToDurationMax => TimeoutAction::ToDuration(Duration::MAX),
                })
                .map_err(|e| e.into()),
            ChildSrc::Gen(g) => g
                .process_events(readiness, token, |rd, _| {
                    callback(ChildEv::Ready(rd), &mut ());
                    Ok(PostAction::Continue)
                })
                .map_err(|e: std::io::Error| e.into()),
            ChildSrc::Bad(g) => g
                .process_events(readiness, token, |rd, _| {
                    callback(ChildEv::Ready(rd), &mut ());
                    Ok(PostAction::Continue)
                })
                .map_err(|e: std::io::Error| e.into()),
        };
        let forced = match self.sh.child_forced.take() {
            Some((o, c, p)) if o == self.owner && c == self.idx => Some(p),
            _ => None,
        };
        match (r, forced) {
            (Ok(PostAction::Continue), Some(PostRet::Reregister)) => Ok(PostAction::Reregister),
            (Ok(PostAction::Continue), Some(PostRet::Disable)) => Ok(PostAction::Disable),
            (Ok(PostAction::Continue), Some(PostRet::Remove)) => Ok(PostAction::Remove),
            (Ok(_), Some(PostRet::Err)) => Err(Box::new(Scripted("composite child"))),
            (r, _) => r,
        }
    }

    fn register(&mut self, poll: &mut Poll, tf: &mut TokenFactory) -> calloop::Result<()> {
        let t = tf.token();
        let mut one = calloop::verif::token_factory(t.verif_key());
        let (_, _, sub) = calloop::verif::unpack(t.verif_key());
        for _ in 0..sub {
            let _ = one.token();
        }
        let r = match &mut self.src {
            ChildSrc::Ping(p) => p.register(poll, &mut one),
            ChildSrc::Timer(x) => x.register(poll, &mut one),
            ChildSrc::Gen(g) => g.register(poll, &mut one),
            ChildSrc::Bad(g) => g.register(poll, &mut one),
        };
        if r.is_ok() {
            self.key.set(Some(t.verif_key() as u64));
        }
        r
    }

    fn reregister(&mut self, poll: &mut Poll, tf: &mut TokenFactory) -> calloop::Result<()> {
        let t = tf.token();
        let mut one = calloop::verif::token_factory(t.verif_key());
        let (_, _, sub) = calloop::verif::unpack(t.verif_key());
        for _ in 0..sub {
            let _ = one.token();
        }
        let r = match &mut self.src {
            ChildSrc::Ping(p) => p.reregister(poll, &mut one),
            ChildSrc::Timer(x) => x.reregister(poll, &mut one),
            ChildSrc::Gen(g) => g.reregister(poll, &mut one),
            ChildSrc::Bad(g) => g.reregister(poll, &mut one),
        };
        if r.is_ok() {
            self.key.set(Some(t.verif_key() as u64));
        }
        r
    }

    fn unregister(&mut self, poll: &mut Poll) -> calloop::Result<()> {
        let r = match &mut self.src {
            ChildSrc::Ping(p) => p.unregister(poll),
            ChildSrc::Timer(x) => x.unregister(poll),
            ChildSrc::Gen(g) => g.unregister(poll),
            ChildSrc::Bad(g) => g.unregister(poll),
        };
        self.key.set(None);
        r
    }
}

pub enum CSlot {
    Plain(CChild),
    Transient(calloop::transient::TransientSource<CChild>),
}

pub struct Comp {
    id: SrcId,
    sh: Sh,
    children: Vec<CSlot>,
    keys: Vec<Rc<Cell<Option<u64>>>>,
    _guard: SrcGuard,
}

impl Comp {
    fn keys_now(&self) -> Vec<u64> {
        self.keys.iter().map(|k| k.get().unwrap_or(u64::MAX)).collect()
    }
}

impl EventSource for Comp {
    type Event = (u8, ChildEv);
    type Metadata = ();
    type Ret = TRet;
    type Error = BoxErr;

    fn process_events<F>(&mut self, readiness: Readiness, token: Token, mut callback: F) -> Result<PostAction, BoxErr>
    where
        F: FnMut((u8, ChildEv), &mut ()) -> TRet,
    {
        self.sh.push(Ev::Proc { src: self.id, key: token.verif_key() as u64, r: readiness.readable, w: readiness.writable, e: readiness.error });
        let prev = self.sh.cur_proc.replace(Some(self.id));
        self.sh.forced.set(None);
        let mut rereg = false;
        let mut err: Option<BoxErr> = None;
        for (i, c) in self.children.iter_mut().enumerate() {
            let r = match c {
                CSlot::Plain(ch) => ch.process_events(readiness, token, |ev, m| callback((i as u8, ev), m)),
                CSlot::Transient(t) => t.process_events(readiness, token, |ev, m| callback((i as u8, ev), m)),
            };
            match r {
                // a transient child that changed asks for re-registration; a plain child's own request
                // (a timer that dropped itself) is swallowed: the composite keeps its children
                Ok(PostAction::Reregister) => rereg = true,
                Ok(_) => {}
                Err(e) => {
                    if err.is_none() {
                        err = Some(e);
                    }
                }
            }
        }
        self.sh.cur_proc.set(prev);
        self.sh.forced.set(None);
        let out = match err {
            Some(e) => Err(e),
            None => Ok(if rereg { PostAction::Reregister } else { PostAction::Continue }),
        };
        let ret = match &out {
            Ok(a) => to_pret(*a),
            Err(_) => PRet::Err,
        };
        self.sh.push(Ev::ProcRet { src: self.id, ret, t_ns: self.sh.now_ns() });
        out
    }

    fn register(&mut self, poll: &mut Poll, tf: &mut TokenFactory) -> calloop::Result<()> {
        let mut res = Ok(());
        for c in self.children.iter_mut() {
            let r = match c {
                CSlot::Plain(ch) => ch.register(poll, tf),
                CSlot::Transient(t) => t.register(poll, tf),
            };
            if r.is_err() && res.is_ok() {
                res = r;
            }
        }
        self.sh.push(Ev::Reg { src: self.id, res: res_of(&res), keys: self.keys_now() });
        res
    }

    fn reregister(&mut self, poll: &mut Poll, tf: &mut TokenFactory) -> calloop::Result<()> {
        let mut res = Ok(());
        for c in self.children.iter_mut() {
            let r = match c {
                CSlot::Plain(ch) => ch.reregister(poll, tf),
                CSlot::Transient(t) => t.reregister(poll, tf),
            };
            if r.is_err() && res.is_ok() {
                res = r;
            }
        }
        self.sh.push(Ev::Rereg { src: self.id, res: res_of(&res), keys: self.keys_now() });
        res
    }

    fn unregister(&mut self, poll: &mut Poll) -> calloop::Result<()> {
        let mut res = Ok(());
        for c in self.children.iter_mut() {
            let r = match c {
                CSlot::Plain(ch) => ch.unregister(poll),
                CSlot::Transient(t) => t.unregister(poll),
            };
            if r.is_err() && res.is_ok() {
                res = r;
            }
        }
        self.sh.push(Ev::Unreg { src: self.id, res: res_of(&res) });
        res
    }
}

// ---------------------------------------------------------------------------------------------
// world state

pub enum Tx {
    U(Sender<u8>),
    S(SyncSender<u8>),
}

type TimerDisp = Dispatcher<'static, Tracked<Timer>, Ctx>;
type GenDisp = Dispatcher<'static, Tracked<Generic<OwnedRaw>>, Ctx>;

/// A kept dispatcher of any source type: can be released (into_source_inner) and reports success.
pub trait Kept {
    fn release(self: Box<Self>) -> bool;
}
impl<S: EventSource + 'static> Kept for Dispatcher<'static, S, Ctx> {
    fn release(self: Box<Self>) -> bool {
        catch_unwind(AssertUnwindSafe(move || {
            let s = (*self).into_source_inner();
            drop(s);
        }))
        .map_err(|_| crate::panics::clear())
        .is_ok()
    }
}

pub enum Handles {
    None,
    Ping { pings: Vec<Ping> },
    Chan { tx: Vec<Tx> },
    Timer { disp: Option<TimerDisp> },
    Gen { fd: RawFd, fdkind: FdKind, peer: Option<OwnedRaw>, disp: Option<GenDisp>, interest: u8, mode: u8 },
    Probe { pings: Vec<Ping>, fail: Rc<RefCell<Option<FailStep>>> },
    /// per child: a ping handle or the raw eventfd
    Comp { pokes: Vec<(Option<Ping>, Option<OwnedRaw>)> },
    Exec { sched: Vec<calloop::futures::Scheduler<u32>> },
    Stream { st: Rc<StreamShared> },
}

/// State shared between a harness-fed stream and the history.
pub struct StreamShared {
    q: RefCell<std::collections::VecDeque<u8>>,
    ended: Cell<bool>,
    yields: Cell<u8>,
    waker: RefCell<Option<std::task::Waker>>,
}

pub struct HistStream(Rc<StreamShared>, SrcId, Sh);

impl futures::Stream for HistStream {
    type Item = u8;
    fn poll_next(self: std::pin::Pin<&mut Self>, cx: &mut std::task::Context<'_>) -> std::task::Poll<Option<u8>> {
        self.2.push(Ev::StreamPoll { src: self.1 });
        *self.0.waker.borrow_mut() = Some(cx.waker().clone());
        if self.0.yields.get() > 0 && (!self.0.q.borrow().is_empty() || self.0.ended.get()) {
            // cooperative yield: come back in the next dispatch
            self.0.yields.set(self.0.yields.get() - 1);
            self.2.push(Ev::StreamSelfWake { src: self.1 });
            cx.waker().wake_by_ref();
            return std::task::Poll::Pending;
        }
        if let Some(v) = self.0.q.borrow_mut().pop_front() {
            return std::task::Poll::Ready(Some(v));
        }
        if self.0.ended.get() {
            return std::task::Poll::Ready(None);
        }
        std::task::Poll::Pending
    }
}

/// Scripted future of the history machine: stays Pending `pendings` times (optionally waking itself), then
/// completes with its task id. Every poll and its drop are recorded.
pub struct HistFut {
    task: usize,
    pendings: u8,
    self_wake: bool,
    sh: Sh,
    waker: Rc<RefCell<Option<std::task::Waker>>>,
}

impl std::future::Future for HistFut {
    type Output = u32;
    fn poll(mut self: std::pin::Pin<&mut Self>, cx: &mut std::task::Context<'_>) -> std::task::Poll<u32> {
        let ok = std::thread::current().id() == self.sh.thread;
        self.sh.push(Ev::Poll { task: self.task, thread_ok: ok });
        *self.waker.borrow_mut() = Some(cx.waker().clone());
        if self.pendings > 0 {
            self.pendings -= 1;
            if self.self_wake {
                cx.waker().wake_by_ref();
            }
            self.sh.push(Ev::PollEnd { task: self.task, ready: false });
            std::task::Poll::Pending
        } else {
            self.sh.push(Ev::PollEnd { task: self.task, ready: true });
            std::task::Poll::Ready(self.task as u32)
        }
    }
}

impl Drop for HistFut {
    fn drop(&mut self) {
        let ok = std::thread::current().id() == self.sh.thread;
        self.sh.push(Ev::FutDrop { task: self.task, thread_ok: ok });
    }
}

pub struct WTask {
    pub src: SrcId,
    pub val: u8,
    pub waker: Rc<RefCell<Option<std::task::Waker>>>,
}

pub struct WSrc {
    pub kind: Kind,
    pub script: Vec<Prog>,
    pub cursor: usize,
    pub tok: Option<TokIdx>,
    pub inserted: bool,
    pub alive: Rc<Cell<bool>>,
    pub h: Handles,
    pub kept: Option<Box<dyn Kept>>,
}

pub struct WIdle {
    handle: Option<Idle<'static>>,
    prog: Prog,
}

pub struct Opts {
    /// record the epoll table after every top-level step
    pub epoll_each_step: bool,
    /// fail the fault site with this number (see Shared::fault_here)
    pub fault_at: Option<u32>,
}

pub struct WAsync {
    pub adapter: Option<calloop::io::Async<'static, BorrowedRaw>>,
    pub slot: u8,
    pub fd: RawFd,
    pub wakes: std::sync::Arc<CountWake>,
    /// moved into the callback closure of this source (alive as long as that closure is)
    pub given_to: Option<SrcId>,
}

/// Waker that only counts.
#[derive(Default)]
pub struct CountWake(pub std::sync::atomic::AtomicU64);
impl std::task::Wake for CountWake {
    fn wake(self: std::sync::Arc<Self>) {
        self.0.fetch_add(1, std::sync::atomic::Ordering::SeqCst);
    }
    fn wake_by_ref(self: &std::sync::Arc<Self>) {
        self.0.fetch_add(1, std::sync::atomic::Ordering::SeqCst);
    }
}

pub struct Ctx {
    pub fdslots: [Option<(OwnedRaw, Option<OwnedRaw>)>; 4],
    /// the eventfds behind FdKind::Shared (closed by `SharedFds::drop` after everything else)
    pub shared: Rc<SharedFds>,
    pub asyncs: Vec<WAsync>,
    pub sh: Sh,
    pub handle: Option<LoopHandle<'static, Ctx>>,
    pub srcs: Vec<WSrc>,
    pub tokens: Vec<(RegistrationToken, SrcId)>,
    pub idles: Vec<WIdle>,
    pub cur_idle: Option<IdleId>,
    pub depth: u32,
    pub by_kind: [Vec<SrcId>; 9],
    pub poisoned: bool,
    pub epfd: RawFd,
    pub opts: Opts,
    pub signal: Option<calloop::LoopSignal>,
    pub callbacks: u32,
    pub exhausted: bool,
    pub tasks: Vec<WTask>,
}

pub struct SharedFds(pub RefCell<[Option<RawFd>; 2]>);

impl Drop for SharedFds {
    fn drop(&mut self) {
        for fd in self.0.borrow_mut().iter_mut() {
            if let Some(fd) = fd.take() {
                kernel::no_close_remove(fd);
                kernel::close(fd);
            }
        }
    }
}

/// callbacks per case after which the case is abandoned (generated histories stay far below)
const CALLBACK_BUDGET: u32 = 4000;

const K_PING: usize = 0;
const K_CHAN: usize = 1;
const K_TIMER: usize = 2;
const K_GEN: usize = 3;
const K_EXEC: usize = 4;
const K_PROBE: usize = 5;
const K_GEN_BAD: usize = 6;
const K_COMP: usize = 7;
const K_STREAM: usize = 8;

fn interest_of(i: u8) -> Interest {
    match i & 3 {
        0 => Interest::EMPTY,
        1 => Interest::READ,
        2 => Interest::WRITE,
        _ => Interest::BOTH,
    }
}
fn mode_of(m: u8) -> Mode {
    match m % 3 {
        0 => Mode::Level,
        1 => Mode::Edge,
        _ => Mode::OneShot,
    }
}

impl Ctx {
    fn h(&self) -> LoopHandle<'static, Ctx> {
        self.handle.as_ref().expect("loop handle").clone()
    }

    fn new_src(&mut self, kind: &Kind, script: &[Prog], kslot: usize) -> SrcId {
        let id = self.srcs.len();
        self.srcs.push(WSrc {
            kind: kind.clone(),
            script: script.to_vec(),
            cursor: 0,
            tok: None,
            inserted: false,
            alive: Rc::new(Cell::new(false)),
            h: Handles::None,
            kept: None,
        });
        self.by_kind[kslot].push(id);
        id
    }

    fn next_prog(&mut self, id: SrcId) -> Prog {
        let s = &mut self.srcs[id];
        if s.script.is_empty() {
            return Prog::plain();
        }
        let i = s.cursor.min(s.script.len() - 1);
        s.cursor += 1;
        s.script[i].clone()
    }

    /// Common body of every user callback.
    fn on_cb(&mut self, id: SrcId, payload: Payload) -> (PostRet, TRet, Option<Instant>) {
        let sh = self.sh.clone();
        self.callbacks += 1;
        if self.callbacks > CALLBACK_BUDGET {
            // a history that multiplies its own events (documented misuse such as enabling an enabled source from a
            // repeating script duplicates registrations each round): stop feeding it, let the loop drain
            if !self.exhausted {
                self.exhausted = true;
                self.poisoned = true;
                sh.push(Ev::Exhausted);
            }
            return (PostRet::Remove, TRet::Drop, None);
        }
        sh.push(Ev::Cb { src: id, payload, t_ns: sh.now_ns() });
        let prog = self.next_prog(id);
        self.depth += 1;
        for op in &prog.ops {
            if self.poisoned {
                break;
            }
            self.exec(op);
        }
        self.depth -= 1;
        let now = Instant::now();
        let (new_deadline, new_ns) = match prog.timer {
            TRet::ToInstant(d) => {
                let t = if d >= 0 { now + Duration::from_micros(d as u64) } else { now.checked_sub(Duration::from_micros((-d) as u64)).unwrap_or(now) };
                (Some(t), Some(sh.ns(t)))
            }
            _ => (None, None),
        };
        let is_timer = matches!(self.srcs[id].kind, Kind::Timer { .. });
        sh.push(Ev::CbEnd { src: id, post: prog.post, timer: prog.timer, new_deadline_ns: if is_timer { new_ns } else { None }, t_ns: sh.ns(now) });
        sh.forced.set(Some((id, prog.post)));
        (prog.post, prog.timer, new_deadline)
    }

    fn on_idle(&mut self, idle: IdleId) {
        let sh = self.sh.clone();
        sh.push(Ev::IdleRun { idle });
        let prev = self.cur_idle.replace(idle);
        let prog = self.idles[idle].prog.clone();
        self.depth += 1;
        for op in &prog.ops {
            if self.poisoned {
                break;
            }
            self.exec(op);
        }
        self.depth -= 1;
        self.cur_idle = prev;
        sh.push(Ev::IdleEnd { idle });
    }

    fn record_insert<S: EventSource + 'static>(
        &mut self,
        id: SrcId,
        via_disp: bool,
        keep: bool,
        res: Result<(RegistrationToken, Option<Dispatcher<'static, S, Ctx>>), (Res, Option<bool>)>,
    ) -> Option<Dispatcher<'static, S, Ctx>> {
        let _ = via_disp;
        match res {
            Ok((tok, disp)) => {
                let ti = self.tokens.len();
                self.tokens.push((tok, id));
                self.srcs[id].tok = Some(ti);
                self.srcs[id].inserted = true;
                self.sh.push(Ev::Inserted { src: id, tok: Some(ti), key: Some(tok.verif_key() as u64), handback_ok: None });
                self.sh.push(Ev::OpRes(Res::Ok));
                if keep {
                    disp
                } else {
                    None
                }
            }
            Err((res, handback)) => {
                self.sh.push(Ev::Inserted { src: id, tok: None, key: None, handback_ok: handback });
                self.sh.push(Ev::OpRes(res));
                None
            }
        }
    }

    /// Insert `source` with `cb`, through insert_source or register_dispatcher.
    fn insert_any<S, F>(&mut self, id: SrcId, source: S, cb: F, via_disp: bool) -> Result<(RegistrationToken, Option<Dispatcher<'static, S, Ctx>>), (Res, Option<bool>)>
    where
        S: EventSource + 'static,
        F: FnMut(S::Event, &mut S::Metadata, &mut Ctx) -> S::Ret + 'static,
    {
        self.insert_any_mode(id, source, cb, via_disp, false)
    }

    /// `moved`: register_dispatcher is given the caller's only handle
    fn insert_any_mode<S, F>(&mut self, id: SrcId, source: S, cb: F, via_disp: bool, moved: bool) -> Result<(RegistrationToken, Option<Dispatcher<'static, S, Ctx>>), (Res, Option<bool>)>
    where
        S: EventSource + 'static,
        F: FnMut(S::Event, &mut S::Metadata, &mut Ctx) -> S::Ret + 'static,
    {
        self.sh.push(Ev::Op(ROp::Insert { src: id, via_disp }));
        let h = self.h();
        if via_disp && moved {
            let d = Dispatcher::new(source, cb);
            return match catch_unwind(AssertUnwindSafe(|| h.register_dispatcher(d))) {
                Ok(Ok(tok)) => Ok((tok, None)),
                // the caller gave its only handle away: nothing to hand back
                Ok(Err(e)) => Err((res_of::<()>(&Err(e)), Some(true))),
                Err(p) => {
                    self.poisoned = true;
                    Err((panic_res(p), None))
                }
            };
        }
        if via_disp {
            let d = Dispatcher::new(source, cb);
            let d2 = d.clone();
            match catch_unwind(AssertUnwindSafe(|| h.register_dispatcher(d2))) {
                Ok(Ok(tok)) => Ok((tok, Some(d))),
                Ok(Err(e)) => {
                    // the caller still owns `d`: the source must be recoverable from it
                    let ok = catch_unwind(AssertUnwindSafe(move || drop(d.into_source_inner()))).is_ok();
                    Err((res_of::<()>(&Err(e)), Some(ok)))
                }
                Err(p) => {
                    self.poisoned = true;
                    Err((panic_res(p), None))
                }
            }
        } else {
            match catch_unwind(AssertUnwindSafe(|| h.insert_source(source, cb))) {
                Ok(Ok(tok)) => Ok((tok, None)),
                Ok(Err(e)) => {
                    let res = res_of::<()>(&Err(e.error));
                    drop(e.inserted);
                    Err((res, Some(true)))
                }
                Err(p) => {
                    self.poisoned = true;
                    Err((panic_res(p), None))
                }
            }
        }
    }

    fn do_insert(&mut self, kind: &Kind, script: &[Prog], via_disp: bool, recycled: Option<(SrcId, OwnedRaw, Option<OwnedRaw>)>) {
        let sh = self.sh.clone();
        match kind {
            Kind::Ping => {
                let id = self.new_src(kind, script, K_PING);
                let (ping, source) = make_ping().expect("make_ping");
                sh.push(Ev::Created { src: id, info: KInfo { kind: kind.clone(), fd: -1, deadline_ns: None, recycled_from: None, children: vec![] } });
                let alive = self.srcs[id].alive.clone();
                let t = Tracked::new(source, id, &sh, &alive);
                let g = CbGuard { id, sh: sh.clone() };
                self.srcs[id].h = Handles::Ping { pings: vec![ping] };
                let r = self.insert_any(id, t, move |(), _: &mut (), ctx: &mut Ctx| {
                    let _ = &g;
                    ctx.on_cb(id, Payload::Ping);
                }, via_disp);
                if let Some(d) = self.record_insert(id, via_disp, via_disp, r) {
                    self.srcs[id].kept = Some(Box::new(d));
                }
            }
            Kind::Chan { bound } => {
                let id = self.new_src(kind, script, K_CHAN);
                let (tx, rx): (Tx, Channel<u8>) = match bound {
                    None => {
                        let (s, r) = channel::channel();
                        (Tx::U(s), r)
                    }
                    Some(b) => {
                        let (s, r) = channel::sync_channel(*b as usize);
                        (Tx::S(s), r)
                    }
                };
                sh.push(Ev::Created { src: id, info: KInfo { kind: kind.clone(), fd: -1, deadline_ns: None, recycled_from: None, children: vec![] } });
                let alive = self.srcs[id].alive.clone();
                let t = Tracked::new(rx, id, &sh, &alive);
                let g = CbGuard { id, sh: sh.clone() };
                self.srcs[id].h = Handles::Chan { tx: vec![tx] };
                let r = self.insert_any(id, t, move |ev: ChEvent<u8>, _: &mut (), ctx: &mut Ctx| {
                    let _ = &g;
                    let p = match ev {
                        ChEvent::Msg(v) => Payload::Msg(v),
                        ChEvent::Closed => Payload::Closed,
                    };
                    ctx.on_cb(id, p);
                }, via_disp);
                if let Some(d) = self.record_insert(id, via_disp, via_disp, r) {
                    self.srcs[id].kept = Some(Box::new(d));
                }
            }
            Kind::Timer { delta_us } => {
                let id = self.new_src(kind, script, K_TIMER);
                let now = Instant::now();
                let (timer, dl) = match delta_us {
                    None => (Timer::from_duration(Duration::MAX), None),
                    Some(d) => {
                        let t = if *d >= 0 { now + Duration::from_micros(*d as u64) } else { now.checked_sub(Duration::from_micros((-*d) as u64)).unwrap_or(now) };
                        (Timer::from_deadline(t), Some(sh.ns(t)))
                    }
                };
                sh.push(Ev::Created { src: id, info: KInfo { kind: kind.clone(), fd: -1, deadline_ns: dl, recycled_from: None, children: vec![] } });
                let alive = self.srcs[id].alive.clone();
                let t = Tracked::new(timer, id, &sh, &alive);
                let g = CbGuard { id, sh: sh.clone() };
                self.srcs[id].h = Handles::Timer { disp: None };
                // timers always go through a kept dispatcher: set_deadline needs access to the source
                let r = self.insert_any(id, t, move |ev: Instant, _: &mut (), ctx: &mut Ctx| {
                    let _ = &g;
                    let ens = ctx.sh.ns(ev);
                    let (_, tr, newd) = ctx.on_cb(id, Payload::Timer(ens));
                    match tr {
                        TRet::Drop => TimeoutAction::Drop,
                        TRet::ToInstant(_) => TimeoutAction::ToInstant(newd.unwrap()),
                        TRet::ToDuration(us) => TimeoutAction::ToDuration(Duration::from_micros(us as u64)),
                        TRet::ToDurationMax => TimeoutAction::ToDuration(Duration::MAX),
                    }
                }, true);
                if let Some(d) = self.record_insert(id, true, true, r) {
                    self.srcs[id].h = Handles::Timer { disp: Some(d) };
                }
            }
            Kind::Gen { fd: fdkind, interest, mode } => {
                let id = self.new_src(kind, script, K_GEN);
                let (own, peer, from) = match recycled {
                    Some((from, own, peer)) => (own, peer, Some(from)),
                    None => {
                        let (own, peer) = match fdkind {
                            FdKind::EventFd => (OwnedRaw(kernel::eventfd_nonblock()), None),
                            FdKind::Shared(k) => {
                                let mut sl = self.shared.0.borrow_mut();
                                let slot = &mut sl[(*k % 2) as usize];
                                if slot.is_none() {
                                    let fd = kernel::eventfd_nonblock();
                                    kernel::no_close_add(fd);
                                    *slot = Some(fd);
                                }
                                (OwnedRaw(slot.unwrap()), None)
                            }
                            FdKind::Sock => {
                                let (a, b) = kernel::socketpair();
                                (OwnedRaw(a), Some(OwnedRaw(b)))
                            }
                            FdKind::PipeR => {
                                let (r, w) = kernel::pipe();
                                (OwnedRaw(r), Some(OwnedRaw(w)))
                            }
                            FdKind::PipeW => {
                                let (r, w) = kernel::pipe();
                                (OwnedRaw(w), Some(OwnedRaw(r)))
                            }
                        };
                        (own, peer, None)
                    }
                };
                let raw = own.0;
                sh.push(Ev::Created { src: id, info: KInfo { kind: kind.clone(), fd: raw, deadline_ns: None, recycled_from: from, children: vec![] } });
                let alive = self.srcs[id].alive.clone();
                sh.push(Ev::Fd { src: id, r: kernel::is_readable(raw), w: kernel::is_writable(raw), h: kernel::is_hup_or_err(raw) });
                let g = Generic::new(own, interest_of(*interest), mode_of(*mode));
                let t = Tracked::new(g, id, &sh, &alive);
                let cg = CbGuard { id, sh: sh.clone() };
                self.srcs[id].h = Handles::Gen { fd: raw, fdkind: *fdkind, peer, disp: None, interest: *interest, mode: *mode };
                let r = self.insert_any(id, t, move |rd: Readiness, _fd: &mut calloop::generic::NoIoDrop<OwnedRaw>, ctx: &mut Ctx| {
                    let _ = &cg;
                    let p = Payload::Ready {
                        r: rd.readable,
                        w: rd.writable,
                        e: rd.error,
                        now_r: kernel::is_readable(raw),
                        now_w: kernel::is_writable(raw),
                        now_h: kernel::is_hup_or_err(raw),
                    };
                    ctx.on_cb(id, p);
                    Ok(PostAction::Continue)
                }, via_disp);
                if let Some(d) = self.record_insert(id, via_disp, via_disp, r) {
                    if let Handles::Gen { disp, .. } = &mut self.srcs[id].h {
                        *disp = Some(d);
                    }
                }
            }
            Kind::BadGen { .. } => {}
            Kind::Comp { children } => {
                let id = self.new_src(kind, script, K_COMP);
                let now = Instant::now();
                let mut slots = vec![];
                let mut keys = vec![];
                let mut pokes = vec![];
                let mut infos = vec![];
                for (i, (ck, transient)) in children.iter().enumerate() {
                    let key = Rc::new(Cell::new(None));
                    let (src, poke, fd, dl) = match ck {
                        CKind::Ping => {
                            let (p, s) = make_ping().expect("make_ping");
                            (ChildSrc::Ping(s), (Some(p), None), -1, None)
                        }
                        CKind::Timer { delta_us } => {
                            let d = *delta_us;
                            let t = if d >= 0 { now + Duration::from_micros(d as u64) } else { now.checked_sub(Duration::from_micros((-d) as u64)).unwrap_or(now) };
                            (ChildSrc::Timer(Timer::from_deadline(t)), (None, None), -1, Some(sh.ns(t)))
                        }
                        CKind::Gen => {
                            let fd = kernel::eventfd_nonblock();
                            // the harness pokes through its own duplicate: the child's fd may be closed (and its number reused) when a transient child leaves
                            let dup = OwnedRaw(kernel::dup(fd));
                            (ChildSrc::Gen(Generic::new(OwnedRaw(fd), Interest::READ, Mode::Level)), (None, Some(dup)), fd, None)
                        }
                        CKind::Bad => {
                            if self.fdslots[3].is_none() {
                                let name = std::ffi::CString::new("vh-regular").unwrap();
                                let m = unsafe { libc::memfd_create(name.as_ptr(), libc::MFD_CLOEXEC) };
                                self.fdslots[3] = Some((OwnedRaw(m), None));
                            }
                            let fd = self.fdslots[3].as_ref().unwrap().0 .0;
                            (ChildSrc::Bad(Generic::new(BorrowedRaw(fd), Interest::READ, Mode::Level)), (None, None), fd, None)
                        }
                    };
                    let ch = CChild { src, owner: id, idx: i as u8, sh: sh.clone(), key: key.clone() };
                    keys.push(key);
                    pokes.push(poke);
                    infos.push((*ck, *transient, fd, dl));
                    slots.push(if *transient { CSlot::Transient(ch.into()) } else { CSlot::Plain(ch) });
                }
                sh.push(Ev::Created { src: id, info: KInfo { kind: kind.clone(), fd: -1, deadline_ns: None, recycled_from: None, children: infos } });
                let alive = self.srcs[id].alive.clone();
                alive.set(true);
                self.srcs[id].h = Handles::Comp { pokes };
                let comp = Comp { id, sh: sh.clone(), children: slots, keys, _guard: SrcGuard { id, sh: sh.clone(), alive } };
                let cg = CbGuard { id, sh: sh.clone() };
                let r = self.insert_any(id, comp, move |(child, ev): (u8, ChildEv), _: &mut (), ctx: &mut Ctx| {
                    let _ = &cg;
                    let inner = match ev {
                        ChildEv::Ping => Payload::Ping,
                        ChildEv::Timer(t) => Payload::Timer(ctx.sh.ns(t)),
                        ChildEv::Ready(rd) => Payload::Ready { r: rd.readable, w: rd.writable, e: rd.error, now_r: false, now_w: false, now_h: false },
                    };
                    let (post, tret, _) = ctx.on_cb(id, Payload::Child { child, inner: Box::new(inner) });
                    ctx.sh.forced.set(None);
                    ctx.sh.child_forced.set(Some((id, child, post)));
                    tret
                }, via_disp);
                if let Some(d) = self.record_insert(id, via_disp, via_disp, r) {
                    self.srcs[id].kept = Some(Box::new(d));
                }
            }
            Kind::Stream => {
                let id = self.new_src(kind, script, K_STREAM);
                let st = Rc::new(StreamShared { q: RefCell::new(Default::default()), ended: Cell::new(false), yields: Cell::new(0), waker: RefCell::new(None) });
                let src = calloop::stream::StreamSource::new(HistStream(st.clone(), id, sh.clone())).expect("StreamSource");
                sh.push(Ev::Created { src: id, info: KInfo { kind: kind.clone(), fd: -1, deadline_ns: None, recycled_from: None, children: vec![] } });
                let alive = self.srcs[id].alive.clone();
                let t = Tracked::new(src, id, &sh, &alive);
                let g = CbGuard { id, sh: sh.clone() };
                self.srcs[id].h = Handles::Stream { st };
                let r = self.insert_any(id, t, move |ev: Option<u8>, _: &mut (), ctx: &mut Ctx| {
                    let _ = &g;
                    ctx.on_cb(id, match ev {
                        Some(v) => Payload::Item(v),
                        None => Payload::StreamEnd,
                    });
                }, via_disp);
                if let Some(d) = self.record_insert(id, via_disp, via_disp, r) {
                    self.srcs[id].kept = Some(Box::new(d));
                }
            }
            Kind::Exec => {
                let id = self.new_src(kind, script, K_EXEC);
                let (exec, sched) = calloop::futures::executor::<u32>().expect("executor");
                sh.push(Ev::Created { src: id, info: KInfo { kind: kind.clone(), fd: -1, deadline_ns: None, recycled_from: None, children: vec![] } });
                let alive = self.srcs[id].alive.clone();
                let t = Tracked::new(exec, id, &sh, &alive);
                let g = CbGuard { id, sh: sh.clone() };
                self.srcs[id].h = Handles::Exec { sched: vec![sched] };
                let r = self.insert_any(id, t, move |task: u32, _: &mut (), ctx: &mut Ctx| {
                    let _ = &g;
                    let val = ctx.tasks.get(task as usize).map_or(0, |t| t.val);
                    ctx.on_cb(id, Payload::Out { task: task as usize, val });
                }, via_disp);
                if let Some(d) = self.record_insert(id, via_disp, via_disp, r) {
                    self.srcs[id].kept = Some(Box::new(d));
                }
            }
            Kind::Probe { subs, lifecycle, synthetic, fail_reg } => {
                let id = self.new_src(kind, script, K_PROBE);
                let mut pings = vec![];
                let mut sources = vec![];
                for _ in 0..(*subs).max(1) {
                    let (p, s) = make_ping().expect("make_ping");
                    pings.push(p);
                    sources.push(s);
                }
                sh.push(Ev::Created { src: id, info: KInfo { kind: kind.clone(), fd: -1, deadline_ns: None, recycled_from: None, children: vec![] } });
                let alive = self.srcs[id].alive.clone();
                alive.set(true);
                let fail = Rc::new(RefCell::new(fail_reg.map(FailStep::Register)));
                let n = sources.len();
                self.srcs[id].h = Handles::Probe { pings, fail: fail.clone() };
                let cg = CbGuard { id, sh: sh.clone() };
                let cb = move |(sub, synthetic): (u8, bool), _: &mut (), ctx: &mut Ctx| {
                    let _ = &cg;
                    ctx.on_cb(id, Payload::Probe { sub, synthetic });
                };
                if *lifecycle {
                    let p: Probe<true> = Probe {
                        id,
                        sh: sh.clone(),
                        subs: sources,
                        toks: vec![None; n],
                        synth_tok: None,
                        synthetic: *synthetic,
                        fail,
                        _guard: SrcGuard { id, sh: sh.clone(), alive },
                    };
                    let r = self.insert_any(id, p, cb, via_disp);
                    if let Some(d) = self.record_insert(id, via_disp, via_disp, r) {
                        self.srcs[id].kept = Some(Box::new(d));
                    }
                } else {
                    let p: Probe<false> = Probe {
                        id,
                        sh: sh.clone(),
                        subs: sources,
                        toks: vec![None; n],
                        synth_tok: None,
                        synthetic: None,
                        fail,
                        _guard: SrcGuard { id, sh: sh.clone(), alive },
                    };
                    let r = self.insert_any(id, p, cb, via_disp);
                    if let Some(d) = self.record_insert(id, via_disp, via_disp, r) {
                        self.srcs[id].kept = Some(Box::new(d));
                    }
                }
            }
        }
    }

    fn tok_op(&mut self, which: u8, tok: u16) {
        let Some(ti) = pick(tok, self.tokens.len()) else { return };
        let (token, owner) = self.tokens[ti];
        let running = self.sh.cur_proc.get() == Some(owner);
        let h = self.h();
        match which {
            0 => {
                self.sh.push(Ev::Op(ROp::Remove { tok: ti }));
                let r = catch_unwind(AssertUnwindSafe(|| h.remove(token)));
                if self.srcs[owner].inserted {
                    self.srcs[owner].inserted = false;
                }
                self.finish_unit(r);
            }
            1 => {
                self.sh.push(Ev::Op(ROp::Disable { tok: ti }));
                let r = catch_unwind(AssertUnwindSafe(|| h.disable(&token)));
                self.finish_res(r);
            }
            2 => {
                // documented exclusion: enable() of the source whose callback is running
                if running {
                    return;
                }
                self.sh.push(Ev::Op(ROp::Enable { tok: ti }));
                let r = catch_unwind(AssertUnwindSafe(|| h.enable(&token)));
                self.finish_res(r);
            }
            _ => {
                self.sh.push(Ev::Op(ROp::Update { tok: ti }));
                let r = catch_unwind(AssertUnwindSafe(|| h.update(&token)));
                self.finish_res(r);
            }
        }
    }

    fn finish_res(&mut self, r: std::thread::Result<calloop::Result<()>>) {
        match r {
            Ok(r) => self.sh.push(Ev::OpRes(res_of(&r))),
            Err(p) => {
                self.poisoned = true;
                self.sh.push(Ev::OpRes(panic_res(p)));
            }
        }
    }
    fn finish_unit(&mut self, r: std::thread::Result<()>) {
        match r {
            Ok(()) => self.sh.push(Ev::OpRes(Res::Ok)),
            Err(p) => {
                self.poisoned = true;
                self.sh.push(Ev::OpRes(panic_res(p)));
            }
        }
    }

    fn probe_fd(&self, id: SrcId) {
        if let Handles::Gen { fd, .. } = &self.srcs[id].h {
            if self.srcs[id].alive.get() {
                self.sh.push(Ev::Fd { src: id, r: kernel::is_readable(*fd), w: kernel::is_writable(*fd), h: kernel::is_hup_or_err(*fd) });
            }
        }
    }

    /// Execute one op (top level, inside a callback or inside an idle).
    pub fn exec(&mut self, op: &Op) {
        let sh = self.sh.clone();
        match op {
            Op::Insert { kind, script, via_disp } => {
                if self.srcs.len() < 48 {
                    self.do_insert(kind, script, *via_disp, None);
                }
            }
            Op::Remove { tok } => self.tok_op(0, *tok),
            Op::Disable { tok } => self.tok_op(1, *tok),
            Op::Enable { tok } => self.tok_op(2, *tok),
            Op::Update { tok } => self.tok_op(3, *tok),
            Op::Ping { src } => {
                let Some(i) = pick(*src, self.by_kind[K_PING].len()) else { return };
                let id = self.by_kind[K_PING][i];
                if let Handles::Ping { pings } = &self.srcs[id].h {
                    if let Some(p) = pings.first() {
                        sh.push(Ev::Op(ROp::Ping { src: id }));
                        p.ping();
                        sh.push(Ev::OpRes(Res::Ok));
                    }
                }
            }
            Op::CloneHandle { src } => {
                let Some(i) = pick(*src, self.by_kind[K_PING].len()) else { return };
                let id = self.by_kind[K_PING][i];
                if let Handles::Ping { pings } = &mut self.srcs[id].h {
                    if let Some(p) = pings.first().cloned() {
                        if pings.len() < 4 {
                            sh.push(Ev::Op(ROp::CloneHandle { src: id }));
                            pings.push(p);
                            sh.push(Ev::OpRes(Res::Ok));
                        }
                    }
                }
            }
            Op::DropHandle { src } => {
                let Some(i) = pick(*src, self.by_kind[K_PING].len()) else { return };
                let id = self.by_kind[K_PING][i];
                if let Handles::Ping { pings } = &mut self.srcs[id].h {
                    if let Some(p) = pings.pop() {
                        sh.push(Ev::Op(ROp::DropHandle { src: id, remaining: pings.len() as u32 }));
                        drop(p);
                        sh.push(Ev::OpRes(Res::Ok));
                    }
                }
            }
            Op::ProbePing { src, sub } => {
                let Some(i) = pick(*src, self.by_kind[K_PROBE].len()) else { return };
                let id = self.by_kind[K_PROBE][i];
                if let Handles::Probe { pings, .. } = &self.srcs[id].h {
                    let s = (*sub as usize) % pings.len();
                    sh.push(Ev::Op(ROp::ProbePing { src: id, sub: s as u8 }));
                    pings[s].ping();
                    sh.push(Ev::OpRes(Res::Ok));
                }
            }
            Op::Send { src, val } => {
                let Some(i) = pick(*src, self.by_kind[K_CHAN].len()) else { return };
                let id = self.by_kind[K_CHAN][i];
                if let Handles::Chan { tx } = &self.srcs[id].h {
                    if let Some(t) = tx.first() {
                        sh.push(Ev::Op(ROp::Send { src: id, val: *val }));
                        let r = match t {
                            Tx::U(s) => match s.send(*val) {
                                Ok(()) => SendRes::Ok,
                                Err(_) => SendRes::Disconnected,
                            },
                            Tx::S(s) => match s.try_send(*val) {
                                Ok(()) => SendRes::Ok,
                                Err(std::sync::mpsc::TrySendError::Full(_)) => SendRes::Full,
                                Err(std::sync::mpsc::TrySendError::Disconnected(_)) => SendRes::Disconnected,
                            },
                        };
                        sh.push(Ev::SendRes { src: id, res: r });
                        sh.push(Ev::OpRes(Res::Ok));
                    }
                }
            }
            Op::CloneSender { src } => {
                let Some(i) = pick(*src, self.by_kind[K_CHAN].len()) else { return };
                let id = self.by_kind[K_CHAN][i];
                if let Handles::Chan { tx } = &mut self.srcs[id].h {
                    if tx.len() < 4 {
                        let c = match tx.first() {
                            Some(Tx::U(s)) => Some(Tx::U(s.clone())),
                            Some(Tx::S(s)) => Some(Tx::S(s.clone())),
                            None => None,
                        };
                        if let Some(c) = c {
                            sh.push(Ev::Op(ROp::CloneSender { src: id }));
                            tx.push(c);
                            sh.push(Ev::OpRes(Res::Ok));
                        }
                    }
                }
            }
            Op::DropSender { src } => {
                let Some(i) = pick(*src, self.by_kind[K_CHAN].len()) else { return };
                let id = self.by_kind[K_CHAN][i];
                if let Handles::Chan { tx } = &mut self.srcs[id].h {
                    if let Some(t) = tx.pop() {
                        sh.push(Ev::Op(ROp::DropSender { src: id, remaining: tx.len() as u32 }));
                        drop(t);
                        sh.push(Ev::OpRes(Res::Ok));
                    }
                }
            }
            Op::PeerWrite { src, n } => {
                let Some(i) = pick(*src, self.by_kind[K_GEN].len()) else { return };
                let id = self.by_kind[K_GEN][i];
                if !self.srcs[id].alive.get() {
                    return;
                }
                if let Handles::Gen { fd, fdkind, peer, .. } = &self.srcs[id].h {
                    let n = *n as u32 + 1;
                    let wrote = match fdkind {
                        FdKind::EventFd | FdKind::Shared(_) => kernel::eventfd_write(*fd, n as u64),
                        FdKind::Sock | FdKind::PipeR => match peer {
                            Some(p) => kernel::raw_write(p.0, &vec![0x5a; n as usize]) > 0,
                            None => false,
                        },
                        FdKind::PipeW => false,
                    };
                    if wrote {
                        sh.push(Ev::Op(ROp::PeerWrite { src: id, n }));
                        sh.push(Ev::OpRes(Res::Ok));
                        self.probe_fd(id);
                    }
                }
            }
            Op::OwnRead { src, n } => {
                let Some(i) = pick(*src, self.by_kind[K_GEN].len()) else { return };
                let id = self.by_kind[K_GEN][i];
                if !self.srcs[id].alive.get() {
                    return;
                }
                if let Handles::Gen { fd, fdkind, .. } = &self.srcs[id].h {
                    let n = *n as u32 + 1;
                    let got = match fdkind {
                        FdKind::EventFd | FdKind::Shared(_) => kernel::eventfd_read(*fd).is_some(),
                        FdKind::Sock | FdKind::PipeR => {
                            let mut buf = vec![0u8; n as usize];
                            kernel::raw_read(*fd, &mut buf) > 0
                        }
                        FdKind::PipeW => false,
                    };
                    if got {
                        sh.push(Ev::Op(ROp::OwnRead { src: id, n }));
                        sh.push(Ev::OpRes(Res::Ok));
                        self.probe_fd(id);
                    }
                }
            }
            Op::PeerClose { src } => {
                let Some(i) = pick(*src, self.by_kind[K_GEN].len()) else { return };
                let id = self.by_kind[K_GEN][i];
                if let Handles::Gen { peer, .. } = &mut self.srcs[id].h {
                    if let Some(p) = peer.take() {
                        sh.push(Ev::Op(ROp::PeerClose { src: id }));
                        drop(p);
                        sh.push(Ev::OpRes(Res::Ok));
                        self.probe_fd(id);
                    }
                }
            }
            Op::CompPoke { src, child } => {
                let Some(i) = pick(*src, self.by_kind[K_COMP].len()) else { return };
                let id = self.by_kind[K_COMP][i];
                if !self.srcs[id].alive.get() {
                    return;
                }
                if let Handles::Comp { pokes } = &self.srcs[id].h {
                    let c = (*child as usize) % pokes.len();
                    match &pokes[c] {
                        (Some(p), _) => {
                            sh.push(Ev::Op(ROp::CompPoke { src: id, child: c as u8 }));
                            p.ping();
                            sh.push(Ev::OpRes(Res::Ok));
                        }
                        (None, Some(fd)) => {
                            sh.push(Ev::Op(ROp::CompPoke { src: id, child: c as u8 }));
                            kernel::eventfd_write(fd.0, 1);
                            sh.push(Ev::OpRes(Res::Ok));
                        }
                        _ => {}
                    }
                }
            }
            Op::SetDeadline { src, delta_us } => {
                let Some(i) = pick(*src, self.by_kind[K_TIMER].len()) else { return };
                let id = self.by_kind[K_TIMER][i];
                // documented exclusion: as_source_mut on the source whose callback is running
                if sh.cur_proc.get() == Some(id) {
                    return;
                }
                let Some(ti) = self.srcs[id].tok else { return };
                if let Handles::Timer { disp: Some(d) } = &self.srcs[id].h {
                    let now = Instant::now();
                    let d_us = *delta_us;
                    let t = if d_us >= 0 { now + Duration::from_micros(d_us as u64) } else { now.checked_sub(Duration::from_micros((-d_us) as u64)).unwrap_or(now) };
                    sh.push(Ev::Op(ROp::SetDeadline { src: id, deadline_ns: sh.ns(t) }));
                    d.as_source_mut().inner.set_deadline(t);
                    sh.push(Ev::OpRes(Res::Ok));
                    // documented protocol: update the registration after changing the source
                    let (token, _) = self.tokens[ti];
                    let h = self.h();
                    sh.push(Ev::Op(ROp::Update { tok: ti }));
                    let r = catch_unwind(AssertUnwindSafe(|| h.update(&token)));
                    self.finish_res(r);
                }
            }
            Op::SetInterest { src, interest, mode } => {
                let Some(i) = pick(*src, self.by_kind[K_GEN].len()) else { return };
                let id = self.by_kind[K_GEN][i];
                if sh.cur_proc.get() == Some(id) {
                    return;
                }
                let Some(ti) = self.srcs[id].tok else { return };
                if let Handles::Gen { disp: Some(d), interest: wi, mode: wm, .. } = &mut self.srcs[id].h {
                    sh.push(Ev::Op(ROp::SetInterest { src: id, interest: *interest & 3, mode: *mode % 3 }));
                    {
                        let mut s = d.as_source_mut();
                        s.inner.interest = interest_of(*interest);
                        s.inner.mode = mode_of(*mode);
                    }
                    *wi = *interest & 3;
                    *wm = *mode % 3;
                    sh.push(Ev::OpRes(Res::Ok));
                    let (token, _) = self.tokens[ti];
                    let h = self.h();
                    sh.push(Ev::Op(ROp::Update { tok: ti }));
                    let r = catch_unwind(AssertUnwindSafe(|| h.update(&token)));
                    self.finish_res(r);
                }
            }
            Op::Schedule { src, plan } => {
                if self.tasks.len() >= 64 {
                    return;
                }
                let Some(i) = pick(*src, self.by_kind[K_EXEC].len()) else { return };
                let id = self.by_kind[K_EXEC][i];
                let Handles::Exec { sched } = &self.srcs[id].h else { return };
                let Some(sc) = sched.last().cloned() else { return };
                let task = self.tasks.len();
                let waker = Rc::new(RefCell::new(None));
                self.tasks.push(WTask { src: id, val: plan.val, waker: waker.clone() });
                let pendings = plan.pendings.min(3);
                sh.push(Ev::Op(ROp::Schedule { src: id, task, pendings, self_wake: plan.self_wake, val: plan.val }));
                let fut = HistFut { task, pendings, self_wake: plan.self_wake, sh: sh.clone(), waker };
                match catch_unwind(AssertUnwindSafe(move || sc.schedule(fut))) {
                    Ok(Ok(())) => sh.push(Ev::OpRes(Res::Ok)),
                    Ok(Err(_)) => sh.push(Ev::OpRes(Res::OtherErr("ExecutorDestroyed".into()))),
                    Err(p) => {
                        self.poisoned = true;
                        sh.push(Ev::OpRes(panic_res(p)));
                    }
                }
            }
            Op::Wake { task } => {
                let Some(i) = pick(*task, self.tasks.len()) else { return };
                let w = self.tasks[i].waker.borrow().clone();
                let Some(w) = w else { return };
                sh.push(Ev::Op(ROp::Wake { task: i }));
                let r = catch_unwind(AssertUnwindSafe(move || w.wake()));
                self.finish_unit(r);
            }
            Op::StreamPush { src, val } => {
                let Some(i) = pick(*src, self.by_kind[K_STREAM].len()) else { return };
                let id = self.by_kind[K_STREAM][i];
                let Handles::Stream { st } = &self.srcs[id].h else { return };
                if st.ended.get() || st.q.borrow().len() >= 64 {
                    return;
                }
                sh.push(Ev::Op(ROp::StreamPush { src: id, val: *val }));
                st.q.borrow_mut().push_back(*val);
                let w = st.waker.borrow().clone();
                let r = catch_unwind(AssertUnwindSafe(move || {
                    if let Some(w) = w {
                        w.wake();
                    }
                }));
                self.finish_unit(r);
            }
            Op::StreamYield { src } => {
                let Some(i) = pick(*src, self.by_kind[K_STREAM].len()) else { return };
                let id = self.by_kind[K_STREAM][i];
                let Handles::Stream { st } = &self.srcs[id].h else { return };
                if st.yields.get() >= 2 {
                    return;
                }
                sh.push(Ev::Op(ROp::StreamYield { src: id }));
                st.yields.set(st.yields.get() + 1);
                sh.push(Ev::OpRes(Res::Ok));
            }
            Op::StreamEnd { src } => {
                let Some(i) = pick(*src, self.by_kind[K_STREAM].len()) else { return };
                let id = self.by_kind[K_STREAM][i];
                let Handles::Stream { st } = &self.srcs[id].h else { return };
                if st.ended.get() {
                    return;
                }
                sh.push(Ev::Op(ROp::StreamEnd { src: id }));
                st.ended.set(true);
                let w = st.waker.borrow().clone();
                let r = catch_unwind(AssertUnwindSafe(move || {
                    if let Some(w) = w {
                        w.wake();
                    }
                }));
                self.finish_unit(r);
            }
            Op::DropScheduler { src } => {
                let Some(i) = pick(*src, self.by_kind[K_EXEC].len()) else { return };
                let id = self.by_kind[K_EXEC][i];
                if let Handles::Exec { sched } = &mut self.srcs[id].h {
                    if let Some(s) = sched.pop() {
                        sh.push(Ev::Op(ROp::DropScheduler { src: id }));
                        drop(s);
                        sh.push(Ev::OpRes(Res::Ok));
                    }
                }
            }
            Op::InsertIdle { prog } => {
                if self.idles.len() >= 24 {
                    return;
                }
                let idle = self.idles.len();
                sh.push(Ev::Op(ROp::InsertIdle { idle }));
                let g = IdleGuard { id: idle, sh: sh.clone() };
                let h = self.h();
                self.idles.push(WIdle { handle: None, prog: (**prog).clone() });
                let handle = h.insert_idle(move |ctx: &mut Ctx| {
                    let _ = &g;
                    ctx.on_idle(idle);
                });
                self.idles[idle].handle = Some(handle);
                sh.push(Ev::OpRes(Res::Ok));
            }
            Op::CancelIdle { idle } => {
                let Some(i) = pick(*idle, self.idles.len()) else { return };
                // cancelling the idle that is running from inside itself is outside the statement
                if self.cur_idle == Some(i) {
                    return;
                }
                if let Some(h) = self.idles[i].handle.take() {
                    sh.push(Ev::Op(ROp::CancelIdle { idle: i }));
                    let r = catch_unwind(AssertUnwindSafe(|| h.cancel()));
                    self.finish_unit(r);
                }
            }
            Op::Stop => {
                if let Some(sig) = &self.signal {
                    sh.push(Ev::Op(ROp::Stop));
                    sig.stop();
                    sh.push(Ev::OpRes(Res::Ok));
                }
            }
            Op::Wakeup => {
                if let Some(sig) = &self.signal {
                    sh.push(Ev::Op(ROp::Wakeup));
                    sig.wakeup();
                    sh.push(Ev::OpRes(Res::Ok));
                }
            }
            Op::DropIdleHandle { idle } => {
                let Some(i) = pick(*idle, self.idles.len()) else { return };
                if let Some(h) = self.idles[i].handle.take() {
                    sh.push(Ev::Op(ROp::DropIdleHandle { idle: i }));
                    drop(h);
                    sh.push(Ev::OpRes(Res::Ok));
                }
            }
            Op::FailNext { src, step } => {
                let Some(i) = pick(*src, self.by_kind[K_PROBE].len()) else { return };
                let id = self.by_kind[K_PROBE][i];
                if let Handles::Probe { fail, .. } = &self.srcs[id].h {
                    sh.push(Ev::Op(ROp::FailNext { src: id, step: *step }));
                    *fail.borrow_mut() = Some(*step);
                    sh.push(Ev::OpRes(Res::Ok));
                }
            }
            Op::Recycle { src } => {
                if self.depth > 0 {
                    return;
                }
                let Some(i) = pick(*src, self.by_kind[K_GEN].len()) else { return };
                let id = self.by_kind[K_GEN][i];
                if self.srcs[id].inserted || !self.srcs[id].alive.get() {
                    return;
                }
                let (kind, script) = (self.srcs[id].kind.clone(), self.srcs[id].script.clone());
                if let Handles::Gen { disp, peer, .. } = &mut self.srcs[id].h {
                    let Some(d) = disp.take() else { return };
                    let peer = peer.take();
                    sh.push(Ev::Op(ROp::Unwrap { src: id }));
                    match catch_unwind(AssertUnwindSafe(move || d.into_source_inner())) {
                        Ok(tracked) => {
                            let Tracked { inner, _guard, .. } = tracked;
                            let own = inner.unwrap();
                            drop(_guard);
                            sh.push(Ev::Released { src: id, ok: true });
                            sh.push(Ev::OpRes(Res::Ok));
                            self.do_insert(&kind, &script, true, Some((id, own, peer)));
                        }
                        Err(p) => {
                            crate::panics::clear();
                            let _ = p;
                            sh.push(Ev::Released { src: id, ok: false });
                            sh.push(Ev::OpRes(Res::Ok));
                        }
                    }
                }
            }
            Op::Adapt { fd, blocking } => {
                if self.asyncs.len() >= 12 {
                    return;
                }
                let slot = (*fd % 4) as usize;
                if self.fdslots[slot].is_none() {
                    self.fdslots[slot] = Some(if slot == 3 {
                        let name = std::ffi::CString::new("vh-regular").unwrap();
                        let m = unsafe { libc::memfd_create(name.as_ptr(), libc::MFD_CLOEXEC) };
                        (OwnedRaw(m), None)
                    } else {
                        let (a, b) = kernel::socketpair();
                        (OwnedRaw(a), Some(OwnedRaw(b)))
                    });
                }
                let raw = self.fdslots[slot].as_ref().unwrap().0 .0;
                let live_before = self.asyncs.iter().any(|a| a.slot as usize == slot && (a.adapter.is_some() || a.given_to.map_or(false, |o| sh.bags.borrow().contains_key(&o))));
                if !live_before {
                    kernel::set_nonblocking(raw, !*blocking);
                }
                let nb_before = kernel::is_nonblocking(raw);
                sh.push(Ev::Op(ROp::Adapt { slot: slot as u8, fd: raw, live_before, regular_file: slot == 3, nonblocking_before: nb_before }));
                let h = self.h();
                let r = catch_unwind(AssertUnwindSafe(|| h.adapt_io(BorrowedRaw(raw))));
                match r {
                    Ok(Ok(a)) => {
                        let idx = self.asyncs.len();
                        self.asyncs.push(WAsync { adapter: Some(a), slot: slot as u8, fd: raw, wakes: Default::default(), given_to: None });
                        sh.push(Ev::Adapted { a: Some(idx), nonblocking_after: kernel::is_nonblocking(raw) });
                        sh.push(Ev::OpRes(Res::Ok));
                    }
                    Ok(Err(e)) => {
                        sh.push(Ev::Adapted { a: None, nonblocking_after: kernel::is_nonblocking(raw) });
                        sh.push(Ev::OpRes(res_of::<()>(&Err(e))));
                    }
                    Err(p) => {
                        self.poisoned = true;
                        sh.push(Ev::OpRes(panic_res(p)));
                    }
                }
            }
            Op::AsyncDrop { a } | Op::AsyncIntoInner { a } => {
                let Some(i) = pick(*a, self.asyncs.len()) else { return };
                let Some(ad) = self.asyncs[i].adapter.take() else { return };
                let into_inner = matches!(op, Op::AsyncIntoInner { .. });
                let fd = self.asyncs[i].fd;
                sh.push(Ev::Op(ROp::AsyncRelease { a: i, fd, into_inner }));
                let r = catch_unwind(AssertUnwindSafe(move || {
                    if into_inner {
                        let _ = ad.into_inner();
                    } else {
                        drop(ad);
                    }
                }));
                sh.push(Ev::AsyncReleased { a: i, nonblocking_after: kernel::is_nonblocking(fd) });
                self.finish_unit(r);
            }
            Op::AsyncWait { a, write } => {
                let Some(i) = pick(*a, self.asyncs.len()) else { return };
                if self.asyncs[i].adapter.is_none() {
                    return;
                }
                let write = *write;
                sh.push(Ev::Op(ROp::AsyncWait { a: i, write }));
                let waker = std::task::Waker::from(self.asyncs[i].wakes.clone());
                let ad = self.asyncs[i].adapter.as_mut().unwrap();
                let r = catch_unwind(AssertUnwindSafe(move || {
                    use std::future::Future;
                    let mut cx = std::task::Context::from_waker(&waker);
                    if write {
                        let mut f = ad.writable();
                        std::pin::Pin::new(&mut f).poll(&mut cx).is_ready()
                    } else {
                        let mut f = ad.readable();
                        std::pin::Pin::new(&mut f).poll(&mut cx).is_ready()
                    }
                }));
                match r {
                    Ok(ready) => {
                        sh.push(Ev::AsyncPolled { a: i, ready });
                        sh.push(Ev::OpRes(Res::Ok));
                    }
                    Err(p) => {
                        self.poisoned = true;
                        sh.push(Ev::OpRes(panic_res(p)));
                    }
                }
            }
            Op::AsyncGive { a, tok } => {
                let Some(i) = pick(*a, self.asyncs.len()) else { return };
                let Some(ti) = pick(*tok, self.tokens.len()) else { return };
                let owner = self.tokens[ti].1;
                // only to a source whose callback is still owned by the loop (or a kept dispatcher) and not running
                if !self.srcs[owner].inserted || self.sh.cur_proc.get() == Some(owner) || self.sh.cb_dropped.borrow().contains(&owner) {
                    return;
                }
                let Some(ad) = self.asyncs[i].adapter.take() else { return };
                sh.push(Ev::Op(ROp::AsyncGive { a: i, src: owner }));
                self.asyncs[i].given_to = Some(owner);
                sh.bags.borrow_mut().entry(owner).or_default().push(Box::new(ad));
                sh.push(Ev::OpRes(Res::Ok));
            }
            Op::AsyncPeerWrite { a, n } => {
                let Some(i) = pick(*a, self.asyncs.len()) else { return };
                let slot = self.asyncs[i].slot as usize;
                let Some((_, Some(peer))) = &self.fdslots[slot] else { return };
                sh.push(Ev::Op(ROp::AsyncIo { a: i }));
                let buf = [0x5au8; 8];
                kernel::raw_write(peer.0, &buf[..(*n as usize % 8) + 1]);
                sh.push(Ev::OpRes(Res::Ok));
            }
            Op::AsyncOwnRead { a } => {
                let Some(i) = pick(*a, self.asyncs.len()) else { return };
                let slot = self.asyncs[i].slot as usize;
                let Some((own, Some(_))) = &self.fdslots[slot] else { return };
                if !kernel::is_nonblocking(own.0) {
                    return;
                }
                sh.push(Ev::Op(ROp::AsyncIo { a: i }));
                let mut buf = [0u8; 256];
                while kernel::raw_read(own.0, &mut buf) > 0 {}
                sh.push(Ev::OpRes(Res::Ok));
            }
            Op::InsertBad { which, mode, give } => {
                if self.srcs.len() >= 48 {
                    return;
                }
                let which = *which % 3;
                let raw = match which {
                    0 => 1 << 20,
                    1 => {
                        if self.fdslots[3].is_none() {
                            let name = std::ffi::CString::new("vh-regular").unwrap();
                            let m = unsafe { libc::memfd_create(name.as_ptr(), libc::MFD_CLOEXEC) };
                            self.fdslots[3] = Some((OwnedRaw(m), None));
                        }
                        self.fdslots[3].as_ref().unwrap().0 .0
                    }
                    _ => {
                        // duplicate registration: the fd of a live adapter
                        match self.asyncs.iter().find(|a| a.adapter.is_some()) {
                            Some(a) => a.fd,
                            None => return,
                        }
                    }
                };
                let kind = Kind::BadGen { which };
                let id = self.new_src(&kind, &[], K_GEN_BAD);
                sh.push(Ev::Created { src: id, info: KInfo { kind: kind.clone(), fd: raw, deadline_ns: None, recycled_from: None, children: vec![] } });
                let alive = self.srcs[id].alive.clone();
                if *give {
                    // the closure of the source about to be rejected owns a live adapter (dropped wherever calloop drops it)
                    if let Some(i) = self.asyncs.iter().position(|a| a.adapter.is_some()) {
                        let ad = self.asyncs[i].adapter.take().unwrap();
                        sh.push(Ev::Op(ROp::AsyncGive { a: i, src: id }));
                        self.asyncs[i].given_to = Some(id);
                        sh.bags.borrow_mut().entry(id).or_default().push(Box::new(ad));
                        sh.push(Ev::OpRes(Res::Ok));
                    }
                }
                let g = Generic::new(BorrowedRaw(raw), Interest::READ, Mode::Level);
                let t = Tracked::new(g, id, &sh, &alive);
                let cg = CbGuard { id, sh: sh.clone() };
                let mode = *mode % 3;
                let r = self.insert_any_mode(id, t, move |_rd: Readiness, _fd: &mut calloop::generic::NoIoDrop<BorrowedRaw>, ctx: &mut Ctx| {
                    let _ = &cg;
                    ctx.on_cb(id, Payload::Ready { r: true, w: false, e: false, now_r: false, now_w: false, now_h: false });
                    Ok(PostAction::Continue)
                }, mode != 0, mode == 2);
                let _ = self.record_insert(id, mode != 0, false, r);
            }
            Op::Dispatch { .. } => {}
        }
    }

    /// Ground-truth probes taken right before a dispatch.
    fn pre_dispatch_probes(&mut self) {
        for (i, a) in self.asyncs.iter().enumerate() {
            if a.adapter.is_some() || a.given_to.map_or(false, |o| self.sh.bags.borrow().contains_key(&o)) {
                self.sh.push(Ev::AsyncFd { a: i, r: kernel::is_readable(a.fd), w: kernel::is_writable(a.fd) });
            }
        }
        for k in 0..self.by_kind[K_GEN].len() {
            let id = self.by_kind[K_GEN][k];
            self.probe_fd(id);
        }
        for k in 0..self.by_kind[K_TIMER].len() {
            let id = self.by_kind[K_TIMER][k];
            if let Handles::Timer { disp: Some(d) } = &self.srcs[id].h {
                let dl = d.as_source_ref().inner.current_deadline().map(|t| self.sh.ns(t));
                self.sh.push(Ev::TimerNow { src: id, deadline_ns: dl });
            }
        }
    }

    fn snapshot(&self, epoll: bool) {
        if let Some(h) = &self.handle {
            let s = h.verif_stats();
            self.sh.push(Ev::Stats {
                slots: s.slots,
                occupied: s.occupied_slots,
                lifecycle_len: s.lifecycle_len,
                lifecycle_distinct: s.lifecycle_distinct,
                heap: s.timer_heap_len,
                idles: s.idles_len,
                pending_continue: s.pending_action_is_continue,
            });
        }
        if epoll {
            let t = kernel::epoll_table(self.epfd);
            self.sh.push(Ev::Epoll { entries: t.into_iter().map(|e| (e.tfd, e.events, e.data)).collect() });
        }
    }
}

/// Run one history against a fresh real loop; returns the recorded trace.
pub fn run_history(case: &HistCase, opts: Opts) -> Vec<Ev> {
    crate::panics::clear();
    let sh = Shared::new();
    sh.fault_at.set(opts.fault_at);
    // declared first, dropped last: the shared eventfds outlive every wrapper around them
    let shared = Rc::new(SharedFds(RefCell::new([None, None])));
    let mut el: EventLoop<'static, Ctx> = EventLoop::try_new().expect("EventLoop::try_new");
    let epfd = el.as_raw_fd();
    let epoll_each = opts.epoll_each_step;
    let mut ctx = Ctx {
        fdslots: [None, None, None, None],
        shared: shared.clone(),
        asyncs: Vec::new(),
        sh: sh.clone(),
        handle: Some(el.handle()),
        srcs: Vec::new(),
        tokens: Vec::new(),
        idles: Vec::new(),
        cur_idle: None,
        depth: 0,
        by_kind: Default::default(),
        poisoned: false,
        epfd,
        opts,
        signal: Some(el.get_signal()),
        callbacks: 0,
        exhausted: false,
        tasks: Vec::new(),
    };
    // the two fds the polling crate registers for itself show up first
    ctx.snapshot(true);
    for op in &case.ops {
        if ctx.poisoned {
            break;
        }
        match op {
            Op::Dispatch { timeout_ms } => {
                ctx.pre_dispatch_probes();
                // a "long" dispatch really waits only when a synthetic event is expected to make the wait non-blocking
                let eff_ms: u32 = if *timeout_ms >= super::ops::LONG_DISPATCH_MS {
                    let synthetic_expected = ctx.srcs.iter().any(|s| s.inserted && matches!(s.kind, Kind::Probe { lifecycle: true, synthetic: Some(_), .. }));
                    if synthetic_expected { *timeout_ms as u32 } else { 0 }
                } else {
                    *timeout_ms as u32
                };
                sh.push(Ev::DispBegin { t_ns: sh.now_ns(), timeout_ms: eff_ms });
                let to = Duration::from_millis(eff_ms as u64);
                let r = catch_unwind(AssertUnwindSafe(|| el.dispatch(Some(to), &mut ctx)));
                let res = match r {
                    Ok(r) => res_of(&r),
                    Err(p) => {
                        ctx.poisoned = true;
                        panic_res(p)
                    }
                };
                sh.cur_proc.set(None);
                ctx.cur_idle = None;
                ctx.depth = 0;
                for (i, a) in ctx.asyncs.iter().enumerate() {
                    sh.push(Ev::AsyncWakes { a: i, n: a.wakes.0.load(std::sync::atomic::Ordering::SeqCst) });
                }
                sh.push(Ev::DispEnd { t_ns: sh.now_ns(), res });
                for id in sh.ret_removed.borrow_mut().drain(..) {
                    ctx.srcs[id].inserted = false;
                }
            }
            other => ctx.exec(other),
        }
        if !ctx.poisoned {
            ctx.snapshot(epoll_each);
        }
    }
    // teardown
    let poisoned = ctx.poisoned;
    let r = catch_unwind(AssertUnwindSafe(move || {
        if !poisoned {
            ctx.snapshot(true);
        }
        // a callback that owns an Async adapter holds the loop alive (the documented reference cycle): the history
        // ends it by taking the adapters back before anything else is dropped
        sh.push(Ev::BagsCleared);
        let bags: Vec<_> = sh.bags.borrow_mut().drain().collect();
        drop(bags);
        let loop_first = case.loop_first;
        if loop_first {
            ctx.handle = None;
            drop(el);
            sh.push(Ev::LoopDropped);
            ctx.asyncs.clear();
            release_kept(&mut ctx, &sh);
            ctx.idles.clear();
            ctx.srcs.clear();
            sh.push(Ev::KeptDropped);
        } else {
            // sources released by the loop earlier can be unwrapped now; the rest after the loop is gone
            release_removed(&mut ctx, &sh);
            for s in ctx.srcs.iter_mut() {
                // handles (pings, senders, peers) go first; kept dispatchers of still-inserted sources stay
                match &mut s.h {
                    Handles::Ping { pings } => pings.clear(),
                    Handles::Chan { tx } => tx.clear(),
                    Handles::Probe { pings, .. } => pings.clear(),
                    Handles::Comp { pokes } => {
                        for p in pokes.iter_mut() {
                            p.0.take();
                        }
                    }
                    Handles::Gen { peer, .. } => {
                        peer.take();
                    }
                    Handles::Exec { sched } => sched.clear(),
                    _ => {}
                }
            }
            for i in ctx.idles.iter_mut() {
                i.handle.take();
            }
            ctx.asyncs.clear();
            sh.push(Ev::KeptDropped);
            ctx.handle = None;
            drop(el);
            sh.push(Ev::LoopDropped);
            release_kept(&mut ctx, &sh);
            ctx.idles.clear();
            ctx.srcs.clear();
        }
        sh.push(Ev::FaultSites { n: sh.fault_seen.get() });
        sh.push(Ev::End);
        sh
    }));
    match r {
        Ok(sh) => {
            let t = std::mem::take(&mut *sh.trace.borrow_mut());
            t
        }
        Err(_) => {
            // a panic during teardown: return what we have with a marker (judged as a panic by the monitor)
            let info = crate::panics::take_last().unwrap_or_default();
            vec![Ev::DispEnd { t_ns: 0, res: Res::Panic { msg: format!("teardown: {}", info.message), file: info.file, line: info.line } }]
        }
    }
}

fn release_one(s: &mut WSrc, id: SrcId, sh: &Sh) {
    let mut k: Option<Box<dyn Kept>> = s.kept.take();
    match &mut s.h {
        Handles::Timer { disp } => {
            if let Some(d) = disp.take() {
                k = Some(Box::new(d));
            }
        }
        Handles::Gen { disp, .. } => {
            if let Some(d) = disp.take() {
                k = Some(Box::new(d));
            }
        }
        _ => {}
    }
    if let Some(k) = k {
        let ok = k.release();
        sh.push(Ev::Released { src: id, ok });
    }
}

/// into_source_inner on the kept dispatchers of sources the world saw leave the loop.
fn release_removed(ctx: &mut Ctx, sh: &Sh) {
    for id in 0..ctx.srcs.len() {
        if !ctx.srcs[id].inserted && ctx.srcs[id].tok.is_some() {
            release_one(&mut ctx.srcs[id], id, sh);
        }
    }
}

fn release_kept(ctx: &mut Ctx, sh: &Sh) {
    for id in 0..ctx.srcs.len() {
        release_one(&mut ctx.srcs[id], id, sh);
    }
}
