//! Byte-driven generator of histories for the libFuzzer target: the same grammar, ranges and per-property
//! profile weights as the proptest strategies in `ops.rs`, but every choice is decoded from the fuzz input
//! with `arbitrary::Unstructured` (one or two bytes per choice; an exhausted input yields the lowest value of
//! every range, i.e. the first alternative and the shortest collection). Any byte string decodes to a history
//! inside the domain of the property's profile, so the fuzzer never fights input validation and never leaves
//! the domain the oracle was written for; libFuzzer's byte mutations are local structural mutations of the
//! history.
//!
//! (proptest's own pass-through RNG cannot be used for this: its unions fork the RNG once per alternative,
//! halving the remaining data each time, and rand's uniform sampling loops for ever on the zeros that follow.)

use super::ops::*;
use arbitrary::Unstructured;

pub struct Dec<'a> {
    pub u: Unstructured<'a>,
}

impl<'a> Dec<'a> {
    pub fn new(data: &'a [u8]) -> Self {
        Dec { u: Unstructured::new(data) }
    }
    /// weighted choice; returns the index of the chosen alternative
    pub fn pickw(&mut self, weights: &[u32]) -> usize {
        let total: u32 = weights.iter().sum();
        if total == 0 {
            return 0;
        }
        let mut r = self.u.int_in_range(0..=total - 1).unwrap_or(0);
        for (i, w) in weights.iter().enumerate() {
            if r < *w {
                return i;
            }
            r -= *w;
        }
        weights.len() - 1
    }
    pub fn i32r(&mut self, lo: i32, hi: i32) -> i32 {
        self.u.int_in_range(lo..=hi).unwrap_or(lo)
    }
    pub fn u32r(&mut self, lo: u32, hi: u32) -> u32 {
        self.u.int_in_range(lo..=hi).unwrap_or(lo)
    }
    pub fn u8r(&mut self, lo: u8, hi: u8) -> u8 {
        self.u.int_in_range(lo..=hi).unwrap_or(lo)
    }
    pub fn len(&mut self, lo: usize, hi: usize) -> usize {
        self.u.int_in_range(lo..=hi).unwrap_or(lo)
    }
    pub fn u8(&mut self) -> u8 {
        self.u.arbitrary::<u8>().unwrap_or(0)
    }
    pub fn u16(&mut self) -> u16 {
        self.u.arbitrary::<u16>().unwrap_or(0)
    }
    pub fn bool(&mut self) -> bool {
        self.u8() & 1 == 1
    }
    /// true with probability pct/100
    pub fn pct(&mut self, pct: u32) -> bool {
        self.u32r(0, 99) < pct
    }
    pub fn is_empty(&self) -> bool {
        self.u.is_empty()
    }
}

fn kind(p: &Profile, d: &mut Dec) -> Kind {
    let ws = [p.k_ping, p.k_chan, p.k_timer, p.k_gen, if p.k_exec > 0 && p.o_exec > 0 { p.k_exec } else { 0 }, p.k_probe, p.k_comp];
    if ws.iter().all(|w| *w == 0) {
        return Kind::Ping;
    }
    match d.pickw(&ws) {
        0 => Kind::Ping,
        1 => Kind::Chan {
            bound: match d.pickw(&[3, 2]) {
                0 => None,
                _ => Some([0u8, 1, 2, 8][d.len(0, 3)]),
            },
        },
        2 => {
            let fut = p.timer_future_pct.min(100);
            Kind::Timer {
                delta_us: match d.pickw(&[100 - fut, fut / 2 + 1, fut / 4 + 1, fut / 4 + 1]) {
                    0 => Some(d.i32r(-3000, 0)),
                    1 => Some(d.i32r(1, 19_999)),
                    2 => Some(1_500_000_000),
                    _ => None,
                },
            }
        }
        3 => Kind::Gen {
            fd: match d.pickw(&[3, 3, 1, 1, 2]) {
                0 => FdKind::EventFd,
                1 => FdKind::Sock,
                2 => FdKind::PipeR,
                3 => FdKind::PipeW,
                _ => FdKind::Shared(d.u8r(0, 1)),
            },
            interest: d.pickw(&[1, 5, 1, 2]) as u8,
            mode: d.pickw(&[4, 2, 2]) as u8,
        },
        4 => {
            if d.pickw(&[2, 1]) == 0 {
                Kind::Exec
            } else {
                Kind::Stream
            }
        }
        5 => {
            let subs = d.u8r(1, 4);
            let lifecycle = d.pct(p.probe_lifecycle_pct.min(100));
            let synthetic = if d.pct(35) { Some((d.u8r(0, 3), d.pct(35))) } else { None };
            let fail_reg = if p.o_fail > 0 && d.pct(25) { Some(d.u8r(0, 4)) } else { None };
            Kind::Probe { subs, lifecycle, synthetic: if lifecycle { synthetic.map(|(s, on_sub)| s % subs + if on_sub { 128 } else { 0 }) } else { None }, fail_reg }
        }
        _ => {
            let n = d.len(1, 5);
            let children = (0..n)
                .map(|_| {
                    let k = match d.pickw(&[4, 2, 3]) {
                        0 => CKind::Ping,
                        1 => CKind::Timer { delta_us: if d.pickw(&[3, 1]) == 0 { d.i32r(-2000, 0) } else { d.i32r(1, 9_999) } },
                        _ => CKind::Gen,
                    };
                    let t = d.pct(40);
                    if d.u8r(0, 31) == 31 {
                        (CKind::Bad, false)
                    } else {
                        (k, t)
                    }
                })
                .collect();
            Kind::Comp { children }
        }
    }
}

fn post(p: &Profile, d: &mut Dec) -> PostRet {
    let nonc = p.post_pct.min(95);
    let err = p.err_pct.min(50);
    let cont = 100u32.saturating_sub(nonc + err).max(1);
    match d.pickw(&[cont, nonc, err]) {
        0 => PostRet::Continue,
        1 => [PostRet::Reregister, PostRet::Disable, PostRet::Remove][d.len(0, 2)],
        _ => PostRet::Err,
    }
}

fn tret(p: &Profile, d: &mut Dec) -> TRet {
    let fut = p.timer_future_pct.max(1);
    match d.pickw(&[50, 20, fut / 2 + 1, 10, fut / 4 + 1, 2]) {
        0 => TRet::Drop,
        1 => TRet::ToInstant(d.i32r(-2000, 0)),
        2 => TRet::ToInstant(d.i32r(1, 14_999)),
        3 => TRet::ToDuration(d.u32r(0, 1999)),
        4 => TRet::ToDuration(3_000_000_000),
        _ => TRet::ToDurationMax,
    }
}

fn prog(p: &Profile, depth: u32, d: &mut Dec) -> Prog {
    let ops = if depth == 0 {
        Vec::new()
    } else {
        let n = d.len(0, p.max_cb_ops);
        (0..n).map(|_| op(p, depth - 1, true, d)).collect()
    };
    Prog { ops, post: post(p, d), timer: tret(p, d) }
}

fn script(p: &Profile, depth: u32, d: &mut Dec) -> Vec<Prog> {
    let n = d.len(0, 3);
    (0..n).map(|_| prog(p, depth, d)).collect()
}

pub fn op(p: &Profile, depth: u32, in_cb: bool, d: &mut Dec) -> Op {
    // group weights, in the order of ops.rs
    let cause_any = p.k_ping > 0 || p.k_chan > 0 || p.k_gen > 0 || p.k_timer > 0 || p.k_probe > 0 || p.k_comp > 0;
    let handle_any = p.k_ping > 0 || p.k_chan > 0;
    let ws = [
        p.o_insert,
        p.o_token * if in_cb { 2 } else { 1 },
        if cause_any { p.o_cause } else { 0 },
        if handle_any { p.o_handle } else { 0 },
        p.o_idle,
        if p.k_probe > 0 { p.o_fail } else { 0 },
        if p.k_gen > 0 { p.o_recycle } else { 0 },
        p.o_async,
        p.o_badfd,
        if p.k_exec > 0 { p.o_exec } else { 0 },
        p.o_wakeup,
        if !in_cb { p.o_dispatch } else { 0 },
    ];
    if ws.iter().all(|w| *w == 0) {
        return Op::Dispatch { timeout_ms: 0 };
    }
    match d.pickw(&ws) {
        0 => Op::Insert { kind: kind(p, d), script: script(p, depth, d), via_disp: d.bool() },
        1 => {
            let tok = d.u16();
            match d.pickw(&[3, 3, 3, 2]) {
                0 => Op::Remove { tok },
                1 => Op::Disable { tok },
                2 => Op::Enable { tok },
                _ => Op::Update { tok },
            }
        }
        2 => {
            let g = p.k_gen > 0;
            let ws = [
                if p.k_ping > 0 { 4 } else { 0 },
                if p.k_chan > 0 { 4 } else { 0 },
                if g { 4 } else { 0 },
                if g { 2 } else { 0 },
                if g { 1 } else { 0 },
                if g { 1 } else { 0 },
                if p.k_timer > 0 { 4 } else { 0 },
                if p.k_probe > 0 { 5 } else { 0 },
                if p.k_comp > 0 { 7 } else { 0 },
            ];
            let src = d.u16();
            match d.pickw(&ws) {
                0 => Op::Ping { src },
                1 => Op::Send { src, val: d.u8() },
                2 => Op::PeerWrite { src, n: d.u8r(0, 7) },
                3 => Op::OwnRead { src, n: d.u8r(0, 7) },
                4 => Op::PeerClose { src },
                5 => Op::SetInterest { src, interest: d.u8r(0, 3), mode: d.u8r(0, 2) },
                6 => {
                    let fut = p.timer_future_pct.max(1);
                    let delta_us = match d.pickw(&[100 - fut.min(90), fut / 2 + 1, fut / 2 + 1]) {
                        0 => d.i32r(-2000, 0),
                        1 => d.i32r(1, 14_999),
                        _ => 2_000_000_000,
                    };
                    Op::SetDeadline { src, delta_us }
                }
                7 => Op::ProbePing { src, sub: d.u8r(0, 3) },
                _ => Op::CompPoke { src, child: d.u8r(0, 4) },
            }
        }
        3 => {
            let src = d.u16();
            let ws = [if p.k_ping > 0 { 2 } else { 0 }, if p.k_ping > 0 { 3 } else { 0 }, if p.k_chan > 0 { 2 } else { 0 }, if p.k_chan > 0 { 3 } else { 0 }];
            match d.pickw(&ws) {
                0 => Op::CloneHandle { src },
                1 => Op::DropHandle { src },
                2 => Op::CloneSender { src },
                _ => Op::DropSender { src },
            }
        }
        4 => match d.pickw(&[4, 2, 1]) {
            0 => Op::InsertIdle { prog: Box::new(prog(p, depth.min(1), d)) },
            1 => Op::CancelIdle { idle: d.u16() },
            _ => Op::DropIdleHandle { idle: d.u16() },
        },
        5 => {
            let src = d.u16();
            let step = match d.pickw(&[3, 2, 2, 2, 1]) {
                0 => FailStep::Register(d.u8r(0, 3)),
                1 => FailStep::Reregister(d.u8r(0, 3)),
                2 => FailStep::Unregister(d.u8r(0, 3)),
                3 => FailStep::Process,
                _ => FailStep::BeforeSleep,
            };
            Op::FailNext { src, step }
        }
        6 => Op::Recycle { src: d.u16() },
        7 => match d.pickw(if in_cb { &[2, 6, 4, 3, 2, 1, 1] } else { &[5, 1, 1, 6, 5, 1, 3] }) {
            0 => Op::Adapt { fd: if d.pickw(&[6, 1]) == 0 { d.u8r(0, 2) } else { 3 }, blocking: d.bool() },
            1 => Op::AsyncDrop { a: d.u16() },
            2 => Op::AsyncIntoInner { a: d.u16() },
            3 => Op::AsyncWait { a: d.u16(), write: d.pct(25) },
            4 => Op::AsyncPeerWrite { a: d.u16(), n: d.u8r(0, 3) },
            5 => Op::AsyncOwnRead { a: d.u16() },
            _ => Op::AsyncGive { a: d.u16(), tok: d.u16() },
        },
        8 => Op::InsertBad { which: d.u8r(0, 2), mode: d.u8r(0, 2), give: d.pct(40) },
        9 => match d.pickw(&[5, 4, 1, 4, 1, 2]) {
            0 => {
                let src = d.u16();
                let pendings = d.u8r(0, 2);
                let self_wake = d.bool();
                let val = d.u8();
                let ops = if depth == 0 {
                    Vec::new()
                } else {
                    let n = d.len(0, 2);
                    (0..n).map(|_| op(p, depth - 1, true, d)).collect()
                };
                Op::Schedule { src, plan: FutPlan { pendings, self_wake, val, ops } }
            }
            1 => Op::Wake { task: d.u16() },
            2 => Op::DropScheduler { src: d.u16() },
            3 => Op::StreamPush { src: d.u16(), val: d.u8() },
            4 => Op::StreamEnd { src: d.u16() },
            _ => Op::StreamYield { src: d.u16() },
        },
        10 => {
            if d.pickw(&[3, 1]) == 0 {
                Op::Wakeup
            } else {
                Op::Stop
            }
        }
        _ => {
            let max = p.max_timeout_ms;
            if p.long_dispatch_pct > 0 && d.pct(p.long_dispatch_pct.min(90)) {
                Op::Dispatch { timeout_ms: LONG_DISPATCH_MS }
            } else {
                Op::Dispatch { timeout_ms: if max == 0 || d.pickw(&[4, 1]) == 0 { 0 } else { d.u8r(1, max) } }
            }
        }
    }
}

/// Decode a whole history. The number of top-level ops is not drawn up front: ops are decoded until the input
/// is used up (at least one, at most `max_ops`), so appending bytes appends operations.
pub fn case(p: &Profile, data: &[u8]) -> HistCase {
    let mut d = Dec::new(data);
    let loop_first = d.bool();
    let mut ops = Vec::new();
    while ops.len() < p.max_ops && (ops.is_empty() || !d.is_empty()) {
        ops.push(op(p, p.max_depth, false, &mut d));
    }
    HistCase { ops, loop_first }
}
