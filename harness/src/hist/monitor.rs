//! The reference side: a trace-checking monitor of the loop semantics.
//!
//! It does not predict a dispatch trace (the kernel promises no order among ready fds); it judges
//! one: every recorded entry is checked for legality against the model state (causes, status,
//! registrations), consumed, and at the end of every dispatch the obligations are checked.
//! Rule ids are the ones of DESIGN.md Appendix A; `props` lists the properties a rule speaks for.

use super::ops::{CKind, FailStep, FdKind, Kind, PostRet, TRet};
use super::trace::*;
use crate::driver::Violation;
use std::collections::{BTreeMap, BTreeSet, VecDeque};

#[derive(Clone, Debug, PartialEq, Eq)]
enum St {
    Created,
    Inserted,
    Removed,
    Rejected,
}

#[derive(Clone, Debug)]
struct MSrc {
    kind: Kind,
    st: St,
    enabled: bool,
    taint: Option<&'static str>,
    key: u64,
    src_drops: u32,
    cb_drops: u32,
    alive: bool,
    // ping
    pings: u32,
    handles: u32,
    // chan
    queue: VecDeque<u8>,
    senders: u32,
    closed_delivered: bool,
    stream_ended: bool,
    stream_polled: bool,
    stream_yielded: bool,
    // timer
    deadline: Option<i64>,
    dl_range: Option<(i64, i64)>,
    dl_d: i64,
    close_owed: bool,
    lc_expected: bool,
    enable_pending_cause: bool,
    armed_dl: Option<i64>,
    // gen
    fd: i32,
    interest: u8,
    mode: u8,
    r: bool,
    w: bool,
    h: bool,
    ever_r: bool,
    ever_w: bool,
    ever_h: bool,
    registered: bool,
    os_armed: bool,
    edge_pending: bool,
    rearmed_in_disp: bool,
    /// interest in effect when the dispatch polled (events of the batch were collected under it)
    poll_interest: u8,
    /// re-registered during this dispatch while an event collected earlier may still be delivered
    stale_event_possible: bool,
    // probe
    sub_pings: Vec<u32>,
    lifecycle: bool,
    synthetic: Option<u8>,
    fail: Option<FailStep>,
    synth_owed: bool,
    bs: u32,
    bh: u32,
    bh_keys: Vec<u64>,
    // per dispatch
    owed: bool,
    owed_subs: Vec<bool>,
    called: u32,
    touched: bool,
    /// removed/disabled itself during its current process_events: remaining events of the batch tolerated
    latitude: bool,
    removed_in_own_cb: bool,
    released: bool,
    recycled: bool,
    how_removed: Option<&'static str>,
    children: Vec<MChild>,
    /// composite: sub-tokens of the children shifted during the current dispatch
    renumbered_in_disp: bool,
}

/// Child of a composite source.
#[derive(Clone, Debug)]
struct MChild {
    kind: CKind,
    transient: bool,
    fd: i32,
    key: Option<u64>,
    /// removed / disabled through its TransientSource wrapper
    gone: bool,
    disabled: bool,
    pings: u32,
    r: bool,
    ever_r: bool,
    deadline: Option<i64>,
    dl_open: bool,
    armed_dl: Option<i64>,
    owed: bool,
    called: u32,
    /// changed its own state during the current event processing: remaining events tolerated
    latitude: bool,
}

#[derive(Clone, Debug)]
struct MIdle {
    cancelled: bool,
    ran: u32,
    drops: u32,
    /// dispatch number from which on it may run
    not_before: u64,
    inserted_in_cb: bool,
    taken: bool,
}

/// One scheduled future of an executor source.
#[derive(Clone, Debug)]
struct MTask {
    src: SrcId,
    /// schedule() returned Ok
    accepted: bool,
    remaining: u8,
    self_wake: bool,
    val: u8,
    /// scheduled / woken and not polled since
    runnable: bool,
    /// runnable at the start of the current dispatch: must be polled by it
    owed: bool,
    polls: u32,
    finished: bool,
    delivered: u32,
    drops: u32,
    in_poll: bool,
}

#[derive(Clone, Debug, PartialEq)]
enum RegKind {
    Reg,
    Rereg,
    Unreg,
}

#[derive(Clone, Debug)]
struct RegEv {
    kind: RegKind,
    src: SrcId,
    ok: bool,
}

#[derive(Clone, Debug)]
struct PostWin {
    src: SrcId,
    effective: PRet,
    removed_in_cb: bool,
    events: Vec<RegEv>,
    err: bool,
}

/// Flags and counters the property modules turn into evidence classes / the non-trivial rule.
#[derive(Default, Debug, Clone)]
pub struct Facts {
    pub long_dispatch_with_synthetic: u32,
    pub sources_returned_err: u32,
    pub tasks_scheduled: u32,
    pub tasks_scheduled_in_cb: u32,
    pub task_wakes: u32,
    pub stream_pushes: u32,
    pub stream_self_wakes: u32,
    pub stream_items: u32,
    pub stream_ends: u32,
    pub task_polls: u32,
    pub adapters_given: u32,
    pub wakeups: u32,
    pub adapter_waits_armed: u32,
    pub adapter_wakes: u32,
    /// composites whose insertion failed half-way and left a registered timer child behind
    pub failed_comp_left_timer: u32,
    pub dispatches: u32,
    pub callbacks: u32,
    pub in_cb_ops: u32,
    pub in_batch_mutation: u32,
    pub slot_reuse: u32,
    pub stale_token_ops: u32,
    pub removal_paths: BTreeSet<&'static str>,
    pub max_owed_in_dispatch: u32,
    pub owed_kinds_max: u32,
    pub edge_or_oneshot_transitions: u32,
    pub disabled_cause_delivered: u32,
    pub deferred_with_err: u32,
    pub slot_reuse_in_cb: u32,
    pub multi_act_batch: u32,
    pub timers_due_same_dispatch: u32,
    pub timer_acted_in_batch: u32,
    pub timer_cancel_after_expiry: u32,
    pub idles_run: u32,
    pub idle_from_cb: u32,
    pub idle_cancel_in_dispatch: u32,
    pub failed_dispatches: u32,
    pub lifecycle_sources: u32,
    pub lifecycle_updates: u32,
    pub failed_registrations: u32,
    pub failed_reg_multi_step: u32,
    pub err_with_pending_batch: u32,
    pub recycles: u32,
    pub comp_sources: u32,
    pub comp_rereg_in_batch: u32,
    pub readapts: u32,
    pub failed_adapts: u32,
    pub adapts: u32,
    pub interest_changes: u32,
    pub taints: BTreeMap<&'static str, u32>,
    pub nesting_depth2: u32,
    pub self_ops: u32,
    pub kinds_seen: BTreeSet<&'static str>,
    pub synthetic_events: u32,
    pub foreign: Option<String>,
}

#[derive(Clone, Debug)]
struct MAsync {
    fd: i32,
    live: bool,
    nb_before: bool,
    /// Some(write): the last poll of readable()/writable() was Pending: waker stored, one-shot interest armed
    armed: Option<bool>,
    wakes_seen: u64,
    fd_r: bool,
    fd_w: bool,
    /// armed and its fd ready for the armed interest at dispatch start: the waker must be woken by an Ok dispatch
    owed: bool,
    /// an operation touched the adapter during the current dispatch (obligation waived)
    touched: bool,
    woken_in_disp: bool,
    pending_wait: Option<bool>,
    /// owned by the callback closure of this source: released when that closure is dropped
    given_to: Option<SrcId>,
    /// a wake-up and an in-callback operation on the adapter fell into the same dispatch: their order is not known
    armed_unknown: bool,
}

pub struct Monitor {
    /// upper bound on timer-wheel entries left behind by composites whose insertion failed half-way
    ghost_timers: usize,
    /// largest number of source-list slots ever needed at once (occupied + the one an insertion attempt takes)
    peak_slots: usize,
    disp_reg_failed: bool,
    disp_timeout_ms: u32,
    disp_synth_promised: bool,
    /// (source, scripted post-action) of the last finished callback of the current event processing
    last_cb_post: Option<(SrcId, PostRet)>,
    /// time of the first user callback of the current dispatch (the wait is over by then)
    disp_first_cb_ns: Option<i64>,
    tasks: Vec<MTask>,
    asyncs: Vec<MAsync>,
    pending_adapt: Option<(Option<usize>, bool)>,
    pending_release: Option<(usize, bool)>,
    known_fds: Vec<i32>,
    srcs: Vec<MSrc>,
    tokens: Vec<SrcId>,
    idles: Vec<MIdle>,
    base_epoll: Option<Vec<(i32, u32, u64)>>,
    in_disp: bool,
    disp_no: u64,
    disp_t0: i64,
    disp_err_cause: bool,
    disp_hooks_failed: bool,
    disp_first_proc_seen: bool,
    disp_idle_phase: bool,
    disp_idles_ran: Vec<IdleId>,
    disp_last_timer_ev: Option<i64>,
    disp_actors: u32,
    cur_proc: Option<SrcId>,
    cur_proc_key: u64,
    cur_child: Option<u8>,
    cur_cb: Option<SrcId>,
    cb_depth: u32,
    cur_idle: Option<IdleId>,
    pending: PRet,
    cur_op: Option<(ROp, Vec<RegEv>)>,
    inserted_info: Option<(SrcId, Option<TokIdx>, Option<u64>, Option<bool>)>,
    win: Option<PostWin>,
    loop_dropped: bool,
    pub facts: Facts,
    stop: bool,
}

pub struct Judged {
    pub violation: Option<(Violation, Vec<&'static str>)>,
    pub facts: Facts,
}

type V = Option<(Violation, Vec<&'static str>)>;

/// Known finding F12: a composite whose children's sub-tokens shifted during the current dispatch
/// (a TransientSource child left) receives the stale events of the batch under the new numbering.
pub const SIG_F12: &str = "C01/composite-renumbered-in-batch";

fn viol(rule: &str, props: &[&'static str], detail: String) -> V {
    Some((Violation::new(rule, detail), props.to_vec()))
}

fn key_src(k: u64) -> u64 {
    k >> 16
}

fn kind_name(k: &Kind) -> &'static str {
    match k {
        Kind::Ping => "ping",
        Kind::Chan { .. } => "chan",
        Kind::Timer { .. } => "timer",
        Kind::Gen { .. } => "gen",
        Kind::Exec => "exec",
        Kind::Stream => "stream",
        Kind::BadGen { .. } => "badgen",
        Kind::Comp { .. } => "comp",
        Kind::Probe { .. } => "probe",
    }
}

impl Monitor {
    pub fn new() -> Self {
        Monitor {
            ghost_timers: 0,
            peak_slots: 0,
            disp_reg_failed: false,
            disp_timeout_ms: 0,
            disp_synth_promised: false,
            last_cb_post: None,
            disp_first_cb_ns: None,
            tasks: vec![],
            asyncs: vec![],
            pending_adapt: None,
            pending_release: None,
            known_fds: vec![],
            srcs: vec![],
            tokens: vec![],
            idles: vec![],
            base_epoll: None,
            in_disp: false,
            disp_no: 0,
            disp_t0: 0,
            disp_err_cause: false,
            disp_hooks_failed: false,
            disp_first_proc_seen: false,
            disp_idle_phase: false,
            disp_idles_ran: vec![],
            disp_last_timer_ev: None,
            disp_actors: 0,
            cur_proc: None,
            cur_proc_key: 0,
            cur_child: None,
            cur_cb: None,
            cb_depth: 0,
            cur_idle: None,
            pending: PRet::Continue,
            cur_op: None,
            inserted_info: None,
            win: None,
            loop_dropped: false,
            facts: Facts::default(),
            stop: false,
        }
    }

    /// Judge a trace for property `prop`. A violation of a purely observational rule (statistics
    /// comparisons, which do not touch the model state) that does not speak for `prop` is remembered and
    /// the judgement continues, so that its consequences for `prop` can still be seen.
    pub fn judge_for(trace: &[Ev], prop: &str) -> Judged {
        let mut m = Monitor::new();
        let mut violation = None;
        let mut soft_foreign = None;
        for (i, ev) in trace.iter().enumerate() {
            if m.stop {
                break;
            }
            if let Some((mut v, props)) = m.feed(ev) {
                v.detail = format!("{} [trace entry {} = {:?}]", v.detail, i, ev);
                let mine = props.contains(&prop) || v.rule.starts_with(prop);
                // On a tree where every rule holds nothing is ever remembered here; on a broken tree the
                // judgement goes on past rules that do not speak for `prop`, so that the consequences the
                // breakage has for `prop` (e.g. the victim's events no longer dispatched) are seen as well.
                if !mine && !prop.is_empty() && !m.stop {
                    if soft_foreign.is_none() {
                        soft_foreign = Some((v, props));
                    }
                    continue;
                }
                violation = Some((v, props));
                break;
            }
        }
        if violation.is_none() {
            violation = soft_foreign;
        }
        Judged { violation, facts: m.facts }
    }

    pub fn judge(trace: &[Ev]) -> Judged {
        Self::judge_for(trace, "")
    }

    fn taint(&mut self, s: SrcId, why: &'static str) {
        if self.srcs[s].taint.is_none() {
            self.srcs[s].taint = Some(why);
            *self.facts.taints.entry(why).or_insert(0) += 1;
        }
    }

    fn live(&self, s: SrcId) -> bool {
        let m = &self.srcs[s];
        m.st == St::Inserted && m.enabled
    }

    fn any_taint(&self) -> bool {
        self.srcs.iter().any(|s| s.taint.is_some())
    }

    // ------------------------------------------------------------------ registration effects

    fn apply_reg(&mut self, s: SrcId, kind: &RegKind, ok: bool) {
        let m = &mut self.srcs[s];
        match kind {
            RegKind::Reg | RegKind::Rereg => {
                if ok {
                    m.registered = true;
                    match &m.kind {
                        Kind::Timer { .. } => {
                            m.armed_dl = m.deadline;
                        }
                        Kind::Gen { .. } => {
                            m.os_armed = true;
                            if self.in_disp {
                                m.rearmed_in_disp = true;
                                // an event collected by this dispatch's poll (also a bare HUP/ERR report,
                                // which is never "owed") may still be delivered after this re-arming
                                if m.called == 0 {
                                    m.stale_event_possible = true;
                                }
                            }
                            // epoll re-evaluates readiness at ADD/MOD: an edge registration that is
                            // already ready reports it
                            let ready = (m.interest & 1 != 0 && m.r) || (m.interest & 2 != 0 && m.w);
                            m.edge_pending = ready;
                        }
                        _ => {}
                    }
                } else if *kind == RegKind::Reg {
                    m.registered = false;
                    if let Kind::Timer { .. } = m.kind {
                        m.armed_dl = None;
                    }
                }
            }
            RegKind::Unreg => {
                if ok {
                    m.registered = false;
                    m.os_armed = false;
                    m.edge_pending = false;
                    if let Kind::Timer { .. } = m.kind {
                        if m.armed_dl.is_some() && self.in_disp && m.owed && m.called == 0 {
                            self.facts.timer_cancel_after_expiry += 1;
                        }
                        m.armed_dl = None;
                    }
                }
            }
        }
    }

    fn on_regev(&mut self, kind: RegKind, src: SrcId, res: &Res) -> V {
        let ok = res.is_ok();
        if let Res::Panic { msg, file, line } = res {
            return viol("C15.panic", &["C15", "C08"], format!("registration call panicked: {msg} at {file}:{line}"));
        }
        self.apply_reg(src, &kind, ok);
        if !ok && matches!(kind, RegKind::Unreg) {
            // what a failed unregistration leaves behind for the failing source itself is unspecified
            self.taint(src, "failed_unregister");
        }
        if !ok && matches!(kind, RegKind::Rereg) {
            self.taint(src, "failed_reregister");
        }
        if !ok && self.in_disp {
            // a (scripted or kernel-reported) registration failure inside a dispatch may surface as that dispatch's error
            self.disp_reg_failed = true;
        }
        let ev = RegEv { kind, src, ok };
        if let Some((_, evs)) = self.cur_op.as_mut() {
            evs.push(ev);
            return None;
        }
        if let Some(w) = self.win.as_mut() {
            w.events.push(ev);
            return None;
        }
        if self.loop_dropped {
            return None;
        }
        viol(
            "C09.target",
            &["C09", "C07", "C15"],
            format!("{:?} of source #{src} outside any operation or post-action window", ev.kind),
        )
    }

    /// Composite sources report the key every child holds after a (re)registration (u64::MAX = none).
    /// After a successful (re)registration of a composite every kept child holds a sub-token and no removed child does
    /// (whether a child that disabled itself is registered again by a parent `register` is left open).
    fn check_comp_children(&self, s: SrcId, keys: &[u64]) -> V {
        let m = &self.srcs[s];
        if m.taint.is_some() {
            return None;
        }
        for (i, c) in m.children.iter().enumerate() {
            let has = keys.get(i).map_or(false, |k| *k != u64::MAX);
            if !c.gone && !c.disabled && !has {
                return viol(
                    "C16.comp_child",
                    &["C16", "C02", "C07", "C18"],
                    format!("composite #{s} was (re)registered successfully, but its kept child {i} ({:?}) was not registered with it", c.kind),
                );
            }
            if c.gone && has {
                return viol(
                    "C16.comp_child",
                    &["C16", "C06", "C18"],
                    format!("composite #{s} was (re)registered and registered child {i} ({:?}) again, which had been removed through its transient wrapper", c.kind),
                );
            }
        }
        None
    }

    fn comp_keys(&mut self, s: SrcId, keys: &[u64], registered: bool) {
        let in_disp = self.in_disp;
        let m = &mut self.srcs[s];
        if m.children.is_empty() {
            return;
        }
        let mut renumbered = false;
        for (i, c) in m.children.iter_mut().enumerate() {
            let k = if registered { keys.get(i).copied().filter(|k| *k != u64::MAX) } else { None };
            if c.key.is_some() && k.is_some() && c.key != k {
                renumbered = true;
            }
            c.key = k;
            if k.is_some() {
                // a child that holds a sub-token again is active again (re-registered after a self-disable)
                c.disabled = false;
            }
            if let CKind::Timer { .. } = c.kind {
                // Timer::register arms whenever it has a deadline; unregister cancels
                c.armed_dl = if k.is_some() { c.deadline } else { None };
            }
        }
        if renumbered && in_disp {
            self.srcs[s].renumbered_in_disp = true;
            self.facts.comp_rereg_in_batch += 1;
        }
    }

    fn check_child_cause(&mut self, s: SrcId, child: u8, inner: &Payload, t_ns: i64) -> V {
        let proc_key = self.cur_proc_key;
        let m = &mut self.srcs[s];
        let Some(c) = m.children.get_mut(child as usize) else {
            return viol("C01.cause", &["C01"], format!("composite #{s} reported an event of child {child} which does not exist"));
        };
        if (c.gone || c.disabled) && !c.latitude {
            return viol(
                "C01.live",
                &["C01", "C18", "C06", "C07"],
                format!("composite #{s}: callback for child {child} which was {} through its transient wrapper", if c.gone { "removed" } else { "disabled" }),
            );
        }
        match c.key {
            Some(k) if k == proc_key => {}
            other => {
                if !c.latitude {
                    return Some((
                        Violation::new(
                            "C01.key",
                            format!("composite #{s}: child {child} ({:?}) was called back while the event being processed carries key {proc_key:#x}; the child's own sub-token is {other:x?}", c.kind),
                        )
                        .with_sig("C01.key/composite-child-foreign-subtoken"),
                        vec!["C01"],
                    ));
                }
            }
        }
        match inner {
            Payload::Ping => {
                if c.pings == 0 {
                    return Some((
                        Violation::new("C01.cause", format!("composite #{s}: ping child {child} called back without a ping of that child")).with_sig("C01.cause/composite-child"),
                        vec!["C01"],
                    ));
                }
                c.pings = 0;
            }
            Payload::Timer(ev) => {
                let Some(armed) = c.armed_dl else {
                    return viol("C05.cancelled", &["C05", "C01"], format!("composite #{s}: timer child {child} fired (event {ev}) without a live arming"));
                };
                if !c.dl_open && c.deadline != Some(*ev) {
                    return viol("C05.deadline", &["C05", "C01"], format!("composite #{s}: timer child {child} fired with event {ev}, current deadline {:?}", c.deadline));
                }
                if t_ns < *ev {
                    return viol("C05.early", &["C05", "C01"], format!("composite #{s}: timer child {child} fired {} ns early (arming {armed})", ev - t_ns));
                }
                c.armed_dl = None;
            }
            Payload::Ready { r, .. } => {
                if *r && !c.ever_r {
                    return Some((
                        Violation::new("C01.cause", format!("composite #{s}: fd child {child} (fd {}) reported readable although its fd was not readable since the poll", c.fd)).with_sig("C01.cause/composite-child"),
                        vec!["C01", "C02"],
                    ));
                }
            }
            _ => {}
        }
        c.called += 1;
        c.owed = false;
        None
    }

    // ------------------------------------------------------------------ post-action window

    fn close_win(&mut self) -> V {
        let Some(w) = self.win.take() else { return None };
        let s = w.src;
        if self.srcs[s].taint.is_some() {
            return None;
        }
        let mine: Vec<&RegEv> = w.events.iter().filter(|e| e.src == s).collect();
        let others: Vec<&RegEv> = w.events.iter().filter(|e| e.src != s).collect();
        if let Some(o) = others.first() {
            return viol(
                "C09.target",
                &["C09", "C01", "C06", "C07"],
                format!(
                    "after source #{s} ({}) returned {:?}{} the loop called {:?} on source #{} ({})",
                    kind_name(&self.srcs[s].kind),
                    w.effective,
                    if w.err { " (error)" } else { "" },
                    o.kind,
                    o.src,
                    kind_name(&self.srcs[o.src].kind)
                ),
            );
        }
        if w.err {
            // what happens to the failing source itself is not specified; nothing else may be touched
            return None;
        }
        let n = |k: RegKind| mine.iter().filter(|e| e.kind == k).count();
        let (regs, reregs, unregs) = (n(RegKind::Reg), n(RegKind::Rereg), n(RegKind::Unreg));
        let bad = |what: &str| -> V {
            viol(
                "C09.once",
                &["C09", "C07", "C06"],
                format!(
                    "source #{s} ({}) effective post-action {:?} (removed in own callback: {}): {what}; saw {regs} register, {reregs} reregister, {unregs} unregister",
                    kind_name(&self.srcs[s].kind),
                    w.effective,
                    w.removed_in_cb
                ),
            )
        };
        if regs != 0 {
            return bad("unexpected register");
        }
        match (w.effective, w.removed_in_cb) {
            (PRet::Continue, false) => {
                if reregs + unregs != 0 {
                    return bad("Continue must change nothing");
                }
            }
            (PRet::Continue, true) => {
                if reregs != 0 || unregs != 1 {
                    return bad("self-removal must unregister exactly once");
                }
            }
            (PRet::Reregister, false) => {
                if reregs != 1 || unregs != 0 {
                    return bad("Reregister must re-register exactly once");
                }
            }
            (PRet::Reregister, true) => {
                if reregs > 1 || unregs != 1 {
                    return bad("removed source must end unregistered");
                }
            }
            (PRet::Disable, false) => {
                if reregs != 0 || unregs != 1 {
                    return bad("Disable must unregister exactly once");
                }
            }
            (PRet::Disable, true) => {
                if reregs != 0 || unregs == 0 || unregs > 2 {
                    return bad("removed+disabled source must end unregistered");
                }
            }
            (PRet::Remove, _) => {
                if reregs != 0 || unregs != 1 {
                    return bad("Remove must unregister exactly once");
                }
            }
            (PRet::Err, _) => {}
        }
        None
    }

    // ------------------------------------------------------------------ operations

    fn finish_op(&mut self, op: ROp, evs: Vec<RegEv>, res: &Res) -> V {
        let in_cb = self.cur_cb.is_some() || self.cur_idle.is_some();
        if in_cb {
            self.facts.in_cb_ops += 1;
            if self.cb_depth >= 2 {
                self.facts.nesting_depth2 += 1;
            }
        }
        if let Res::Panic { msg, file, line } = res {
            // a panicking handle operation: C08 when issued from a callback; a panicking remove() is also C06's business
            // (the source must be released, exactly once), anything else outside a dispatch is filed under C15
            let is_remove = matches!(op, ROp::Remove { .. });
            let rule = if in_cb { "C08.panic" } else if is_remove { "C06.release" } else { "C15.panic" };
            return Some((
                Violation::new(rule, format!("operation {op:?} panicked: {msg} at {file}:{line}")).with_sig(format!("{rule}/{}:{line}", short(file))),
                if is_remove { vec!["C08", "C15", "C06", "C16"] } else { vec!["C08", "C15"] },
            ));
        }
        let expect_only = |m: &Monitor, want: &[(RegKind, SrcId)], what: &str| -> V {
            // every recorded registration call must be one of the expected ones, and each expected one must be there
            let mut left: Vec<(RegKind, SrcId)> = want.to_vec();
            for e in &evs {
                if let Some(p) = left.iter().position(|(k, s)| *k == e.kind && *s == e.src) {
                    left.remove(p);
                } else {
                    return viol(
                        "C07.interference",
                        &["C07", "C06", "C09", "C15", "C01"],
                        format!(
                            "{what}: unexpected {:?} on source #{} ({})",
                            e.kind,
                            e.src,
                            kind_name(&m.srcs[e.src].kind)
                        ),
                    );
                }
            }
            if let Some((k, s)) = left.first() {
                return viol(
                    "C08.effect",
                    &["C08", "C07", "C06", "C09"],
                    format!("{what}: expected {k:?} on source #{s} did not happen"),
                );
            }
            None
        };
        match op {
            ROp::Insert { src, .. } => {
                let Some((isrc, tok, key, handback)) = self.inserted_info.take() else {
                    return None;
                };
                debug_assert_eq!(isrc, src);
                self.facts.kinds_seen.insert(kind_name(&self.srcs[src].kind));
                if let Some(v) = expect_only(self, &[(RegKind::Reg, src)], "insert") {
                    return Some(v);
                }
                let reg_ok = evs.iter().any(|e| e.kind == RegKind::Reg && e.src == src && e.ok);
                match (reg_ok, res.is_ok()) {
                    (true, true) => {
                        let key = key.unwrap_or(0);
                        // slot reuse: same slot index as an earlier source
                        if self.srcs.iter().enumerate().any(|(i, o)| i != src && o.st != St::Created && o.st != St::Rejected && key_src(o.key) >> 16 == key_src(key) >> 16) {
                            self.facts.slot_reuse += 1;
                            if in_cb {
                                self.facts.slot_reuse_in_cb += 1;
                            }
                        }
                        // a live source with the same (slot, generation) would be a token collision
                        if let Some((o, _)) = self.srcs.iter().enumerate().find(|(i, o)| *i != src && o.st == St::Inserted && o.key == key) {
                            return viol("C01.key", &["C01", "C06", "C20"], format!("source #{src} was given the registration key {key:#x} of live source #{o}"));
                        }
                        let m = &mut self.srcs[src];
                        m.st = St::Inserted;
                        m.enabled = true;
                        m.key = key;
                        if let Some(t) = tok {
                            debug_assert_eq!(t, self.tokens.len());
                            self.tokens.push(src);
                        }
                        if let Kind::Probe { lifecycle: true, .. } = m.kind {
                            self.facts.lifecycle_sources += 1;
                        }
                        if let Kind::Comp { .. } = m.kind {
                            self.facts.comp_sources += 1;
                        }
                    }
                    (false, false) => {
                        self.srcs[src].st = St::Rejected;
                        self.facts.failed_registrations += 1;
                        if handback != Some(true) {
                            return viol("C15.handback", &["C15"], format!("failed insertion of source #{src} did not hand the source back"));
                        }
                    }
                    (true, false) => {
                        return viol("C15.err", &["C15"], format!("insert of source #{src} failed ({res:?}) although its registration succeeded"));
                    }
                    (false, true) => {
                        return viol("C15.err", &["C15"], format!("insert of source #{src} returned Ok although its registration failed"));
                    }
                }
                None
            }
            ROp::Remove { tok } => {
                let s = self.tokens[tok];
                if self.srcs[s].st == St::Inserted {
                    let running = self.cur_proc == Some(s);
                    let want: Vec<(RegKind, SrcId)> = if running { vec![] } else { vec![(RegKind::Unreg, s)] };
                    if let Some(v) = expect_only(self, &want, "remove") {
                        return Some(v);
                    }
                    self.note_touch(s);
                    let m = &mut self.srcs[s];
                    m.st = St::Removed;
                    m.how_removed = Some(if running { "self_remove_in_cb" } else if in_cb { "remove_from_other_cb" } else { "remove_outside" });
                    self.facts.removal_paths.insert(m.how_removed.unwrap());
                    if running {
                        m.latitude = true;
                        m.removed_in_own_cb = true;
                        self.facts.self_ops += 1;
                    }
                } else {
                    self.facts.stale_token_ops += 1;
                    if let Some(v) = expect_only(self, &[], "remove with a dead token must be a no-op") {
                        return Some((Violation::new("C06.dead_token", v.0.detail), vec!["C06", "C01"]));
                    }
                }
                None
            }
            ROp::Disable { tok } | ROp::Enable { tok } | ROp::Update { tok } => {
                let s = self.tokens[tok];
                let which = match op {
                    ROp::Disable { .. } => 0,
                    ROp::Enable { .. } => 1,
                    _ => 2,
                };
                let name = ["disable", "enable", "update"][which];
                if self.srcs[s].st != St::Inserted {
                    self.facts.stale_token_ops += 1;
                    if !evs.is_empty() {
                        let e = &evs[0];
                        return viol(
                            "C06.dead_token",
                            &["C06", "C01"],
                            format!("{name} with the dead token of source #{s} called {:?} on source #{}", e.kind, e.src),
                        );
                    }
                    if *res != Res::InvalidToken {
                        return viol("C06.dead_token", &["C06"], format!("{name} with the dead token of source #{s} returned {res:?}, expected InvalidToken"));
                    }
                    return None;
                }
                if *res == Res::InvalidToken {
                    return viol("C07.token", &["C07", "C06"], format!("{name} on live source #{s} returned InvalidToken"));
                }
                let running = self.cur_proc == Some(s);
                if running {
                    self.facts.self_ops += 1;
                    // deferred: takes effect when the running process_events returns
                    if let Some(v) = expect_only(self, &[], "self-directed request inside own callback is deferred") {
                        return Some(v);
                    }
                    if !res.is_ok() {
                        return viol("C08.effect", &["C08"], format!("self-directed {name} inside own callback returned {res:?}"));
                    }
                    self.pending = if which == 0 { PRet::Disable } else { PRet::Reregister };
                    if which == 0 {
                        self.srcs[s].latitude = true;
                    }
                    return None;
                }
                let want = match which {
                    0 => RegKind::Unreg,
                    1 => RegKind::Reg,
                    _ => RegKind::Rereg,
                };
                if let Some(v) = expect_only(self, &[(want.clone(), s)], name) {
                    return Some(v);
                }
                let call_ok = evs.iter().any(|e| e.ok);
                if call_ok != res.is_ok() {
                    return viol("C15.err", &["C15"], format!("{name} of source #{s}: source call ok={call_ok} but the handle returned {res:?}"));
                }
                self.note_touch(s);
                let was_enabled = self.srcs[s].enabled;
                match which {
                    0 => {
                        if was_enabled {
                            if call_ok {
                                self.srcs[s].enabled = false;
                            } else {
                                self.taint(s, "failed_unregister");
                            }
                        }
                    }
                    1 => {
                        if was_enabled {
                            // a second registration that is refused leaves everything as it was; one that is
                            // accepted (timers arm twice) is misuse the statements do not cover
                            if call_ok || matches!(self.srcs[s].kind, Kind::Comp { .. }) {
                                // (a composite may have re-registered some children before one refused)
                                self.taint(s, "enable_while_enabled");
                            } else {
                                self.facts.failed_registrations += 1;
                            }
                        } else if call_ok {
                            let m = &mut self.srcs[s];
                            m.enabled = true;
                            m.enable_pending_cause = m.pings > 0 || !m.queue.is_empty() || m.armed_dl.is_some() || m.r || m.sub_pings.iter().any(|c| *c > 0);
                        } else {
                            self.facts.failed_registrations += 1;
                        }
                    }
                    _ => {
                        if let Kind::Probe { lifecycle: true, .. } = self.srcs[s].kind {
                            self.facts.lifecycle_updates += 1;
                        }
                        if !was_enabled && (call_ok || matches!(self.srcs[s].kind, Kind::Comp { .. })) {
                            self.taint(s, "update_while_disabled");
                            // on a Generic this can only have succeeded by rewriting the registration another source
                            // holds for the same (shared) fd: the misuse reaches that source as well
                            if let Kind::Gen { .. } = self.srcs[s].kind {
                                let fd = self.srcs[s].fd;
                                let others: Vec<SrcId> = (0..self.srcs.len()).filter(|i| *i != s && matches!(self.srcs[*i].kind, Kind::Gen { .. }) && self.srcs[*i].fd == fd).collect();
                                for o in others {
                                    self.taint(o, "shared_fd_rewritten_by_update_of_disabled_source");
                                }
                            }
                        } else if was_enabled && !call_ok {
                            self.taint(s, "failed_reregister");
                        }
                    }
                }
                None
            }
            ROp::Ping { src } => {
                self.srcs[src].pings += 1;
                None
            }
            ROp::CloneHandle { src } => {
                self.srcs[src].handles += 1;
                None
            }
            ROp::DropHandle { src, remaining } => {
                self.srcs[src].handles = remaining;
                None
            }
            ROp::ProbePing { src, sub } => {
                if let Some(c) = self.srcs[src].sub_pings.get_mut(sub as usize) {
                    *c += 1;
                }
                None
            }
            ROp::Send { .. } => None,
            ROp::CloneSender { src } => {
                self.srcs[src].senders += 1;
                None
            }
            ROp::DropSender { src, remaining } => {
                self.srcs[src].senders = remaining;
                None
            }
            ROp::PeerWrite { .. } | ROp::OwnRead { .. } | ROp::PeerClose { .. } => None,
            ROp::SetDeadline { src, deadline_ns } => {
                let m = &mut self.srcs[src];
                m.deadline = Some(deadline_ns);
                m.dl_range = None;
                if self.in_disp && m.owed && m.called == 0 {
                    self.facts.timer_acted_in_batch += 1;
                }
                None
            }
            ROp::SetInterest { src, interest, mode } => {
                let m = &mut self.srcs[src];
                m.interest = interest;
                m.mode = mode;
                self.facts.interest_changes += 1;
                None
            }
            ROp::InsertIdle { idle } => {
                debug_assert_eq!(idle, self.idles.len());
                let not_before = if self.in_disp && self.disp_idle_phase { self.disp_no + 1 } else { self.disp_no };
                self.idles.push(MIdle { cancelled: false, ran: 0, drops: 0, not_before, inserted_in_cb: in_cb, taken: false });
                if in_cb {
                    self.facts.idle_from_cb += 1;
                }
                None
            }
            ROp::CancelIdle { idle } => {
                if self.idles[idle].ran == 0 {
                    self.idles[idle].cancelled = true;
                    if self.in_disp {
                        self.facts.idle_cancel_in_dispatch += 1;
                    }
                }
                None
            }
            ROp::DropIdleHandle { .. } => None,
            ROp::Stop => None,
            ROp::Wakeup => {
                self.facts.wakeups += 1;
                None
            }
            ROp::FailNext { src, step } => {
                self.srcs[src].fail = Some(step);
                None
            }
            ROp::Unwrap { .. } => {
                self.facts.recycles += 1;
                None
            }
            ROp::Schedule { src, task, pendings, self_wake, val } => {
                if !evs.is_empty() {
                    return viol("C07.interference", &["C07", "C10"], format!("schedule() called {:?} on source #{}", evs[0].kind, evs[0].src));
                }
                debug_assert_eq!(task, self.tasks.len());
                let exec_gone = self.srcs[src].src_drops > 0;
                let ok = res.is_ok();
                self.tasks.push(MTask { src, accepted: ok, remaining: pendings, self_wake, val, runnable: ok, owed: false, polls: 0, finished: false, delivered: 0, drops: 0, in_poll: false });
                self.facts.tasks_scheduled += 1;
                if in_cb {
                    self.facts.tasks_scheduled_in_cb += 1;
                }
                if exec_gone && ok {
                    return viol("C10.drop", &["C10", "C06"], format!("schedule() on the dropped executor #{src} returned Ok, expected ExecutorDestroyed"));
                }
                if !exec_gone && !ok {
                    return viol("C10.first_poll", &["C10"], format!("schedule() on the live executor #{src} failed: {res:?}"));
                }
                if self.in_disp {
                    self.srcs[src].touched = true;
                }
                None
            }
            ROp::Wake { task } => {
                if let Some(t) = self.tasks.get_mut(task) {
                    if t.accepted && !t.finished && t.drops == 0 {
                        t.runnable = true;
                        self.facts.task_wakes += 1;
                    }
                }
                None
            }
            ROp::DropScheduler { .. } => None,
            ROp::StreamPush { src, val } => {
                if !evs.is_empty() {
                    return viol("C07.interference", &["C07", "C01"], format!("feeding stream #{src} called {:?} on source #{}", evs[0].kind, evs[0].src));
                }
                let m = &mut self.srcs[src];
                m.queue.push_back(val);
                m.pings = 1;
                self.facts.stream_pushes += 1;
                None
            }
            ROp::StreamYield { .. } => None,
            ROp::StreamEnd { src } => {
                let m = &mut self.srcs[src];
                m.stream_ended = true;
                m.pings = 1;
                None
            }
            ROp::Adapt { fd, live_before, regular_file, nonblocking_before, .. } => {
                let Some((a, nb_after)) = self.pending_adapt.take() else { return None };
                if !self.known_fds.contains(&fd) {
                    self.known_fds.push(fd);
                }
                self.facts.adapts += 1;
                let must_fail = live_before || regular_file;
                if !evs.is_empty() {
                    return viol("C07.interference", &["C15", "C16", "C07"], format!("adapt_io called {:?} on source #{}", evs[0].kind, evs[0].src));
                }
                match (a, res.is_ok()) {
                    (Some(idx), true) => {
                        if must_fail {
                            // the poller accepted a registration we expected it to refuse: outside the model
                            self.facts.foreign = Some("adapt_io of a duplicate/regular fd succeeded".into());
                            self.stop = true;
                            return None;
                        }
                        debug_assert_eq!(idx, self.asyncs.len());
                        if self.asyncs.iter().any(|x| x.fd == fd) {
                            self.facts.readapts += 1;
                        }
                        self.asyncs.push(MAsync { fd, live: true, nb_before: nonblocking_before, armed: None, wakes_seen: 0, fd_r: false, fd_w: false, owed: false, touched: false, woken_in_disp: false, pending_wait: None, armed_unknown: false, given_to: None });
                        if !nb_after {
                            return viol("C17.flags", &["C17", "C15"], format!("fd {fd} is still blocking after adapt_io succeeded"));
                        }
                    }
                    (None, false) => {
                        self.facts.failed_adapts += 1;
                        self.facts.failed_registrations += 1;
                        if !must_fail {
                            return Some((
                                Violation::new(
                                    "C16.reinsert",
                                    format!("adapt_io of fd {fd} failed ({res:?}) although no adapter or source holds it (released earlier: {})", self.asyncs.iter().any(|x| x.fd == fd)),
                                )
                                .with_sig("C16.reinsert/adapt_io-after-release"),
                                vec!["C16", "C15"],
                            ));
                        }
                        if nb_after != nonblocking_before {
                            return Some((
                                Violation::new("C15.flags", format!("failed adapt_io left fd {fd} with O_NONBLOCK={nb_after}, it was {nonblocking_before} before the call")).with_sig("C15.flags/failed-adapt_io"),
                                vec!["C15", "C17"],
                            ));
                        }
                    }
                    _ => {
                        return viol("C15.err", &["C15"], format!("adapt_io result {res:?} inconsistent with adapter {a:?}"));
                    }
                }
                None
            }
            ROp::AsyncRelease { a, fd, .. } => {
                let Some((ia, nb_after)) = self.pending_release.take() else { return None };
                debug_assert_eq!(a, ia);
                if !evs.is_empty() {
                    return viol("C07.interference", &["C15", "C16", "C07"], format!("releasing an adapter called {:?} on source #{}", evs[0].kind, evs[0].src));
                }
                let m = &mut self.asyncs[a];
                m.live = false;
                m.armed = None;
                m.touched = true;
                if nb_after != m.nb_before {
                    return viol("C17.flags", &["C17", "C16"], format!("after the adapter of fd {fd} was released O_NONBLOCK is {nb_after}, before adapt_io it was {}", m.nb_before));
                }
                None
            }
            ROp::InsertBad { .. } => None,
            ROp::AsyncWait { a, write } => {
                if !evs.is_empty() {
                    return viol("C07.interference", &["C15", "C16", "C07"], format!("polling an adapter called {:?} on source #{}", evs[0].kind, evs[0].src));
                }
                let in_disp = self.in_disp;
                if let Some(m) = self.asyncs.get_mut(a) {
                    m.touched = true;
                    if !in_disp {
                        m.armed_unknown = false;
                    }
                    match m.pending_wait.take() {
                        Some(true) => m.armed = None,
                        Some(false) => {
                            m.armed = Some(write);
                            self.facts.adapter_waits_armed += 1;
                        }
                        None => {}
                    }
                }
                None
            }
            ROp::AsyncGive { a, src } => {
                if let Some(m) = self.asyncs.get_mut(a) {
                    m.touched = true;
                    m.given_to = Some(src);
                    self.facts.adapters_given += 1;
                }
                None
            }
            ROp::AsyncIo { a } => {
                if let Some(m) = self.asyncs.get_mut(a) {
                    // readiness changed under the dispatch: what was owed at its start is waived
                    m.touched = true;
                }
                None
            }
            ROp::CompPoke { src, child } => {
                if let Some(c) = self.srcs[src].children.get_mut(child as usize) {
                    match c.kind {
                        CKind::Ping => c.pings += 1,
                        CKind::Gen => {
                            c.r = true;
                            c.ever_r = true;
                        }
                        _ => {}
                    }
                }
                None
            }
        }
    }

    /// A token operation touched `s`: waive its obligation for this dispatch and note in-batch mutations.
    fn note_touch(&mut self, s: SrcId) {
        if self.in_disp {
            let m = &mut self.srcs[s];
            if m.owed && m.called == 0 && self.cur_proc != Some(s) {
                self.facts.in_batch_mutation += 1;
                if let Kind::Timer { .. } = m.kind {
                    self.facts.timer_acted_in_batch += 1;
                }
            }
            m.touched = true;
            self.disp_actors += 1;
        }
    }

    // ------------------------------------------------------------------ causes

    fn check_cause(&mut self, s: SrcId, payload: &Payload, t_ns: i64) -> V {
        let kname = kind_name(&self.srcs[s].kind);
        let m = &mut self.srcs[s];
        match payload {
            Payload::Ping => {
                if m.pings == 0 {
                    return viol("C01.cause", &["C01", "C03"], format!("ping source #{s} called back without a ping since its last callback"));
                }
                m.pings = 0;
            }
            Payload::Msg(v) => {
                if m.closed_delivered {
                    return viol("C04.closed", &["C04", "C01"], format!("channel #{s} delivered Msg({v}) after Closed"));
                }
                match m.queue.pop_front() {
                    Some(x) if x == *v => {}
                    other => {
                        return viol("C01.cause", &["C01", "C04"], format!("channel #{s} delivered Msg({v}) but the oldest undelivered message is {other:?}"));
                    }
                }
            }
            Payload::Item(v) => {
                if m.closed_delivered {
                    return viol("C06.after_remove", &["C06", "C01"], format!("stream #{s} delivered Item({v}) after its end of stream"));
                }
                match m.queue.pop_front() {
                    Some(x) if x == *v => {}
                    other => {
                        return viol("C01.cause", &["C01"], format!("stream #{s} delivered Item({v}) but the oldest undelivered item is {other:?}"));
                    }
                }
                self.facts.stream_items += 1;
            }
            Payload::StreamEnd => {
                if m.closed_delivered {
                    return viol("C06.after_remove", &["C06", "C01"], format!("stream #{s} delivered its end of stream twice"));
                }
                if !m.stream_ended || !m.queue.is_empty() {
                    return viol(
                        "C01.cause",
                        &["C01"],
                        format!("stream #{s} delivered end of stream although the stream has {} (items undelivered: {})", if m.stream_ended { "ended" } else { "not ended" }, m.queue.len()),
                    );
                }
                m.closed_delivered = true;
                self.facts.stream_ends += 1;
            }
            Payload::Closed => {
                if m.closed_delivered {
                    return viol("C04.closed", &["C04", "C01"], format!("channel #{s} delivered Closed twice"));
                }
                if m.senders > 0 || !m.queue.is_empty() {
                    return viol(
                        "C04.closed",
                        &["C04", "C01"],
                        format!("channel #{s} delivered Closed with {} sender(s) alive and {} message(s) undelivered", m.senders, m.queue.len()),
                    );
                }
                m.closed_delivered = true;
            }
            Payload::Timer(ev) => {
                let Some(armed) = m.armed_dl else {
                    return Some((
                        Violation::new("C05.cancelled", format!("timer #{s} fired (event {ev}) although it has no live arming (cancelled, already fired or never armed)")),
                        vec!["C05", "C01"],
                    ));
                };
                if let Some((lo, hi)) = m.dl_range {
                    if *ev < lo || *ev > hi {
                        return viol("C05.deadline", &["C05"], format!("timer #{s} fired with event {ev} outside its rescheduled deadline range [{lo},{hi}]"));
                    }
                } else if m.deadline != Some(*ev) {
                    return viol("C05.deadline", &["C05"], format!("timer #{s} fired with event {ev}, its current deadline is {:?}", m.deadline));
                }
                if t_ns < *ev {
                    return Some((
                        Violation::new("C05.early", format!("timer #{s} fired {} ns before its deadline (event {ev}, now {t_ns}; arming deadline {armed})", ev - t_ns)),
                        vec!["C05"],
                    ));
                }
                if armed != *ev && m.dl_range.is_none() && m.deadline == Some(*ev) {
                    return viol("C05.deadline", &["C05"], format!("timer #{s} fired for deadline {ev} but its live arming is for {armed}"));
                }
                if let Some(last) = self.disp_last_timer_ev {
                    if *ev < last {
                        return viol("C05.order", &["C05"], format!("timer #{s} (deadline {ev}) fired after a timer with later deadline {last} in the same dispatch"));
                    }
                }
                self.disp_last_timer_ev = Some(*ev);
                let m = &mut self.srcs[s];
                m.armed_dl = None; // this arming has fired
                m.dl_range = None;
            }
            Payload::Ready { r, w, e: _, .. } => {
                // an event collected before an in-batch re-registration still belongs to this source's own
                // earlier registration: accept the interest in effect at poll time as well
                let ir = (m.interest | m.poll_interest) & 1 != 0;
                let iw = (m.interest | m.poll_interest) & 2 != 0;
                if *r && !(ir && m.ever_r) && !m.ever_h {
                    return viol(
                        "C01.cause",
                        &["C01", "C02"],
                        format!("{kname} #{s} reported readable (interest {}, fd readable since poll: {}, hup/err: {})", m.interest, m.ever_r, m.ever_h),
                    );
                }
                if *w && !(iw && m.ever_w) && !m.ever_h {
                    return viol(
                        "C01.cause",
                        &["C01", "C02"],
                        format!("{kname} #{s} reported writable (interest {}, fd writable since poll: {}, hup/err: {})", m.interest, m.ever_w, m.ever_h),
                    );
                }
                if !*r && !*w {
                    // an event without any readiness bit: only legitimate for hup/err conditions
                    if !m.ever_h {
                        return viol("C01.cause", &["C01"], format!("{kname} #{s} called back with empty readiness and no hup/err"));
                    }
                }
                if m.mode == 2 {
                    if m.stale_event_possible {
                        // the token cannot tell an event collected before the re-arming from one after it and
                        // the statement does not address it: this callback does not consume the new arming
                        m.stale_event_possible = false;
                    } else {
                        if !m.os_armed && !m.rearmed_in_disp {
                            return viol("C02.oneshot", &["C02"], format!("one-shot {kname} #{s} called back again without being re-armed by update/enable"));
                        }
                        m.os_armed = false;
                    }
                }
                m.edge_pending = false;
            }
            Payload::Probe { sub, synthetic } => {
                if *synthetic {
                    if !m.synth_owed {
                        return viol("C14.synthetic", &["C14", "C01"], format!("probe #{s} got a synthetic event it did not return from before_sleep in this dispatch"));
                    }
                    m.synth_owed = false;
                    self.facts.synthetic_events += 1;
                } else {
                    let c = m.sub_pings.get_mut(*sub as usize);
                    match c {
                        Some(c) if *c > 0 => *c = 0,
                        _ => {
                            return viol("C01.cause", &["C01", "C14"], format!("probe #{s} sub-source {sub} called back without a ping of that sub-source"));
                        }
                    }
                }
            }
            Payload::Out { task, val } => {
                let Some(t) = self.tasks.get_mut(*task) else {
                    return viol("C10.result", &["C10", "C01"], format!("executor #{s} delivered a value for unknown task {task}"));
                };
                if t.src != s {
                    return viol("C10.result", &["C10", "C01"], format!("executor #{s} delivered the value of task {task}, which belongs to executor #{}", t.src));
                }
                if !t.finished || t.delivered > 0 {
                    return viol(
                        "C10.result",
                        &["C10", "C01"],
                        format!("executor #{s} delivered the value of task {task} (finished: {}, delivered before: {})", t.finished, t.delivered),
                    );
                }
                if *val != t.val {
                    return viol("C10.result", &["C10"], format!("executor #{s} delivered value {val} for task {task}, scheduled with {}", t.val));
                }
                t.delivered += 1;
            }
            Payload::Child { child, inner } => {
                let renum = self.srcs[s].renumbered_in_disp;
                return self.check_child_cause(s, *child, inner, t_ns).map(|(v, p)| if renum { (v.with_sig(SIG_F12), p) } else { (v, p) });
            }
        }
        None
    }

    fn compute_owed(&mut self, t_before: i64) {
        let mut n_owed = 0;
        let mut kinds = BTreeSet::new();
        let mut timers_due = 0;
        for m in self.srcs.iter_mut() {
            m.owed = false;
            m.called = 0;
            m.touched = false;
            m.rearmed_in_disp = false;
            m.renumbered_in_disp = false;
            m.poll_interest = m.interest;
            m.stale_event_possible = false;
            m.bs = 0;
            m.bh = 0;
            m.bh_keys.clear();
            m.synth_owed = false;
            m.ever_r = m.r;
            m.ever_w = m.w;
            m.ever_h = m.h;
            for o in m.owed_subs.iter_mut() {
                *o = false;
            }
            m.close_owed = false;
            m.lc_expected = false;
            if m.st != St::Inserted || !m.enabled || m.taint.is_some() {
                continue;
            }
            m.lc_expected = m.lifecycle;
            m.close_owed = matches!(m.kind, Kind::Ping) && m.handles == 0;
            let owed = match &m.kind {
                Kind::Ping => m.pings > 0,
                Kind::Chan { .. } => !m.closed_delivered && (!m.queue.is_empty() || m.senders == 0),
                Kind::Timer { .. } => {
                    let due = m.armed_dl.map(|d| d <= t_before).unwrap_or(false) && m.dl_range.is_none();
                    if due {
                        timers_due += 1;
                    }
                    due
                }
                Kind::Gen { .. } => {
                    let ready = (m.interest & 1 != 0 && m.r) || (m.interest & 2 != 0 && m.w);
                    match m.mode {
                        0 => ready,
                        1 => m.edge_pending && ready,
                        _ => m.os_armed && ready,
                    }
                }
                Kind::Probe { .. } => {
                    let mut any = false;
                    for (i, c) in m.sub_pings.iter().enumerate() {
                        if *c > 0 {
                            m.owed_subs[i] = true;
                            any = true;
                        }
                    }
                    any
                }
                Kind::Exec | Kind::BadGen { .. } => false,
                Kind::Stream => m.pings > 0 && !m.closed_delivered && (!m.queue.is_empty() || m.stream_ended),
                Kind::Comp { .. } => {
                    let mut any = false;
                    for c in m.children.iter_mut() {
                        c.called = 0;
                        c.ever_r = c.r;
                        c.latitude = false;
                        let cause = match c.kind {
                            CKind::Ping => c.pings > 0,
                            CKind::Gen => c.r,
                            CKind::Timer { .. } => c.armed_dl.map(|d| d <= t_before).unwrap_or(false) && !c.dl_open,
                            CKind::Bad => false,
                        };
                        c.owed = cause && c.key.is_some() && !c.gone && !c.disabled;
                        any |= c.owed;
                    }
                    any
                }
            };
            if owed {
                m.owed = true;
                n_owed += 1;
                kinds.insert(kind_name(&m.kind));
                if let Kind::Gen { .. } = m.kind {
                    if m.mode != 0 {
                        self.facts.edge_or_oneshot_transitions += 1;
                    }
                }
            }
        }
        self.facts.max_owed_in_dispatch = self.facts.max_owed_in_dispatch.max(n_owed);
        if n_owed >= 3 {
            self.facts.owed_kinds_max = self.facts.owed_kinds_max.max(kinds.len() as u32);
        }
        if timers_due >= 2 {
            self.facts.timers_due_same_dispatch += 1;
        }
    }

    // ------------------------------------------------------------------ feed

    pub fn feed(&mut self, ev: &Ev) -> V {
        match ev {
            Ev::Created { src, info } => {
                debug_assert_eq!(*src, self.srcs.len());
                let (subs, lifecycle, synthetic) = match &info.kind {
                    Kind::Probe { subs, lifecycle, synthetic, .. } => ((*subs).max(1) as usize, *lifecycle, *synthetic),
                    _ => (0, false, None),
                };
                let (interest, mode) = match &info.kind {
                    Kind::Gen { interest, mode, .. } => (*interest & 3, *mode % 3),
                    _ => (0, 0),
                };
                self.srcs.push(MSrc {
                    kind: info.kind.clone(),
                    st: St::Created,
                    enabled: false,
                    taint: None,
                    key: 0,
                    src_drops: 0,
                    cb_drops: 0,
                    alive: true,
                    pings: if matches!(info.kind, Kind::Stream) { 1 } else { 0 },
                    handles: 1,
                    queue: VecDeque::new(),
                    senders: 1,
                    closed_delivered: false,
                    stream_ended: false,
                    stream_polled: false,
                    stream_yielded: false,
                    deadline: info.deadline_ns,
                    dl_range: None,
                    dl_d: 0,
                    close_owed: false,
                    lc_expected: false,
                    enable_pending_cause: false,
                    armed_dl: None,
                    fd: info.fd,
                    interest,
                    mode,
                    r: false,
                    w: false,
                    h: false,
                    ever_r: false,
                    ever_w: false,
                    ever_h: false,
                    registered: false,
                    os_armed: false,
                    edge_pending: false,
                    rearmed_in_disp: false,
                    poll_interest: interest,
                    stale_event_possible: false,
                    sub_pings: vec![0; subs],
                    lifecycle,
                    synthetic,
                    fail: None,
                    synth_owed: false,
                    bs: 0,
                    bh: 0,
                    bh_keys: vec![],
                    owed: false,
                    owed_subs: vec![false; subs],
                    called: 0,
                    touched: false,
                    latitude: false,
                    removed_in_own_cb: false,
                    released: false,
                    recycled: false,
                    how_removed: None,
                    renumbered_in_disp: false,
                    children: info
                        .children
                        .iter()
                        .map(|(k, t, fd, dl)| MChild {
                            kind: *k,
                            transient: *t,
                            fd: *fd,
                            key: None,
                            gone: false,
                            disabled: false,
                            pings: 0,
                            r: false,
                            ever_r: false,
                            deadline: *dl,
                            dl_open: false,
                            armed_dl: None,
                            owed: false,
                            called: 0,
                            latitude: false,
                        })
                        .collect(),
                });
                if let Some(from) = info.recycled_from {
                    self.srcs[from].recycled = true;
                }
                None
            }
            Ev::Op(rop) => {
                if matches!(rop, ROp::Insert { .. } | ROp::InsertBad { .. } | ROp::Adapt { .. }) {
                    // every insertion attempt needs one slot on top of the occupied ones (whether it succeeds or not)
                    let occ = self.srcs.iter().filter(|m| m.st == St::Inserted).count() + self.asyncs.iter().filter(|a| a.live).count();
                    self.peak_slots = self.peak_slots.max(occ + 1);
                }
                if self.cur_op.is_some() {
                    // nested: an Insert performed by Recycle after Unwrap finished, or ops are strictly bracketed
                    return None;
                }
                self.cur_op = Some((rop.clone(), vec![]));
                None
            }
            Ev::Inserted { src, tok, key, handback_ok } => {
                self.inserted_info = Some((*src, *tok, *key, *handback_ok));
                None
            }
            Ev::OpRes(res) => {
                let Some((op, evs)) = self.cur_op.take() else { return None };
                self.finish_op(op, evs, res)
            }
            Ev::SendRes { src, res } => {
                if let Some((ROp::Send { val, .. }, _)) = &self.cur_op {
                    let m = &mut self.srcs[*src];
                    match res {
                        SendRes::Ok => m.queue.push_back(*val),
                        SendRes::Full => {}
                        SendRes::Disconnected => {}
                    }
                }
                None
            }
            Ev::Fd { src, r, w, h } => {
                let m = &mut self.srcs[*src];
                let ir = m.interest & 1 != 0;
                let iw = m.interest & 2 != 0;
                if m.registered && ((ir && !m.r && *r) || (iw && !m.w && *w)) {
                    m.edge_pending = true;
                }
                m.r = *r;
                m.w = *w;
                m.h = *h;
                m.ever_r |= *r;
                m.ever_w |= *w;
                m.ever_h |= *h;
                None
            }
            Ev::TimerNow { src, deadline_ns } => {
                let m = &mut self.srcs[*src];
                if m.taint.is_some() {
                    return None;
                }
                if let Some((lo, hi)) = m.dl_range {
                    match deadline_ns {
                        Some(d) if *d >= lo && *d <= hi => {
                            m.deadline = Some(*d);
                            if m.armed_dl.is_some() {
                                m.armed_dl = Some(*d);
                            }
                            m.dl_range = None;
                        }
                        other => {
                            let other = *other;
                            return viol("C05.deadline", &["C05"], format!("timer #{src} rescheduled by duration has deadline {other:?}, expected within [{lo},{hi}]"));
                        }
                    }
                } else if m.deadline != *deadline_ns && m.st == St::Inserted {
                    let (a, b) = (m.deadline, *deadline_ns);
                    return viol("C05.deadline", &["C05"], format!("timer #{src} current_deadline() is {b:?}, model expects {a:?}"));
                }
                None
            }
            Ev::DispBegin { t_ns, timeout_ms } => {
                self.disp_timeout_ms = *timeout_ms;
                self.disp_synth_promised = false;
                self.disp_first_cb_ns = None;
                self.in_disp = true;
                self.disp_no += 1;
                self.disp_t0 = *t_ns;
                self.disp_err_cause = false;
                self.disp_reg_failed = false;
                self.disp_hooks_failed = false;
                self.disp_first_proc_seen = false;
                self.disp_idle_phase = false;
                self.disp_idles_ran.clear();
                self.disp_last_timer_ev = None;
                self.disp_actors = 0;
                self.facts.dispatches += 1;
                self.compute_owed(*t_ns);
                for t in self.tasks.iter_mut() {
                    let m = &self.srcs[t.src];
                    t.owed = t.accepted && t.runnable && !t.finished && t.drops == 0 && m.st == St::Inserted && m.enabled && m.taint.is_none();
                }
                for m in self.asyncs.iter_mut() {
                    m.touched = false;
                    m.woken_in_disp = false;
                    m.owed = m.live && !m.armed_unknown && match m.armed {
                        Some(true) => m.fd_w,
                        Some(false) => m.fd_r,
                        None => false,
                    };
                }
                None
            }
            Ev::BeforeSleep { src, ret, err } => {
                let s = *src;
                if !self.in_disp || self.disp_first_proc_seen {
                    return viol("C14.order", &["C14"], format!("before_sleep of source #{s} outside the pre-wait phase of a dispatch"));
                }
                if self.srcs.iter().any(|m| m.bh > 0) {
                    return viol("C14.order", &["C14"], format!("before_sleep of source #{s} after a before_handle_events call of the same dispatch"));
                }
                let tainted = self.srcs[s].taint.is_some();
                if !tainted {
                    if !self.srcs[s].lifecycle {
                        return viol("C14.sleep_once", &["C14"], format!("before_sleep called on source #{s} which did not opt in"));
                    }
                    if !self.live(s) {
                        return Some((
                            Violation::new("C14.sleep_once", format!("before_sleep called on source #{s} which is {} (state {:?})", if self.srcs[s].enabled { "not inserted" } else { "disabled" }, self.srcs[s].st))
                                .with_sig("C14.sleep_once/not-live"),
                            vec!["C14", "C15", "C07"],
                        ));
                    }
                    if self.srcs[s].bs >= 1 {
                        return Some((
                            Violation::new("C14.sleep_once", format!("before_sleep called twice on source #{s} in one dispatch")).with_sig("C14.sleep_once/twice"),
                            vec!["C14"],
                        ));
                    }
                }
                self.srcs[s].bs += 1;
                if *err {
                    self.disp_hooks_failed = true;
                    self.disp_err_cause = true;
                } else if ret.is_some() {
                    self.srcs[s].synth_owed = true;
                    self.disp_synth_promised = true;
                }
                None
            }
            Ev::BeforeHandle { src, keys } => {
                let s = *src;
                if !self.in_disp || self.disp_first_proc_seen {
                    return viol("C14.order", &["C14"], format!("before_handle_events of source #{s} after event processing began"));
                }
                if self.srcs[s].taint.is_some() {
                    self.srcs[s].bh += 1;
                    return None;
                }
                if !self.live(s) || !self.srcs[s].lifecycle {
                    return Some((
                        Violation::new("C14.handle_once", format!("before_handle_events called on source #{s} which is not a live lifecycle source")).with_sig("C14.handle_once/not-live"),
                        vec!["C14", "C15", "C07"],
                    ));
                }
                if self.srcs[s].bs != 1 {
                    return viol("C14.order", &["C14"], format!("before_handle_events of source #{s} without exactly one preceding before_sleep ({})", self.srcs[s].bs));
                }
                if self.srcs[s].bh >= 1 {
                    return Some((
                        Violation::new("C14.handle_once", format!("before_handle_events called twice on source #{s} in one dispatch")).with_sig("C14.handle_once/twice"),
                        vec!["C14"],
                    ));
                }
                let m = &mut self.srcs[s];
                m.bh += 1;
                m.bh_keys = keys.clone();
                let nsubs = m.sub_pings.len() as u64;
                for k in keys {
                    if key_src(*k) != key_src(m.key) {
                        return viol("C14.iter", &["C14"], format!("before_handle_events of source #{s} was shown key {k:#x} of another source (own key {:#x})", m.key));
                    }
                    let sub = k & 0xFFFF;
                    if sub >= nsubs {
                        return viol("C14.iter", &["C14"], format!("before_handle_events of source #{s} was shown key {k:#x} which is not one of its {nsubs} real sub-sources (synthetic token?)"));
                    }
                }
                // every sub-source the harness pinged must be among the real events
                for (i, c) in m.sub_pings.iter().enumerate() {
                    if *c > 0 && m.taint.is_none() && !keys.iter().any(|k| (k & 0xFFFF) as usize == i) {
                        return viol("C14.iter", &["C14", "C02"], format!("before_handle_events of source #{s} does not list pinged sub-source {i} (keys {keys:x?})"));
                    }
                }
                None
            }
            Ev::StreamSelfWake { src } => {
                // the wake-up it gave itself is pending again; this pass ends without draining
                let m = &mut self.srcs[*src];
                m.pings = 1;
                m.stream_yielded = true;
                // the stream itself declared "nothing ready right now": what was owed in this dispatch is owed in the next
                m.touched = true;
                self.facts.stream_self_wakes += 1;
                None
            }
            Ev::StreamPoll { src } => {
                let s = *src;
                if self.cur_proc != Some(s) {
                    return viol("C01.live", &["C01"], format!("stream of source #{s} polled outside its own event processing"));
                }
                let m = &mut self.srcs[s];
                if !m.stream_polled {
                    // the wake-up that led here is consumed; anything fed from now on wakes the source again
                    m.stream_polled = true;
                    m.pings = 0;
                }
                None
            }
            Ev::Proc { src, key, r, w, .. } => {
                if let Some(v) = self.close_win() {
                    return Some(v);
                }
                let s = *src;
                if !self.in_disp {
                    return viol("C01.live", &["C01"], format!("process_events of source #{s} outside a dispatch"));
                }
                if self.disp_idle_phase {
                    return viol("C13.phase", &["C13"], format!("source #{s} processed events after idle callbacks started in the same dispatch"));
                }
                if !self.disp_first_proc_seen {
                    self.disp_first_proc_seen = true;
                    // lifecycle protocol: every live lifecycle source must have had exactly one of each by now
                    if !self.disp_hooks_failed {
                        for (i, m) in self.srcs.iter().enumerate() {
                            if m.lc_expected && m.taint.is_none() && (m.bs != 1 || m.bh != 1) {
                                return viol(
                                    "C14.sleep_once",
                                    &["C14"],
                                    format!("lifecycle source #{i} got {} before_sleep and {} before_handle_events calls before event processing", m.bs, m.bh),
                                );
                            }
                        }
                    }
                }
                self.cur_proc = Some(s);
                self.cur_proc_key = *key;
                self.srcs[s].stream_polled = false;
                self.srcs[s].stream_yielded = false;
                self.last_cb_post = None;
                let m = &self.srcs[s];
                if m.taint.is_none() && m.st != St::Created && m.st != St::Rejected && key_src(*key) != key_src(m.key) {
                    return viol(
                        "C01.key",
                        &["C01", "C20"],
                        format!("source #{s} (registration key {:#x}) was handed an event with key {key:#x} of another registration", m.key),
                    );
                }
                if m.lifecycle && m.taint.is_none() && self.live(s) {
                    let nsubs = m.sub_pings.len() as u64;
                    let sub = key & 0xFFFF;
                    // (a write-only event on a sub-source's token is the probe's own synthetic event riding on that token)
                    let synthetic_on_sub = *w && !*r && m.synth_owed;
                    if sub < nsubs && !m.bh_keys.contains(key) && m.bh == 1 && !synthetic_on_sub {
                        return viol("C14.iter", &["C14"], format!("source #{s} processes real event {key:#x} that was not shown to its before_handle_events ({:x?})", m.bh_keys));
                    }
                }
                None
            }
            Ev::Cb { src, payload, t_ns } => {
                let s = *src;
                if self.in_disp && self.disp_first_cb_ns.is_none() {
                    self.disp_first_cb_ns = Some(*t_ns);
                }
                self.facts.callbacks += 1;
                self.cur_cb = Some(s);
                self.cb_depth += 1;
                let m = &self.srcs[s];
                if m.taint.is_some() {
                    return None;
                }
                let lat = m.latitude && self.cur_proc == Some(s);
                if m.st != St::Inserted && !lat {
                    return Some((
                        Violation::new(
                            "C06.after_remove",
                            format!("callback of {} #{s} invoked although the source is {:?} (payload {payload:?})", kind_name(&m.kind), m.st),
                        ),
                        vec!["C06", "C01"],
                    ));
                }
                if !m.enabled && !lat {
                    return Some((
                        Violation::new("C07.silent", format!("callback of {} #{s} invoked while disabled (payload {payload:?})", kind_name(&m.kind))),
                        vec!["C07", "C01"],
                    ));
                }
                if self.cur_proc != Some(s) {
                    return viol("C01.live", &["C01"], format!("callback of source #{s} invoked while source {:?} is being processed", self.cur_proc));
                }
                if let Payload::Child { child, .. } = payload {
                    self.cur_child = Some(*child);
                }
                if let Some(v) = self.check_cause(s, payload, *t_ns) {
                    return Some(v);
                }
                let m = &mut self.srcs[s];
                if m.owed && m.called == 0 && m.touched {
                    // delivered although touched: allowed (latitude of the statement is one-directional)
                }
                m.called += 1;
                if m.enable_pending_cause {
                    m.enable_pending_cause = false;
                    self.facts.disabled_cause_delivered += 1;
                }
                if let Payload::Probe { sub, synthetic: false } = payload {
                    if let Some(o) = m.owed_subs.get_mut(*sub as usize) {
                        *o = false;
                    }
                }
                None
            }
            Ev::CbEnd { src, timer, new_deadline_ns, t_ns, post } => {
                let s = *src;
                self.last_cb_post = Some((s, *post));
                self.cur_cb = None;
                self.cb_depth = self.cb_depth.saturating_sub(1);
                if let Some(ci) = self.cur_child.take() {
                    let reg = self.srcs[s].registered;
                    if let Some(c) = self.srcs[s].children.get_mut(ci as usize) {
                        if let CKind::Timer { .. } = c.kind {
                            match timer {
                                TRet::Drop => {}
                                TRet::ToInstant(d) => {
                                    // the composite computes the instant itself: callback start + d .. return + d
                                    // (deadline known only approximately: dl_open)
                                    c.deadline = Some(*t_ns + *d as i64 * 1000);
                                    c.dl_open = true;
                                    c.armed_dl = if reg && c.key.is_some() { c.deadline } else { None };
                                }
                                TRet::ToDuration(us) => {
                                    c.deadline = Some(*t_ns + *us as i64 * 1000);
                                    c.dl_open = true;
                                    c.armed_dl = if reg && c.key.is_some() { c.deadline } else { None };
                                }
                                TRet::ToDurationMax => {
                                    c.deadline = None;
                                }
                            }
                        }
                        if c.transient && matches!(c.kind, CKind::Timer { .. }) && matches!(timer, TRet::Drop | TRet::ToDurationMax) {
                            // the timer asks for its own removal: the transient wrapper drops it
                            c.gone = true;
                            c.latitude = true;
                        }
                        if c.transient {
                            match post {
                                PostRet::Remove => {
                                    c.gone = true;
                                    c.latitude = true;
                                }
                                PostRet::Disable => {
                                    c.disabled = true;
                                    c.latitude = true;
                                }
                                _ => {}
                            }
                        }
                    }
                    let _ = new_deadline_ns;
                    return None;
                }
                if let Kind::Timer { .. } = self.srcs[s].kind {
                    let m = &mut self.srcs[s];
                    match timer {
                        TRet::Drop => {}
                        TRet::ToInstant(_) => {
                            m.deadline = *new_deadline_ns;
                            m.dl_range = None;
                            if m.registered {
                                m.armed_dl = *new_deadline_ns;
                            }
                        }
                        TRet::ToDuration(us) => {
                            let d = *us as i64 * 1000;
                            // deadline = Instant::now() + d evaluated between CbEnd and ProcRet
                            m.deadline = Some(t_ns + d);
                            m.dl_d = d;
                            m.dl_range = Some((t_ns + d, i64::MAX));
                            if m.registered {
                                m.armed_dl = Some(t_ns + d);
                            }
                        }
                        TRet::ToDurationMax => {
                            m.deadline = None;
                        }
                    }
                }
                None
            }
            Ev::ProcRet { src, ret, t_ns } => {
                let s = *src;
                self.cur_proc = None;
                if let Kind::Stream = self.srcs[s].kind {
                    let m = &self.srcs[s];
                    // C06: the end of the stream is one of the ways a source leaves the loop
                    if m.stream_polled && m.taint.is_none() && m.closed_delivered && m.st == St::Inserted && *ret != PRet::Remove && *ret != PRet::Err {
                        return viol("C06.stream_end", &["C06", "C10"], format!("stream #{s} delivered its end of stream but asked for {ret:?} instead of its removal"));
                    }
                    // the stream is polled until it is pending: a wake-up that leaves ready items behind loses them
                    // (nothing will wake the source for them again)
                    if m.stream_polled && !m.stream_yielded && m.taint.is_none() && *ret != PRet::Err && !m.closed_delivered && (!m.queue.is_empty() || m.stream_ended) {
                        return viol(
                            "C02.stream_drain",
                            &["C02", "C10"],
                            format!("stream #{s} finished processing with {} ready item(s) undelivered (ended: {})", m.queue.len(), m.stream_ended),
                        );
                    }
                }
                // close the duration-reschedule range: the timer evaluated Instant::now() + d between CbEnd and ProcRet
                if let Some((lo, hi)) = self.srcs[s].dl_range {
                    if hi == i64::MAX {
                        let hi2 = *t_ns + self.srcs[s].dl_d;
                        self.srcs[s].dl_range = Some((lo, hi2));
                    }
                }
                let pending = std::mem::replace(&mut self.pending, PRet::Continue);
                let removed_in_cb = self.srcs[s].removed_in_own_cb;
                self.srcs[s].removed_in_own_cb = false;
                self.srcs[s].latitude = false;
                if *ret == PRet::Err {
                    self.disp_err_cause = true;
                    if pending != PRet::Continue {
                        self.facts.deferred_with_err += 1;
                    }
                    if self.srcs.iter().any(|m| m.owed && m.called == 0 && !m.touched && m.st == St::Inserted) {
                        self.facts.err_with_pending_batch += 1;
                    }
                    // the failing source itself stays what it was: no post-action, a deferred request is discarded.
                    // (composites are left alone afterwards: which of their children had already acted on the event
                    // when the error was raised is their own business)
                    self.facts.sources_returned_err += 1;
                    if let Kind::Comp { .. } = self.srcs[s].kind {
                        self.taint(s, "returned_err");
                    }
                    self.win = Some(PostWin { src: s, effective: PRet::Err, removed_in_cb, events: vec![], err: true });
                    return None;
                }
                let effective = if *ret != PRet::Continue { *ret } else { pending };
                if effective != PRet::Continue {
                    self.disp_actors += 1;
                }
                if self.srcs[s].st == St::Inserted {
                    // a ping source leaves on its own only for its close event, which every ping precedes: a ping that is
                    // still undelivered at that moment is lost for good
                    if let (Kind::Ping, PRet::Remove) = (&self.srcs[s].kind, *ret) {
                        let m = &self.srcs[s];
                        if m.taint.is_none() && m.pings > 0 && self.last_cb_post != Some((s, PostRet::Remove)) {
                            return viol(
                                "C03.served",
                                &["C03", "C02", "C06"],
                                format!("ping source #{s} removed itself (handles left: {}) although a ping that has returned is still undelivered", m.handles),
                            );
                        }
                    }
                    match effective {
                        PRet::Remove => {
                            let m = &mut self.srcs[s];
                            m.st = St::Removed;
                            let how = match (&m.kind, *ret) {
                                (Kind::Timer { .. }, _) => "timer_drop_or_post_remove",
                                (Kind::Ping, _) if m.handles == 0 => "ping_closed",
                                (Kind::Chan { .. }, _) if m.closed_delivered => "channel_closed",
                                (Kind::Stream, _) if m.closed_delivered => "stream_ended",
                                _ => "post_action_remove",
                            };
                            m.how_removed = Some(how);
                            self.facts.removal_paths.insert(how);
                        }
                        PRet::Disable => {
                            self.srcs[s].enabled = false;
                        }
                        PRet::Reregister => {
                            // re-registered during this dispatch: what was collected for its other
                            // sub-sources before is no longer owed in this dispatch (statement of C02)
                            self.srcs[s].touched = true;
                        }
                        _ => {}
                    }
                }
                self.win = Some(PostWin { src: s, effective, removed_in_cb, events: vec![], err: false });
                None
            }
            Ev::Reg { src, res, keys } => {
                if res.is_ok() {
                    if let Some(v) = self.check_comp_children(*src, keys) {
                        return Some(v);
                    }
                    self.comp_keys(*src, keys, true);
                } else {
                    // a composite whose registration failed half-way does not roll back (book style): the timer
                    // children it did register stay in the wheel as ghosts until their deadline passes
                    let m = &self.srcs[*src];
                    let ghosts = m
                        .children
                        .iter()
                        .enumerate()
                        .filter(|(i, c)| matches!(c.kind, CKind::Timer { .. }) && c.deadline.is_some() && keys.get(*i).map_or(false, |k| *k != u64::MAX))
                        .count();
                    self.ghost_timers += ghosts;
                    if ghosts > 0 {
                        self.facts.failed_comp_left_timer += 1;
                    }
                }
                self.on_regev(RegKind::Reg, *src, res)
            }
            Ev::Rereg { src, res, keys } => {
                if res.is_ok() {
                    if let Some(v) = self.check_comp_children(*src, keys) {
                        return Some(v);
                    }
                    self.comp_keys(*src, keys, true);
                }
                self.on_regev(RegKind::Rereg, *src, res)
            }
            Ev::Unreg { src, res } => {
                if res.is_ok() {
                    self.comp_keys(*src, &[], false);
                }
                self.on_regev(RegKind::Unreg, *src, res)
            }
            Ev::IdleRun { idle } => {
                if let Some(v) = self.close_win() {
                    return Some(v);
                }
                let i = *idle;
                if !self.in_disp {
                    return viol("C13.phase", &["C13"], format!("idle #{i} ran outside a dispatch"));
                }
                self.disp_idle_phase = true;
                self.cur_idle = Some(i);
                self.cb_depth += 1;
                let d = &self.idles[i];
                if d.cancelled {
                    return viol("C13.cancelled", &["C13"], format!("cancelled idle #{i} ran"));
                }
                if d.ran > 0 {
                    return viol("C13.once", &["C13"], format!("idle #{i} ran twice"));
                }
                if d.not_before > self.disp_no {
                    return viol("C13.next", &["C13"], format!("idle #{i} inserted by an idle callback ran in the same dispatch"));
                }
                // insertion order: no earlier runnable idle may still be waiting
                for (j, e) in self.idles.iter().enumerate().take(i) {
                    if !e.cancelled && e.ran == 0 && e.not_before <= self.disp_no {
                        return viol("C13.order", &["C13"], format!("idle #{i} ran before idle #{j} which was inserted earlier"));
                    }
                }
                self.idles[i].ran += 1;
                self.disp_idles_ran.push(i);
                self.facts.idles_run += 1;
                None
            }
            Ev::IdleEnd { .. } => {
                self.cur_idle = None;
                self.cb_depth = self.cb_depth.saturating_sub(1);
                None
            }
            Ev::DispEnd { res, t_ns } => {
                let wv = self.close_win();
                self.in_disp = false;
                self.cur_proc = None;
                self.cur_cb = None;
                self.cur_idle = None;
                self.cb_depth = 0;
                self.cur_op = None;
                if let Res::Panic { msg, file, line } = res {
                    self.stop = true;
                    let rule = if self.any_lifecycle_trouble(msg) { "C15.panic" } else { "C08.panic" };
                    return Some((
                        Violation::new(rule, format!("dispatch panicked: {msg} at {file}:{line}")).with_sig(format!("{rule}/{}:{line}", short(file))),
                        vec!["C08", "C15", "C14"],
                    ));
                }
                if let Some(v) = wv {
                    return Some(v);
                }
                if self.disp_actors >= 2 {
                    self.facts.multi_act_batch += 1;
                }
                match res {
                    Res::Ok => {
                        if self.disp_err_cause {
                            return viol("C15.err", &["C15"], "a source's event processing (or before_sleep) failed but dispatch returned Ok".to_string());
                        }
                        if !self.disp_hooks_failed {
                            for (i, m) in self.srcs.iter().enumerate() {
                                if m.lc_expected && m.taint.is_none() && (m.bs != 1 || m.bh != 1) {
                                    return viol(
                                        "C14.sleep_once",
                                        &["C14"],
                                        format!("lifecycle source #{i} got {} before_sleep and {} before_handle_events calls in a dispatch that returned Ok", m.bs, m.bh),
                                    );
                                }
                            }
                        }
                        for (i, t) in self.tasks.iter().enumerate() {
                            let m = &self.srcs[t.src];
                            if m.taint.is_some() || m.touched {
                                continue;
                            }
                            if t.owed && m.st == St::Inserted && m.enabled {
                                return viol(
                                    "C10.wake",
                                    &["C10", "C02"],
                                    format!("task {i} of executor #{} was runnable (scheduled or woken) when the dispatch started and was not polled by this Ok dispatch ({} polls so far)", t.src, t.polls),
                                );
                            }
                            if t.finished && t.delivered == 0 && t.drops <= 1 && m.st == St::Inserted && m.enabled {
                                return viol("C10.result", &["C10", "C02"], format!("task {i} of executor #{} completed but its value was not delivered by the end of the dispatch", t.src));
                            }
                        }
                        for (i, m) in self.asyncs.iter().enumerate() {
                            if m.owed && !m.touched && !m.woken_in_disp && m.live {
                                return Some((
                                    Violation::new(
                                        "C17.stuck",
                                        format!(
                                            "adapter #{i} (fd {}) had a waiter armed for {} and poll(2) showed the fd ready before the dispatch, but the dispatch returned Ok without waking the stored waker",
                                            m.fd,
                                            if m.armed == Some(true) { "WRITE" } else { "READ" }
                                        ),
                                    )
                                    .with_sig("C17.stuck/hist-waiter-not-woken"),
                                    vec!["C02", "C17", "C16"],
                                ));
                            }
                        }
                        for (i, m) in self.srcs.iter().enumerate() {
                            if m.close_owed && !m.touched && m.taint.is_none() && m.st == St::Inserted && m.enabled {
                                return viol(
                                    "C03.close",
                                    &["C03", "C06", "C12"],
                                    format!("ping source #{i} whose handles are all gone was still inserted after a dispatch that returned Ok"),
                                );
                            }
                        }
                        // obligations
                        for (i, m) in self.srcs.iter().enumerate() {
                            if m.taint.is_some() || !m.owed || m.touched {
                                continue;
                            }
                            let missing = match &m.kind {
                                Kind::Comp { .. } => m.children.iter().any(|c| c.owed && c.called == 0 && !c.gone && !c.disabled && c.key.is_some()),
                                Kind::Probe { .. } => m.owed_subs.iter().any(|o| *o),
                                _ => m.called == 0,
                            };
                            if missing && m.st == St::Inserted && m.enabled {
                                let (rule, props): (&str, &[&'static str]) = match &m.kind {
                                    Kind::Timer { .. } => ("C05.window", &["C05", "C02", "C15"]),
                                    Kind::Stream | Kind::Exec => ("C02.owed", &["C02", "C07", "C15", "C10"]),
                                    _ => ("C02.owed", &["C02", "C07", "C15", "C03", "C04"]),
                                };
                                let renum = m.renumbered_in_disp;
                                return viol(
                                    rule,
                                    props,
                                    format!(
                                        "{} #{i} had a pending cause when the dispatch started waiting (t={}) and the dispatch returned Ok at t={t_ns} without invoking its callback",
                                        kind_name(&m.kind),
                                        self.disp_t0
                                    ),
                                )
                                .map(|(v, p)| if renum { (v.with_sig(SIG_F12), p) } else { (v, p) });
                            }
                        }
                        // a ping source whose handles are all gone must have removed itself
                        // idles: everything runnable must have run
                        for (i, d) in self.idles.iter().enumerate() {
                            if !d.cancelled && d.ran == 0 && d.not_before <= self.disp_no {
                                // C08: insert_idle issued from a callback must have the effect it has outside a dispatch
                                let tags: &[&'static str] = if d.inserted_in_cb { &["C13", "C08"] } else { &["C13"] };
                                return viol("C13.once", tags, format!("idle #{i}{} did not run in a dispatch that returned Ok", if d.inserted_in_cb { " (inserted from a callback)" } else { "" }));
                            }
                        }
                        for d in self.idles.iter_mut() {
                            if d.not_before <= self.disp_no {
                                d.taken = true;
                            }
                        }
                        // a synthetic event forces a non-blocking wait: a long-timeout dispatch must not have slept
                        if self.disp_synth_promised && self.disp_timeout_ms >= 150 && !self.disp_hooks_failed {
                            // up to the first callback: what the callbacks of the batch cost afterwards is not the wait
                            let waited_ms = (self.disp_first_cb_ns.unwrap_or(*t_ns) - self.disp_t0) / 1_000_000;
                            self.facts.long_dispatch_with_synthetic += 1;
                            if waited_ms >= 100 {
                                return viol(
                                    "C14.synthetic",
                                    &["C14", "C12"],
                                    format!("a before_sleep hook returned a synthetic event, but the dispatch (timeout {} ms) took {waited_ms} ms: the wait was not made non-blocking", self.disp_timeout_ms),
                                );
                            }
                        }
                        // synthetic events promised by before_sleep must have been delivered
                        for (i, m) in self.srcs.iter().enumerate() {
                            if m.synth_owed && m.taint.is_none() && m.st == St::Inserted && m.enabled && !m.touched {
                                return viol("C14.synthetic", &["C14"], format!("synthetic event returned by before_sleep of source #{i} was not delivered in the same dispatch"));
                            }
                        }
                    }
                    _ => {
                        self.facts.failed_dispatches += 1;
                        if !self.disp_err_cause && !self.disp_reg_failed {
                            // an error we did not cause: outside every statement; stop judging this case
                            self.stop = true;
                            if self.any_taint() {
                                // a source used against its documented protocol may fail on its own (e.g. the deferred
                                // re-registration of a source that was updated while disabled): outside every statement
                                self.facts.foreign = Some(format!("dispatch failed without a modelled cause: {res:?}"));
                                return None;
                            }
                            // nobody was scripted to fail and nobody was misused: a source's own event processing failed,
                            // which calloop's sources only do when they are handed an event that is not theirs (a ping /
                            // channel source reading its empty eventfd) or lost their registration
                            let sig = if self.srcs.iter().any(|m| m.renumbered_in_disp) { "C01/composite-renumbered-in-batch" } else { "C01.cause/unexplained-dispatch-error" };
                            return Some((
                                Violation::new("C01.cause", format!("dispatch returned {res:?} although no source was scripted to fail and none was misused: some source's event processing failed on an event that cannot be its own")).with_sig(sig),
                                vec!["C01", "C06", "C15", "C16"],
                            ));
                        }
                        if !self.disp_idles_ran.is_empty() {
                            return viol("C13.phase", &["C13"], format!("idle callbacks {:?} ran in a dispatch that returned an error", self.disp_idles_ran));
                        }
                    }
                }
                None
            }
            Ev::SrcDrop { src } => {
                let m = &mut self.srcs[*src];
                m.src_drops += 1;
                m.alive = false;
                if m.src_drops > 1 {
                    return viol("C06.drop_once", &["C06"], format!("source #{src} dropped {} times", m.src_drops));
                }
                None
            }
            Ev::CbDrop { src } => {
                for a in self.asyncs.iter_mut() {
                    if a.given_to == Some(*src) && a.live {
                        // the adapter goes with the closure that owned it
                        a.live = false;
                        a.armed = None;
                        a.touched = true;
                    }
                }
                let m = &mut self.srcs[*src];
                m.cb_drops += 1;
                if m.cb_drops > 1 {
                    return viol("C06.drop_once", &["C06"], format!("callback of source #{src} dropped {} times", m.cb_drops));
                }
                None
            }
            Ev::IdleDrop { idle } => {
                let d = &mut self.idles[*idle];
                d.drops += 1;
                if d.drops > 1 {
                    return viol("C06.drop_once", &["C06", "C13"], format!("idle #{idle} dropped {} times", d.drops));
                }
                None
            }
            Ev::Stats { slots, occupied, lifecycle_len, lifecycle_distinct, heap, pending_continue, .. } => {
                if self.in_disp {
                    return None;
                }
                if !*pending_continue {
                    return viol("C09.leak", &["C09"], "a deferred post-action is still pending while no event processing is on the stack".to_string());
                }
                for (i, t) in self.tasks.iter().enumerate() {
                    if t.accepted && t.drops == 0 && self.srcs[t.src].src_drops > 0 {
                        return viol(
                            "C10.drop",
                            &["C10", "C06"],
                            format!("executor #{} has been dropped but the future of its task {i} has not (finished: {})", t.src, t.finished),
                        );
                    }
                }
                if self.any_taint() {
                    return None;
                }
                let want_occ = self.srcs.iter().filter(|m| m.st == St::Inserted).count() + self.asyncs.iter().filter(|a| a.live).count();
                if *occupied != want_occ {
                    return viol(
                        "C06.release",
                        &["C06", "C15"],
                        format!("loop has {occupied} occupied slots, model has {want_occ} inserted sources and live adapters"),
                    );
                }
                // the source list reuses its first vacant slot, so it is never longer than the largest number of slots
                // that were needed at the same time: a longer list means slots that are never handed out again
                if *slots > self.peak_slots {
                    return viol(
                        "C15.slots",
                        &["C15", "C06"],
                        format!("the source list has {slots} slots although at most {} were ever needed at once ({occupied} occupied now): slots leaked", self.peak_slots),
                    );
                }
                let want_lc = self.srcs.iter().filter(|m| m.lifecycle && m.st == St::Inserted && m.enabled).count();
                if *lifecycle_len != want_lc || *lifecycle_distinct != want_lc {
                    return Some((
                        Violation::new(
                            "C14.set",
                            format!("lifecycle set has {lifecycle_len} entries ({lifecycle_distinct} distinct), model has {want_lc} enabled lifecycle sources"),
                        )
                        .with_sig(if *lifecycle_len > *lifecycle_distinct { "C14.set/duplicate" } else { "C14.set/stale-or-missing" }),
                        // C09: a Disable / Remove post-action that leaves the lifecycle entry behind was applied only in part;
                        // C06: a removed source that is still on the list has not been released by the loop
                        vec!["C14", "C15", "C09", "C06"],
                    ));
                }
                let want_heap = self.srcs.iter().filter(|m| matches!(m.kind, Kind::Timer { .. }) && m.armed_dl.is_some()).count()
                    + self.srcs.iter().map(|m| m.children.iter().filter(|c| c.armed_dl.is_some()).count()).sum::<usize>();
                if *heap < want_heap || *heap > want_heap + self.ghost_timers {
                    return viol("C05.residue", &["C05"], format!("timer heap holds {heap} entries, model has {want_heap} live unfired armings (+ at most {} left behind by composites whose insertion failed half-way)", self.ghost_timers));
                }
                None
            }
            Ev::Epoll { entries } => {
                if self.base_epoll.is_none() {
                    self.base_epoll = Some(entries.clone());
                    return None;
                }
                if self.in_disp || self.any_taint() {
                    return None;
                }
                self.check_epoll(entries)
            }
            Ev::Released { src, ok } => {
                let m = &mut self.srcs[*src];
                let must = (m.st != St::Inserted || self.loop_dropped) && !self.in_disp;
                if *ok {
                    m.released = true;
                }
                if must && !*ok && m.taint.is_none() {
                    return viol(
                        "C06.release",
                        &["C06"],
                        format!("into_source_inner on the kept dispatcher of source #{src} ({:?}, loop dropped: {}) failed: the loop still holds it", m.st, self.loop_dropped),
                    );
                }
                None
            }
            Ev::BagsCleared => {
                for a in self.asyncs.iter_mut() {
                    if a.given_to.is_some() {
                        a.live = false;
                        a.armed = None;
                    }
                }
                None
            }
            Ev::FaultSites { .. } => None,
            Ev::Exhausted => {
                self.stop = true;
                self.facts.foreign = Some("callback budget exhausted".into());
                None
            }
            Ev::Adapted { a, nonblocking_after } => {
                self.pending_adapt = Some((*a, *nonblocking_after));
                None
            }
            Ev::AsyncReleased { a, nonblocking_after } => {
                self.pending_release = Some((*a, *nonblocking_after));
                None
            }
            Ev::AsyncPolled { a, ready } => {
                if let Some(m) = self.asyncs.get_mut(*a) {
                    m.pending_wait = Some(*ready);
                }
                None
            }
            Ev::AsyncFd { a, r, w } => {
                if let Some(m) = self.asyncs.get_mut(*a) {
                    m.fd_r = *r;
                    m.fd_w = *w;
                }
                None
            }
            Ev::AsyncWakes { a, n } => {
                let Some(m) = self.asyncs.get_mut(*a) else { return None };
                let delta = n.saturating_sub(m.wakes_seen);
                m.wakes_seen = *n;
                if delta > 0 {
                    m.woken_in_disp = true;
                    if m.touched {
                        m.armed_unknown = true;
                    }
                    if m.armed.is_some() && !m.touched {
                        // the one-shot registration fired and used up the stored waker
                        m.armed = None;
                        self.facts.adapter_wakes += 1;
                    } else if !m.touched && m.live {
                        return viol("C01.cause", &["C01", "C17"], format!("adapter #{a} woke its waker {delta} time(s) although no wait was armed"));
                    }
                    if delta > 1 && !m.touched {
                        return viol("C02.oneshot", &["C02", "C17"], format!("adapter #{a} woke one stored waker {delta} times in one dispatch"));
                    }
                }
                None
            }
            Ev::LoopDropped => {
                self.loop_dropped = true;
                None
            }
            Ev::KeptDropped => None,
            Ev::End => {
                for (i, m) in self.srcs.iter().enumerate() {
                    if m.src_drops != 1 {
                        return viol("C06.drop_once", &["C06"], format!("source #{i} ({}) dropped {} times by the end of the case", kind_name(&m.kind), m.src_drops));
                    }
                    if m.cb_drops != 1 {
                        return viol("C06.drop_once", &["C06"], format!("callback of source #{i} ({}) dropped {} times by the end of the case", kind_name(&m.kind), m.cb_drops));
                    }
                }
                for (i, d) in self.idles.iter().enumerate() {
                    if d.drops != 1 {
                        return viol("C06.drop_once", &["C06", "C13"], format!("idle #{i} dropped {} times by the end of the case", d.drops));
                    }
                }
                None
            }
            Ev::Poll { task, thread_ok } => {
                let Some(t) = self.tasks.get_mut(*task) else { return None };
                let s = t.src;
                if !*thread_ok {
                    return viol("C10.thread", &["C10"], format!("task {task} polled off the loop thread"));
                }
                t.polls += 1;
                t.in_poll = true;
                let (finished, dropped) = (t.finished, t.drops);
                t.runnable = false;
                t.owed = false;
                let m = &self.srcs[s];
                if m.taint.is_some() {
                    return None;
                }
                if finished || dropped > 0 {
                    return viol("C10.result", &["C10"], format!("task {task} polled after it had completed / been dropped"));
                }
                if self.cur_proc != Some(s) {
                    return viol("C01.live", &["C01", "C10"], format!("task {task} of executor #{s} polled while {:?} is being processed", self.cur_proc));
                }
                let lat = m.latitude && self.cur_proc == Some(s);
                if m.st != St::Inserted && !lat {
                    return viol("C06.after_remove", &["C06", "C10", "C01"], format!("task {task} polled although its executor #{s} is {:?}", m.st));
                }
                if !m.enabled && !lat {
                    return viol("C07.silent", &["C07", "C10", "C01"], format!("task {task} polled while its executor #{s} is disabled"));
                }
                self.facts.task_polls += 1;
                None
            }
            Ev::PollEnd { task, ready } => {
                let Some(t) = self.tasks.get_mut(*task) else { return None };
                t.in_poll = false;
                let expect_ready = t.remaining == 0;
                if !expect_ready {
                    t.remaining -= 1;
                    if t.self_wake {
                        t.runnable = true;
                    }
                }
                if *ready {
                    t.finished = true;
                }
                debug_assert_eq!(*ready, expect_ready, "scripted future out of step with the model");
                None
            }
            Ev::FutDrop { task, thread_ok } => {
                let Some(t) = self.tasks.get_mut(*task) else { return None };
                t.drops += 1;
                t.runnable = false;
                t.owed = false;
                if !*thread_ok {
                    return viol("C10.thread", &["C10"], format!("future of task {task} dropped off the loop thread"));
                }
                if t.drops > 1 {
                    return viol("C10.drop", &["C10", "C06"], format!("future of task {task} dropped {} times", t.drops));
                }
                None
            }
        }
    }

    fn any_lifecycle_trouble(&self, msg: &str) -> bool {
        msg.contains("unreachable") && self.facts.failed_registrations > 0
    }

    fn check_epoll(&mut self, entries: &[(i32, u32, u64)]) -> V {
        let base = self.base_epoll.clone().unwrap_or_default();
        let mut actual: Vec<(i32, u32, u64)> = entries.iter().filter(|e| !base.iter().any(|b| b.0 == e.0 && b.2 == e.2)).cloned().collect();
        actual.sort();
        // adapters: exactly one entry per live adapter fd, none for released ones
        for fd in self.known_fds.clone() {
            let live = self.asyncs.iter().filter(|a| a.fd == fd && a.live).count();
            let n = actual.iter().filter(|e| e.0 == fd).count();
            if n != live {
                return Some((
                    Violation::new(
                        "C16.table",
                        format!("kernel epoll table holds {n} entr{} for fd {fd}, which has {live} live adapter(s) (entries {actual:x?})", if n == 1 { "y" } else { "ies" }),
                    )
                    .with_sig(if n > live { "C16.table/stale-adapter-fd" } else { "C16.table/adapter-fd-missing" }),
                    // C08: an adapter that goes away wherever calloop drops its owner (also inside remove() issued from a
                    // callback) must have the effect it has anywhere else - a silently failed borrow in its Drop has not
                    vec!["C16", "C15", "C08"],
                ));
            }
            if let Some(a) = self.asyncs.iter().find(|a| a.fd == fd && a.live) {
                if let (Some(write), Some(e), false) = (a.armed, actual.iter().find(|e| e.0 == fd), a.armed_unknown) {
                    let has_in = e.1 & crate::kernel::EPOLLIN != 0;
                    let has_out = e.1 & crate::kernel::EPOLLOUT != 0;
                    let oneshot = e.1 & crate::kernel::EPOLLONESHOT != 0;
                    if !oneshot || has_in == write || has_out != write {
                        return viol(
                            "C16.bits",
                            &["C16", "C17"],
                            format!("adapter fd {fd} is armed for {} but is registered with events {:#x}", if write { "WRITE" } else { "READ" }, e.1),
                        );
                    }
                }
            }
            actual.retain(|e| e.0 != fd);
        }
        // expected keys
        let mut want_keys: Vec<u64> = vec![];
        for m in self.srcs.iter() {
            if m.st == St::Inserted && m.enabled {
                match &m.kind {
                    Kind::Ping | Kind::Chan { .. } | Kind::Gen { .. } | Kind::Exec | Kind::Stream => want_keys.push(m.key),
                    Kind::Probe { .. } => {
                        for i in 0..m.sub_pings.len() as u64 {
                            want_keys.push(m.key + i);
                        }
                    }
                    Kind::Comp { .. } => {
                        for c in &m.children {
                            if !matches!(c.kind, CKind::Timer { .. }) {
                                if let Some(k) = c.key {
                                    want_keys.push(k);
                                }
                            }
                        }
                    }
                    _ => {}
                }
            }
        }
        want_keys.sort();
        let mut have_keys: Vec<u64> = actual.iter().map(|e| e.2).collect();
        have_keys.sort();
        if want_keys != have_keys {
            // after a refused registration earlier in the history a wrong table is C15's business as well ("leaves the
            // loop intact": the refused source must not take anybody else's registration with it when it goes)
            let props: &[&'static str] = if self.facts.failed_registrations > 0 { &["C16", "C06", "C07", "C15"] } else { &["C16", "C06", "C07"] };
            return viol(
                "C16.table",
                props,
                format!("kernel epoll table holds keys {have_keys:x?}, enabled sources own keys {want_keys:x?} (entries {actual:x?})"),
            );
        }
        for (i, m) in self.srcs.iter().enumerate() {
            if let Kind::Gen { .. } = m.kind {
                let e = actual.iter().find(|e| e.0 == m.fd && e.2 == m.key);
                if m.st == St::Inserted && m.enabled {
                    let Some(e) = e else {
                        return viol("C16.table", &["C16"], format!("fd {} of enabled generic source #{i} is not registered with its key {:#x}", m.fd, m.key));
                    };
                    let ev = e.1;
                    let want_in = m.interest & 1 != 0;
                    let want_out = m.interest & 2 != 0;
                    let has_in = ev & crate::kernel::EPOLLIN != 0;
                    let has_out = ev & crate::kernel::EPOLLOUT != 0;
                    let oneshot = ev & crate::kernel::EPOLLONESHOT != 0;
                    let et = ev & crate::kernel::EPOLLET != 0;
                    if (oneshot, et) != (m.mode == 2, m.mode == 1) {
                        return viol("C16.bits", &["C16", "C02"], format!("generic #{i} fd {} registered with events {ev:#x}, expected mode {}", m.fd, m.mode));
                    }
                    // a fired one-shot registration has its interest bits cleared by the kernel
                    let fired_oneshot = m.mode == 2 && !m.os_armed;
                    if !fired_oneshot && (has_in != want_in || has_out != want_out) {
                        return viol("C16.bits", &["C16", "C02"], format!("generic #{i} fd {} registered with events {ev:#x}, expected interest {}", m.fd, m.interest));
                    }
                }
            }
        }
        None
    }
}

fn short(file: &str) -> &str {
    file.rsplit('/').next().unwrap_or(file)
}

#[allow(dead_code)]
fn _unused(_: FdKind, _: PostRet) {}
