//! Trace vocabulary: what the instrumented world records and the monitor judges.

use super::ops::{CKind, FailStep, Kind, PostRet, TRet};
use serde::{Deserialize, Serialize};
use std::cell::{Cell, RefCell};
use std::rc::Rc;
use std::time::Instant;

pub type SrcId = usize;
pub type TokIdx = usize;
pub type IdleId = usize;
pub type TaskId = usize;

#[derive(Serialize, Deserialize, Debug, Clone, PartialEq, Eq)]
pub enum Res {
    Ok,
    InvalidToken,
    OtherErr(String),
    Panic { msg: String, file: String, line: u32 },
}

impl Res {
    pub fn is_ok(&self) -> bool {
        matches!(self, Res::Ok)
    }
    pub fn class(&self) -> &'static str {
        match self {
            Res::Ok => "ok",
            Res::InvalidToken => "invalid_token",
            Res::OtherErr(_) => "other_err",
            Res::Panic { .. } => "panic",
        }
    }
}

#[derive(Serialize, Deserialize, Debug, Clone, Copy, PartialEq, Eq)]
pub enum PRet {
    Continue,
    Reregister,
    Disable,
    Remove,
    Err,
}

#[derive(Serialize, Deserialize, Debug, Clone, PartialEq, Eq)]
pub enum SendRes {
    Ok,
    Full,
    Disconnected,
}

#[derive(Serialize, Deserialize, Debug, Clone, PartialEq)]
pub enum Payload {
    Ping,
    Msg(u8),
    Closed,
    /// event instant handed to the timer callback (ns since epoch, may be negative)
    Timer(i64),
    /// readiness handed to a Generic callback + poll(2) state of the fd at callback start
    Ready { r: bool, w: bool, e: bool, now_r: bool, now_w: bool, now_h: bool },
    /// probe sub-source index; synthetic = delivered through the synthetic token
    Probe { sub: u8, synthetic: bool },
    /// executor output
    Out { task: TaskId, val: u8 },
    /// StreamSource item / end of stream
    Item(u8),
    StreamEnd,
    /// event of child `child` of a composite source
    Child { child: u8, inner: Box<Payload> },
}

/// Resolved operation (indices already reduced onto the tables).
#[derive(Serialize, Deserialize, Debug, Clone, PartialEq)]
pub enum ROp {
    Insert { src: SrcId, via_disp: bool },
    Remove { tok: TokIdx },
    Disable { tok: TokIdx },
    Enable { tok: TokIdx },
    Update { tok: TokIdx },
    Ping { src: SrcId },
    CloneHandle { src: SrcId },
    DropHandle { src: SrcId, remaining: u32 },
    ProbePing { src: SrcId, sub: u8 },
    Send { src: SrcId, val: u8 },
    CloneSender { src: SrcId },
    DropSender { src: SrcId, remaining: u32 },
    PeerWrite { src: SrcId, n: u32 },
    OwnRead { src: SrcId, n: u32 },
    PeerClose { src: SrcId },
    CompPoke { src: SrcId, child: u8 },
    /// deadline in ns since epoch; followed by ROp::Update by the interpreter
    SetDeadline { src: SrcId, deadline_ns: i64 },
    SetInterest { src: SrcId, interest: u8, mode: u8 },
    Schedule { src: SrcId, task: TaskId, #[serde(default)] pendings: u8, #[serde(default)] self_wake: bool, #[serde(default)] val: u8 },
    Wake { task: TaskId },
    DropScheduler { src: SrcId },
    StreamPush { src: SrcId, val: u8 },
    StreamEnd { src: SrcId },
    StreamYield { src: SrcId },
    InsertIdle { idle: IdleId },
    CancelIdle { idle: IdleId },
    DropIdleHandle { idle: IdleId },
    FailNext { src: SrcId, step: FailStep },
    /// into_source_inner (+unwrap) of `src`; a following Created/Insert pair re-inserts the fd
    Unwrap { src: SrcId },
    /// adapt_io on harness fd slot; `live_before`: the slot already had a live adapter
    Adapt { slot: u8, fd: i32, live_before: bool, regular_file: bool, nonblocking_before: bool },
    AsyncRelease { a: usize, fd: i32, into_inner: bool },
    /// readable()/writable() of adapter `a` polled once (result in the following AsyncPolled)
    AsyncWait { a: usize, write: bool },
    /// harness wrote to the peer of / read from the adapter's fd
    AsyncIo { a: usize },
    /// adapter `a` is moved into the callback closure of source `src` (released whenever that closure is dropped)
    AsyncGive { a: usize, src: SrcId },
    Wakeup,
    Stop,
    InsertBad { which: u8, fd: i32 },
}

#[derive(Serialize, Deserialize, Debug, Clone, PartialEq)]
pub struct KInfo {
    pub kind: Kind,
    /// raw fd the source will register (Generic), -1 otherwise
    pub fd: i32,
    /// timers: initial deadline (ns since epoch)
    pub deadline_ns: Option<i64>,
    /// Generic re-created over the fd released by this older source
    pub recycled_from: Option<SrcId>,
    /// composite sources: per child (kind, transient, fd or -1, initial deadline)
    #[serde(default)]
    pub children: Vec<(CKind, bool, i32, Option<i64>)>,
}

#[derive(Serialize, Deserialize, Debug, Clone, PartialEq)]
pub enum Ev {
    Created { src: SrcId, info: KInfo },
    /// start of an operation (top level or inside a callback/idle)
    Op(ROp),
    /// its result
    OpRes(Res),
    /// insert_source / register_dispatcher outcome: token index and registration key when Ok
    Inserted { src: SrcId, tok: Option<TokIdx>, key: Option<u64>, handback_ok: Option<bool> },
    SendRes { src: SrcId, res: SendRes },
    /// poll(2) ground truth for a Generic's own fd
    Fd { src: SrcId, r: bool, w: bool, h: bool },
    /// current deadline of a timer as read through its dispatcher (between dispatches)
    TimerNow { src: SrcId, deadline_ns: Option<i64> },
    DispBegin { t_ns: i64, timeout_ms: u32 },
    DispEnd { t_ns: i64, res: Res },
    Proc { src: SrcId, key: u64, r: bool, w: bool, e: bool },
    ProcRet { src: SrcId, ret: PRet, t_ns: i64 },
    Cb { src: SrcId, payload: Payload, t_ns: i64 },
    CbEnd { src: SrcId, post: PostRet, timer: TRet, new_deadline_ns: Option<i64>, t_ns: i64 },
    Reg { src: SrcId, res: Res, keys: Vec<u64> },
    Rereg { src: SrcId, res: Res, keys: Vec<u64> },
    Unreg { src: SrcId, res: Res },
    BeforeSleep { src: SrcId, ret: Option<u8>, err: bool },
    BeforeHandle { src: SrcId, keys: Vec<u64> },
    IdleRun { idle: IdleId },
    IdleEnd { idle: IdleId },
    Poll { task: TaskId, thread_ok: bool },
    PollEnd { task: TaskId, ready: bool },
    FutDrop { task: TaskId, thread_ok: bool },
    /// the stream of a StreamSource was polled
    StreamPoll { src: SrcId },
    /// the stream woke its own waker during that poll and returned Pending although it had something to deliver
    StreamSelfWake { src: SrcId },
    SrcDrop { src: SrcId },
    CbDrop { src: SrcId },
    IdleDrop { idle: IdleId },
    Stats { slots: usize, occupied: usize, lifecycle_len: usize, lifecycle_distinct: usize, heap: usize, idles: usize, pending_continue: bool },
    Epoll { entries: Vec<(i32, u32, u64)> },
    /// result of adapt_io: adapter index when Ok; O_NONBLOCK flag of the fd right after the call
    /// the case exceeded its callback budget (a history that multiplies its own events, e.g. by enabling an
    /// enabled source again and again): nothing after this entry is judged
    Exhausted,
    /// number of fault sites the history passed (written at the end of every run)
    FaultSites { n: u32 },
    /// teardown: every adapter still owned by a callback closure is dropped now (the loop is still alive)
    BagsCleared,
    Adapted { a: Option<usize>, nonblocking_after: bool },
    /// outcome of the single poll of readable()/writable()
    AsyncPolled { a: usize, ready: bool },
    /// poll(2) ground truth for a live adapter's fd, taken right before a dispatch
    AsyncFd { a: usize, r: bool, w: bool },
    /// total number of wake-ups the adapter's counting waker has received (reported at the end of each dispatch)
    AsyncWakes { a: usize, n: u64 },
    /// O_NONBLOCK of the fd after the adapter was released
    AsyncReleased { a: usize, nonblocking_after: bool },
    /// teardown markers
    LoopDropped,
    KeptDropped,
    Released { src: SrcId, ok: bool },
    End,
}

/// State shared between the world, the tracked sources and the callbacks of one case.
pub struct Shared {
    pub trace: RefCell<Vec<Ev>>,
    pub epoch: Instant,
    pub cur_proc: Cell<Option<SrcId>>,
    /// post action the last callback of the running process_events asked its Tracked wrapper to return
    pub forced: Cell<Option<(SrcId, PostRet)>>,
    /// sources whose process_events returned Remove since the world last looked
    pub ret_removed: RefCell<Vec<SrcId>>,
    /// post action the last callback of a composite's child asked for: (composite, child, action)
    pub child_forced: Cell<Option<(SrcId, u8, PostRet)>>,
    pub thread: std::thread::ThreadId,
    /// things a source's callback closure owns on behalf of the history (Async adapters handed to it): dropped
    /// together with the closure (from CbGuard::drop), i.e. wherever calloop drops the callback
    pub bags: RefCell<std::collections::HashMap<SrcId, Vec<Box<dyn std::any::Any>>>>,
    /// sources whose callback closure has been dropped
    pub cb_dropped: RefCell<std::collections::HashSet<SrcId>>,
    /// fault enumeration: fail the fault site with this running number (probe register sub-steps, reregister,
    /// unregister, process_events, before_sleep), counted in execution order
    pub fault_at: Cell<Option<u32>>,
    pub fault_seen: Cell<u32>,
}

pub type Sh = Rc<Shared>;

impl Shared {
    pub fn new() -> Sh {
        // epoch a little in the past so that "already past" deadlines stay representable
        Rc::new(Shared {
            trace: RefCell::new(Vec::with_capacity(256)),
            epoch: Instant::now(),
            cur_proc: Cell::new(None),
            forced: Cell::new(None),
            ret_removed: RefCell::new(Vec::new()),
            child_forced: Cell::new(None),
            thread: std::thread::current().id(),
            bags: RefCell::new(std::collections::HashMap::new()),
            cb_dropped: RefCell::new(std::collections::HashSet::new()),
            fault_at: Cell::new(None),
            fault_seen: Cell::new(0),
        })
    }
    /// One more fault site reached; true = this is the one to fail.
    pub fn fault_here(&self) -> bool {
        let n = self.fault_seen.get();
        self.fault_seen.set(n + 1);
        self.fault_at.get() == Some(n)
    }
    #[inline]
    pub fn push(&self, ev: Ev) {
        self.trace.borrow_mut().push(ev);
    }
    pub fn ns(&self, t: Instant) -> i64 {
        if t >= self.epoch {
            t.duration_since(self.epoch).as_nanos() as i64
        } else {
            -(self.epoch.duration_since(t).as_nanos() as i64)
        }
    }
    pub fn now_ns(&self) -> i64 {
        self.ns(Instant::now())
    }
}
