//! Coverage-guided fuzzing of the same interpreters and oracles (thorough tier).
//!
//! One libFuzzer target (`fuzz/fuzz_targets/prop.rs`) serves every fuzzable property: `VERIF_FUZZ_PROP`
//! selects the property, the first input byte its sub-check, and the remaining bytes are decoded by a
//! hand-written `arbitrary::Unstructured` decoder into a case of that sub-check's input domain (same grammar,
//! ranges and profile weights as the proptest strategies; any byte string decodes to a valid case). The case
//! is run through the same interpreter and judged by the same oracle inside the target; a violation that is
//! not an open known finding is written out as a JSON replay (the format of the replay tier) before the
//! process aborts, so the reproducible unit is the decoded case, not the byte string.
//!
//! `campaign` (called by the check binary in the thorough tier) builds the target with
//! `cargo +nightly fuzz build` (ASan + SanCov over calloop and the harness), seeds a fresh corpus with
//! pseudo-random inputs, runs `-jobs` libFuzzer processes for a fixed number of runs, collects statistics for
//! the evidence file and re-confirms every reported violation in-process.

use crate::driver::{CaseOutcome, CheckCtx, Found, Tier, Violation};
use crate::evidence::CaseInfo;
use serde::Serialize;
use serde_json::{json, Value};
use std::cell::RefCell;
use std::collections::HashSet;
use std::fmt::Debug;
use std::path::{Path, PathBuf};
use std::process::Command;

pub type FuzzRun = Box<dyn Fn(&[u8]) -> Option<(CaseInfo, Option<Violation>, Value)>>;

/// One sub-check of a property as a fuzzable function of bytes.
pub struct FuzzSub {
    pub name: String,
    pub run: FuzzRun,
}

/// `decode` maps ANY byte string to a case inside the sub-check's input domain (construction, never rejection).
pub fn sub<T, D, F>(name: &str, decode: D, run: F) -> FuzzSub
where
    T: Debug + Serialize + 'static,
    D: Fn(&[u8]) -> T + 'static,
    F: Fn(&T) -> CaseOutcome + 'static,
{
    FuzzSub {
        name: name.to_string(),
        run: Box::new(move |data| {
            let case = decode(data);
            let (info, v) = run(&case);
            Some((info, v, serde_json::to_value(&case).unwrap_or(Value::Null)))
        }),
    }
}

/// Pseudo-random seed input number `n` (xorshift; lengths 16..~1500 bytes).
pub fn seed_input(n: u64) -> Vec<u8> {
    let mut x: u64 = 0x9E37_79B9_7F4A_7C15 ^ n.wrapping_mul(0xD134_2543_DE82_EF95).wrapping_add(1);
    let mut next = move || {
        x ^= x >> 12;
        x ^= x << 25;
        x ^= x >> 27;
        x.wrapping_mul(0x2545_F491_4F6C_DD1D)
    };
    let len = 16 + (next() % 96) as usize * (1 + (n % 16) as usize);
    let mut v = Vec::with_capacity(len + 8);
    while v.len() < len {
        v.extend_from_slice(&next().to_le_bytes());
    }
    v.truncate(len);
    v
}

// ------------------------------------------------------------------------------------------------
// in-target side
// ------------------------------------------------------------------------------------------------

struct TargetState {
    ctx: CheckCtx,
    subs: Vec<FuzzSub>,
    out: PathBuf,
    iterations: u64,
    undecodable: u64,
    nontrivial: u64,
    excluded_known: u64,
    distinct: HashSet<u64>,
    per_sub: Vec<u64>,
}

thread_local! {
    static STATE: RefCell<Option<TargetState>> = const { RefCell::new(None) };
}

fn init_state() -> TargetState {
    crate::panics::install_quiet_hook();
    let prop = std::env::var("VERIF_FUZZ_PROP").unwrap_or_else(|_| "C20".to_string());
    let ctx = CheckCtx::new(&prop, Tier::Thorough, 0, std::env::var("VERIF_FUZZ_STRICT").is_ok());
    let reg = crate::props::registry();
    let entry = reg.iter().find(|p| p.meta.id == prop).unwrap_or_else(|| {
        eprintln!("fuzz target: unknown property {prop}");
        std::process::exit(2)
    });
    let subs = match entry.fuzz {
        Some(f) => f(&ctx),
        None => {
            eprintln!("fuzz target: property {prop} has no fuzzable sub-check");
            std::process::exit(2)
        }
    };
    let out = PathBuf::from(std::env::var("VERIF_FUZZ_OUT").unwrap_or_else(|_| ".".to_string()));
    let n = subs.len();
    TargetState { ctx, subs, out, iterations: 0, undecodable: 0, nontrivial: 0, excluded_known: 0, distinct: HashSet::new(), per_sub: vec![0; n] }
}

fn write_stats(st: &TargetState) {
    let doc = json!({
        "iterations": st.iterations,
        "undecodable": st.undecodable,
        "nontrivial": st.nontrivial,
        "distinct_nontrivial_in_this_process": st.distinct.len(),
        "excluded_known": st.excluded_known,
        "per_sub": st.subs.iter().zip(&st.per_sub).map(|(s, n)| (s.name.clone(), *n)).collect::<std::collections::BTreeMap<_, _>>(),
    });
    let p = st.out.join(format!("stats-{}.json", std::process::id()));
    let _ = std::fs::write(p, doc.to_string());
}

/// Entry of the libFuzzer target.
pub fn fuzz_one(data: &[u8]) {
    STATE.with(|s| {
        let mut g = s.borrow_mut();
        if g.is_none() {
            *g = Some(init_state());
        }
        let st = g.as_mut().unwrap();
        st.iterations += 1;
        if st.iterations % 2000 == 0 {
            write_stats(st);
        }
        let (sel, rest) = match data.split_first() {
            Some((b, r)) => (*b as usize % st.subs.len(), r),
            None => (0, data),
        };
        st.per_sub[sel] += 1;
        let Some((info, viol, case)) = (st.subs[sel].run)(rest) else {
            st.undecodable += 1;
            return;
        };
        st.excluded_known += info.excluded_known;
        if info.nontrivial {
            st.nontrivial += 1;
            st.distinct.insert(info.fingerprint);
        }
        if let Some(v) = viol {
            if st.ctx.known_open(&v.sig) {
                st.excluded_known += 1;
                return;
            }
            // confirm once more before reporting (timing-borderline cases do not count)
            let again = (st.subs[sel].run)(rest);
            let confirmed = matches!(&again, Some((_, Some(v2), _)) if v2.rule == v.rule);
            if !confirmed {
                return;
            }
            let doc = json!({
                "property": st.ctx.prop,
                "sub": st.subs[sel].name,
                "rule": v.rule,
                "sig": v.sig,
                "detail": v.detail,
                "seed": 0,
                "found_by": "libFuzzer",
                "case": case,
            });
            let fp = crate::evidence::fingerprint_str(&case.to_string());
            let path = st.out.join(format!("viol-{}-{:08x}.json", v.rule.replace(['/', '.'], "_"), fp as u32));
            let _ = std::fs::write(&path, serde_json::to_string_pretty(&doc).unwrap_or_default());
            write_stats(st);
            eprintln!("FUZZ-VIOLATION {} {}", v.rule, path.display());
            std::process::abort();
        }
    });
}

// ------------------------------------------------------------------------------------------------
// orchestration side (check binary, thorough tier)
// ------------------------------------------------------------------------------------------------

fn run_logged(cmd: &mut Command, log: &Path) -> Option<i32> {
    let f = std::fs::File::create(log).ok()?;
    let f2 = f.try_clone().ok()?;
    cmd.stdout(f).stderr(f2).status().ok().and_then(|s| s.code())
}

fn last_match_u64(text: &str, key: &str) -> Option<u64> {
    // finds the last "<key> <digits>" occurrence
    let mut out = None;
    for (i, _) in text.match_indices(key) {
        let rest = &text[i + key.len()..];
        let digits: String = rest.trim_start().chars().take_while(|c| c.is_ascii_digit()).collect();
        if let Ok(n) = digits.parse::<u64>() {
            out = Some(n);
        }
    }
    out
}

/// Run one libFuzzer campaign for the property of `ctx`. Returns a confirmed violation if one was found.
/// Infrastructure problems (no nightly, build failure) are recorded as notes: the campaign is an addition
/// to the seeded search, its absence never turns into a verdict.
pub fn campaign(ctx: &CheckCtx, subs: &[FuzzSub], runs_per_job: u64, jobs: usize) -> Option<Found> {
    if std::env::var("VERIF_NO_FUZZ").is_ok() {
        ctx.col.note("libFuzzer campaign skipped (VERIF_NO_FUZZ set)".to_string());
        return None;
    }
    let fuzz_dir = ctx.verif_dir.join("fuzz");
    let work = fuzz_dir.join("corpus-work").join(format!("{}-{}", ctx.prop, ctx.seed));
    let _ = std::fs::remove_dir_all(&work);
    let corpus = work.join("corpus");
    let out = work.join("out");
    if std::fs::create_dir_all(&corpus).is_err() || std::fs::create_dir_all(&out).is_err() {
        ctx.col.note("libFuzzer campaign skipped: cannot create the work directory".to_string());
        return None;
    }
    let t0 = std::time::Instant::now();
    crate::driver::WATCHDOG_PAUSED.store(true, std::sync::atomic::Ordering::SeqCst);
    struct Unpause;
    impl Drop for Unpause {
        fn drop(&mut self) {
            crate::driver::WATCHDOG_PAUSED.store(false, std::sync::atomic::Ordering::SeqCst);
        }
    }
    let _unpause = Unpause;
    // 1. build
    let build_log = work.join("build.log");
    let code = run_logged(
        Command::new("cargo")
            .args(["+nightly", "fuzz", "build", "--fuzz-dir"])
            .arg(&fuzz_dir)
            .arg("prop")
            .current_dir(&fuzz_dir)
            .env("CARGO_NET_OFFLINE", "true")
            .env_remove("CARGO_TARGET_DIR"),
        &build_log,
    );
    let bin = fuzz_dir.join("target/x86_64-unknown-linux-gnu/release/prop");
    if code != Some(0) || !bin.exists() {
        let tail: String = std::fs::read_to_string(&build_log).unwrap_or_default().lines().rev().take(6).collect::<Vec<_>>().join(" | ");
        ctx.col.note(format!("libFuzzer campaign skipped: cargo +nightly fuzz build failed ({code:?}): {tail}"));
        ctx.col.set_sub("fuzz", json!({"status": "build failed"}));
        return None;
    }
    let build_s = t0.elapsed().as_secs_f64();
    // 2. seed corpus: pseudo-random inputs of varied length (every byte string decodes to a valid case) + the empty input
    let mut seeds = 0;
    for (i, s) in subs.iter().enumerate() {
        for n in 0..48u64 {
            let mut bytes = vec![i as u8];
            let _ = s;
            bytes.extend(seed_input(ctx.seed.wrapping_mul(1000).wrapping_add(n).wrapping_add((i as u64) << 32)));
            bytes.truncate(8192);
            if std::fs::write(corpus.join(format!("seed-{i}-{n}")), &bytes).is_ok() {
                seeds += 1;
            }
        }
    }
    let _ = std::fs::write(corpus.join("empty"), b"");
    // 3. run
    let run_log = work.join("run.log");
    let t1 = std::time::Instant::now();
    let code = run_logged(
        Command::new(&bin)
            .arg(&corpus)
            .arg(format!("-runs={runs_per_job}"))
            .arg(format!("-seed={}", (ctx.seed % 0xffff_fff0) + 1))
            .arg(format!("-jobs={jobs}"))
            .arg(format!("-workers={jobs}"))
            .args(["-max_len=8192", "-len_control=0", "-detect_leaks=0", "-print_final_stats=1", "-reload=1", "-timeout=60", "-rss_limit_mb=4096"])
            .arg(format!("-artifact_prefix={}/", out.display()))
            .current_dir(&work)
            .env("VERIF_FUZZ_PROP", &ctx.prop)
            .env("VERIF_FUZZ_OUT", &out)
            .env("VERIF_DIR", &ctx.verif_dir)
            .env("ASAN_OPTIONS", "detect_leaks=0:abort_on_error=1:detect_odr_violation=0"),
        &run_log,
    );
    let run_s = t1.elapsed().as_secs_f64();
    // 4. statistics
    let mut executed = 0u64;
    let mut cov = 0u64;
    let mut ft = 0u64;
    let mut logs = 0;
    if let Ok(rd) = std::fs::read_dir(&work) {
        for e in rd.flatten() {
            let name = e.file_name().to_string_lossy().to_string();
            if name.starts_with("fuzz-") && name.ends_with(".log") {
                let txt = std::fs::read_to_string(e.path()).unwrap_or_default();
                logs += 1;
                executed += last_match_u64(&txt, "stat::number_of_executed_units:").unwrap_or(0);
                cov = cov.max(last_match_u64(&txt, " cov:").unwrap_or(0));
                ft = ft.max(last_match_u64(&txt, " ft:").unwrap_or(0));
            }
        }
    }
    let mut iterations = 0u64;
    let mut nontrivial = 0u64;
    let mut distinct_sum = 0u64;
    let mut excluded = 0u64;
    let mut undecodable = 0u64;
    let mut viol_files: Vec<PathBuf> = Vec::new();
    let mut crash_files = 0;
    if let Ok(rd) = std::fs::read_dir(&out) {
        for e in rd.flatten() {
            let name = e.file_name().to_string_lossy().to_string();
            if name.starts_with("stats-") {
                if let Ok(v) = serde_json::from_str::<Value>(&std::fs::read_to_string(e.path()).unwrap_or_default()) {
                    iterations += v["iterations"].as_u64().unwrap_or(0);
                    nontrivial += v["nontrivial"].as_u64().unwrap_or(0);
                    distinct_sum += v["distinct_nontrivial_in_this_process"].as_u64().unwrap_or(0);
                    excluded += v["excluded_known"].as_u64().unwrap_or(0);
                    undecodable += v["undecodable"].as_u64().unwrap_or(0);
                }
            } else if name.starts_with("viol-") {
                viol_files.push(e.path());
            } else if name.starts_with("crash-") || name.starts_with("timeout-") || name.starts_with("oom-") {
                crash_files += 1;
            }
        }
    }
    viol_files.sort();
    let corpus_files = std::fs::read_dir(&corpus).map(|r| r.count()).unwrap_or(0);
    ctx.col.set_sub(
        "fuzz",
        json!({
            "status": "ran",
            "engine": "libFuzzer via cargo-fuzz (ASan + SanCov), input bytes decoded by arbitrary::Unstructured into the sub-check's case grammar",
            "subs": subs.iter().map(|s| s.name.clone()).collect::<Vec<_>>(),
            "jobs": jobs,
            "runs_per_job": runs_per_job,
            "seed_inputs": seeds,
            "executed_units": executed,
            "target_iterations_counted": iterations,
            "nontrivial_iterations": nontrivial,
            "distinct_nontrivial_summed_over_processes": distinct_sum,
            "excluded_known": excluded,
            "undecodable_inputs": undecodable,
            "coverage_edges_max": cov,
            "features_max": ft,
            "corpus_files_after": corpus_files,
            "job_logs": logs,
            "exit_code": code,
            "violation_files": viol_files.len(),
            "other_crash_artifacts": crash_files,
            "build_s": build_s,
            "run_s": run_s,
        }),
    );
    ctx.col.add_excluded(excluded);
    // 5. violations: re-confirm in this process through the property's replay function
    let reg = crate::props::registry();
    let entry = reg.iter().find(|p| p.meta.id == ctx.prop)?;
    for f in &viol_files {
        let Ok((sub, case)) = crate::driver::load_replay(f) else { continue };
        let mut confirmed = 0;
        let mut last: Option<Violation> = None;
        for _ in 0..2 {
            if let Ok(Some(v)) = (entry.replay)(ctx, &sub, case.clone()) {
                if !ctx.known_open(&v.sig) {
                    confirmed += 1;
                    last = Some(v);
                }
            }
        }
        if confirmed == 2 {
            return Some(Found { sub, violation: last.unwrap(), case, replay_path: None });
        }
        ctx.col.note(format!("libFuzzer reported {} but it did not reproduce in the check process ({confirmed}/2): not counted", f.display()));
    }
    if viol_files.is_empty() && crash_files > 0 {
        ctx.infra_error(format!(
            "libFuzzer campaign ended with {crash_files} crash artifact(s) but no violation file (harness panic or sanitizer report): see {}",
            work.display()
        ));
        return None;
    }
    // nothing found: the work directory is scratch
    let _ = std::fs::remove_dir_all(&work);
    None
}
