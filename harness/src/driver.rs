//! The check driver: replay tier, seeded proptest search on worker threads, shrinking,
//! re-confirmation, replay files, known findings, evidence and exit codes.

use crate::evidence::{CaseInfo, Collector};
#[allow(unused_imports)]
use crate::evidence::fingerprint;
use proptest::strategy::Strategy;
use proptest::test_runner::{Config, RngSeed, TestCaseError, TestError, TestRunner};
use serde::{de::DeserializeOwned, Deserialize, Serialize};
use serde_json::{json, Value};
use std::fmt::Debug;
use std::panic::{catch_unwind, AssertUnwindSafe};
use std::path::{Path, PathBuf};
use std::sync::atomic::{AtomicBool, AtomicU64, Ordering};
use std::sync::Mutex;
use std::time::{Duration, Instant};

#[derive(Copy, Clone, Debug, PartialEq, Eq)]
pub enum Tier {
    Quick,
    Thorough,
}

impl Tier {
    pub fn name(self) -> &'static str {
        match self {
            Tier::Quick => "quick",
            Tier::Thorough => "thorough",
        }
    }
    /// Pick a size by tier.
    pub fn pick<T>(self, quick: T, thorough: T) -> T {
        match self {
            Tier::Quick => quick,
            Tier::Thorough => thorough,
        }
    }
}

/// A property violation established by an oracle.
#[derive(Clone, Debug, Serialize, Deserialize)]
pub struct Violation {
    /// Oracle rule id, e.g. "C05.early".
    pub rule: String,
    /// Narrow signature used to match known findings (rule + shape), e.g. "C04.blocked/sync0-blocking-send".
    pub sig: String,
    /// Human readable description of what was observed versus expected.
    pub detail: String,
}

impl Violation {
    pub fn new(rule: &str, detail: impl Into<String>) -> Self {
        Violation {
            rule: rule.to_string(),
            sig: rule.to_string(),
            detail: detail.into(),
        }
    }
    pub fn with_sig(mut self, sig: impl Into<String>) -> Self {
        self.sig = sig.into();
        self
    }
}

#[derive(Clone, Debug)]
pub struct Found {
    pub sub: String,
    pub violation: Violation,
    pub case: Value,
    /// set when the violating case came from an existing replay file
    pub replay_path: Option<PathBuf>,
}

#[derive(Clone, Debug, Deserialize)]
pub struct KnownFinding {
    pub id: String,
    pub property: String,
    pub status: String,
    #[serde(default)]
    pub signature: String,
    #[serde(default)]
    pub replay: String,
    #[serde(default)]
    pub what: String,
    #[serde(default)]
    pub commit: String,
    #[serde(default)]
    pub line: String,
}

#[derive(Deserialize)]
struct KnownFile {
    findings: Vec<KnownFinding>,
}

pub struct CheckCtx {
    pub prop: String,
    pub tier: Tier,
    pub seed: u64,
    pub col: Collector,
    pub verif_dir: PathBuf,
    /// all findings in known_findings.json
    pub known: Vec<KnownFinding>,
    /// KNOWN-FINDING lines already printed (id)
    pub reported_known: Mutex<Vec<String>>,
    /// strict mode: no tolerance for open known findings (used by --replay)
    pub strict: bool,
    pub infra: Mutex<Vec<String>>,
    pub start: Instant,
}

/// Result of running one case.
pub type CaseOutcome = (CaseInfo, Option<Violation>);

/// Set while a failing case is being shrunk / re-confirmed / replayed. Sub-checks whose executions are not a pure
/// function of the case (free-running threads) repeat the case many times while it is set, so that a sound
/// end-state violation that needs a lucky interleaving is reproduced instead of being dismissed as "flaky".
pub static CONFIRMING: AtomicBool = AtomicBool::new(false);

/// Repetitions for a non-deterministic (free-running) case: once while searching; while a failure is being shrunk /
/// confirmed, at least 60 times and then for as long as `free_budget()` lasts (a window of a few tens of nanoseconds
/// needs thousands of runs; the budget only decides how hard a *found* failure is looked for again - running out of it
/// means "did not reproduce", never a violation).
pub fn free_reps() -> usize {
    if CONFIRMING.load(Ordering::Relaxed) {
        60
    } else {
        1
    }
}

pub fn free_budget() -> std::time::Duration {
    if CONFIRMING.load(Ordering::Relaxed) {
        std::time::Duration::from_millis(1500)
    } else {
        std::time::Duration::ZERO
    }
}

/// Heartbeat of the running check: bumped for every case the collector records.
pub static HEARTBEAT: AtomicU64 = AtomicU64::new(0);
/// Set while a phase runs that legitimately records nothing for minutes (the libFuzzer campaign).
pub static WATCHDOG_PAUSED: AtomicBool = AtomicBool::new(false);

/// Hang watchdog: if no case completes for `VERIF_HANG_S` seconds (default 600) the process ends with exit code 2
/// (infrastructure / inconclusive, never a violation). A change to the code under test can make a call block for
/// ever (e.g. a dispatch whose wake-ups are swallowed); the checks end such cases themselves where they can (C11,
/// C12 rescue with a real event), this is the backstop. Not started for C19 (its process must stay single-threaded).
pub fn start_hang_watchdog(prop: &str) {
    let limit: u64 = std::env::var("VERIF_HANG_S").ok().and_then(|s| s.parse().ok()).unwrap_or(600);
    let prop = prop.to_string();
    let _ = std::thread::Builder::new().name("vh-hang-watchdog".into()).stack_size(64 * 1024).spawn(move || {
        let mut last = HEARTBEAT.load(Ordering::Relaxed);
        let mut idle = 0u64;
        loop {
            std::thread::sleep(Duration::from_secs(5));
            let cur = HEARTBEAT.load(Ordering::Relaxed);
            if cur != last || WATCHDOG_PAUSED.load(Ordering::Relaxed) {
                last = cur;
                idle = 0;
                continue;
            }
            idle += 5;
            if idle >= limit {
                eprintln!("INFRA: property {prop}: no case completed for {limit} s (a call in the code under test or in the harness does not return); inconclusive, not a violation");
                std::process::exit(2);
            }
        }
    });
}

pub fn verif_dir() -> PathBuf {
    if let Ok(d) = std::env::var("VERIF_DIR") {
        return PathBuf::from(d);
    }
    PathBuf::from("/verif")
}

impl CheckCtx {
    pub fn new(prop: &str, tier: Tier, seed: u64, strict: bool) -> Self {
        let verif_dir = verif_dir();
        let known = std::fs::read_to_string(verif_dir.join("known_findings.json"))
            .ok()
            .and_then(|s| serde_json::from_str::<KnownFile>(&s).ok())
            .map(|k| k.findings)
            .unwrap_or_default();
        CheckCtx {
            prop: prop.to_string(),
            tier,
            seed,
            col: Collector::new(),
            verif_dir,
            known,
            reported_known: Mutex::new(Vec::new()),
            strict,
            infra: Mutex::new(Vec::new()),
            start: Instant::now(),
        }
    }

    /// Is there an open known finding with this signature (any property)? Generators use this to
    /// steer away from the shape; oracles use it to tolerate (and count) a re-discovery.
    pub fn known_open(&self, sig: &str) -> bool {
        !self.strict
            && self
                .known
                .iter()
                .any(|k| k.status == "open" && k.signature == sig)
    }

    pub fn infra_error(&self, msg: impl Into<String>) {
        self.infra.lock().unwrap().push(msg.into());
    }

    fn report_known(&self, k: &KnownFinding) {
        let mut g = self.reported_known.lock().unwrap();
        if !g.contains(&k.id) {
            g.push(k.id.clone());
            println!("KNOWN-FINDING: property={} {} [{}] {}", k.property, k.id, k.signature, k.what);
        }
    }

    pub fn replay_dir(&self) -> PathBuf {
        self.verif_dir.join("replays").join(&self.prop)
    }

    /// Replay tier: run every saved case of this sub-check. Open known findings print their
    /// KNOWN-FINDING line when they still reproduce; everything else must pass.
    pub fn run_replays<T, F>(&self, sub: &str, run: F) -> Option<Found>
    where
        T: DeserializeOwned + Serialize + Debug,
        F: Fn(&T) -> CaseOutcome,
    {
        let dir = self.replay_dir();
        let mut files: Vec<PathBuf> = match std::fs::read_dir(&dir) {
            Ok(rd) => rd
                .filter_map(|e| e.ok().map(|e| e.path()))
                .filter(|p| p.extension().map(|e| e == "json").unwrap_or(false))
                .collect(),
            Err(_) => Vec::new(),
        };
        files.sort();
        let mut replayed = 0u64;
        for f in files {
            let Ok(txt) = std::fs::read_to_string(&f) else { continue };
            let Ok(doc) = serde_json::from_str::<Value>(&txt) else {
                self.infra_error(format!("unparsable replay file {}", f.display()));
                continue;
            };
            if doc.get("sub").and_then(|s| s.as_str()) != Some(sub) {
                continue;
            }
            let case: T = match serde_json::from_value(doc["case"].clone()) {
                Ok(c) => c,
                Err(e) => {
                    self.infra_error(format!("replay {} does not decode: {e}", f.display()));
                    continue;
                }
            };
            replayed += 1;
            let rel = f
                .strip_prefix(&self.verif_dir)
                .map(|p| p.to_string_lossy().to_string())
                .unwrap_or_default();
            let open = self
                .known
                .iter()
                .find(|k| k.status == "open" && k.property == self.prop && k.replay == rel);
            // replays of open findings are run strictly so that the finding is visible
            CONFIRMING.store(true, Ordering::Relaxed);
            let out = catch_unwind(AssertUnwindSafe(|| run(&case)));
            CONFIRMING.store(false, Ordering::Relaxed);
            match out {
                Err(p) => {
                    self.infra_error(format!(
                        "harness panic while replaying {}: {}",
                        f.display(),
                        panic_msg(&p)
                    ));
                }
                Ok((info, viol)) => {
                    self.col.record(&info, || serde_json::to_value(&case).unwrap_or(Value::Null));
                    match (viol, open) {
                        (Some(v), Some(k)) if v.sig == k.signature => self.report_known(k),
                        (Some(v), _) => {
                            // tolerated elsewhere?
                            if let Some(k) = self
                                .known
                                .iter()
                                .find(|k| k.status == "open" && k.signature == v.sig && !self.strict)
                            {
                                if k.property == self.prop {
                                    self.report_known(k);
                                }
                                continue;
                            }
                            return Some(Found {
                                sub: sub.to_string(),
                                violation: v,
                                case: serde_json::to_value(&case).unwrap_or(Value::Null),
                                replay_path: Some(f.clone()),
                            });
                        }
                        (None, Some(k)) => {
                            println!(
                                "note: known finding {} (property={}) no longer reproduces from {}",
                                k.id, k.property, rel
                            );
                        }
                        (None, None) => {}
                    }
                }
            }
        }
        self.col.set_sub(&format!("{sub}.replayed"), json!(replayed));
        None
    }

    /// Seeded generated-input search with shrinking. `run` must be a pure function of the case
    /// (plus the code under test). Returns the shrunk, re-confirmed violation if any.
    #[allow(clippy::too_many_arguments)]
    pub fn search<T, S, F>(
        &self,
        sub: &str,
        strategy: S,
        cases: u32,
        workers: usize,
        budget: Option<Duration>,
        run: F,
    ) -> Option<Found>
    where
        T: Debug + Clone + Serialize + Send + 'static,
        S: Strategy<Value = T> + Sync,
        F: Fn(&T) -> CaseOutcome + Sync,
    {
        self.search_with(sub, || &strategy, cases, workers, budget, run)
    }

    /// Like `search`, but every worker builds its own strategy (for strategies that are not Sync,
    /// e.g. boxed ones).
    #[allow(clippy::too_many_arguments)]
    pub fn search_with<T, S, M, F>(
        &self,
        sub: &str,
        make_strategy: M,
        cases: u32,
        workers: usize,
        budget: Option<Duration>,
        run: F,
    ) -> Option<Found>
    where
        T: Debug + Clone + Serialize + Send + 'static,
        S: Strategy<Value = T>,
        M: Fn() -> S + Sync,
        F: Fn(&T) -> CaseOutcome + Sync,
    {
        let workers = workers.max(1).min(cases.max(1) as usize);
        let stop = AtomicBool::new(false);
        let budget_hit = AtomicBool::new(false);
        let executed = AtomicU64::new(0);
        let found: Mutex<Option<(T, Violation)>> = Mutex::new(None);
        let first_failing: Mutex<Option<(T, Violation)>> = Mutex::new(None);
        let t0 = Instant::now();
        let sub_hash = crate::evidence::fingerprint_str(sub);

        std::thread::scope(|scope| {
            for w in 0..workers {
                let share = cases / workers as u32 + u32::from((w as u32) < cases % workers as u32);
                if share == 0 {
                    continue;
                }
                let stop = &stop;
                let budget_hit = &budget_hit;
                let executed = &executed;
                let found = &found;
                let first_failing = &first_failing;
                let make_strategy = &make_strategy;
                let run = &run;
                let seed = self
                    .seed
                    .wrapping_mul(0x9E37_79B9_7F4A_7C15)
                    .wrapping_add(w as u64)
                    .wrapping_add(sub_hash.rotate_left(17));
                let body = move || {
                    let cfg = Config {
                        cases: share,
                        failure_persistence: None,
                        rng_seed: RngSeed::Fixed(seed),
                        max_shrink_iters: 4000,
                        max_global_rejects: 1 << 20,
                        verbose: 0,
                        ..Config::default()
                    };
                    let mut runner = TestRunner::new(cfg);
                    let failed_here = AtomicBool::new(false);
                    let last_violation: Mutex<Option<Violation>> = Mutex::new(None);
                    let strategy = make_strategy();
                    let res = runner.run(&strategy, |case| {
                        let shrinking = failed_here.load(Ordering::Relaxed);
                        if !shrinking {
                            if stop.load(Ordering::Relaxed) {
                                return Ok(());
                            }
                            if let Some(b) = budget {
                                if t0.elapsed() > b {
                                    budget_hit.store(true, Ordering::Relaxed);
                                    return Ok(());
                                }
                            }
                        }
                        let out = catch_unwind(AssertUnwindSafe(|| run(&case)));
                        match out {
                            Err(p) => {
                                if !shrinking {
                                    self.infra_error(format!(
                                        "harness panic in {sub}: {} at {:?} on case {}",
                                        panic_msg(&p),
                                        crate::panics::take_last().map(|i| (i.file, i.line)),
                                        serde_json::to_string(&case).unwrap_or_default()
                                    ));
                                    stop.store(true, Ordering::Relaxed);
                                }
                                Ok(())
                            }
                            Ok((info, viol)) => {
                                if !shrinking {
                                    executed.fetch_add(1, Ordering::Relaxed);
                                    self.col.record(&info, || {
                                        serde_json::to_value(&case).unwrap_or(Value::Null)
                                    });
                                }
                                // while shrinking, only a failure that shows twice in a row counts: this keeps the
                                // minimal case away from timing-borderline variants that do not reproduce
                                let viol = match viol {
                                    Some(v) if shrinking => match catch_unwind(AssertUnwindSafe(|| run(&case))) {
                                        Ok((_, Some(v2))) if v2.rule == v.rule => Some(v),
                                        _ => None,
                                    },
                                    other => other,
                                };
                                match viol {
                                    Some(v) => {
                                        if self.known_open(&v.sig) {
                                            // an open known finding re-found: tolerated, counted, reported once
                                            if !shrinking {
                                                self.col.add_excluded(1);
                                            }
                                            if let Some(k) = self.known.iter().find(|k| {
                                                k.status == "open" && k.signature == v.sig
                                            }) {
                                                if k.property == self.prop {
                                                    self.report_known(k);
                                                }
                                            }
                                            return Ok(());
                                        }
                                        if !shrinking {
                                            let mut g = first_failing.lock().unwrap();
                                            if g.is_none() {
                                                *g = Some((case.clone(), v.clone()));
                                            }
                                        }
                                        failed_here.store(true, Ordering::Relaxed);
                                        CONFIRMING.store(true, Ordering::Relaxed);
                                        stop.store(true, Ordering::Relaxed);
                                        let msg = format!("{}: {}", v.rule, v.detail);
                                        *last_violation.lock().unwrap() = Some(v);
                                        Err(TestCaseError::fail(msg))
                                    }
                                    None => Ok(()),
                                }
                            }
                        }
                    });
                    if let Err(TestError::Fail(_, minimal)) = res {
                        // re-run the minimal case to obtain its own violation text
                        let v = match catch_unwind(AssertUnwindSafe(|| run(&minimal))) {
                            Ok((_, Some(v))) => Some(v),
                            _ => last_violation.lock().unwrap().clone(),
                        };
                        if let Some(v) = v {
                            let mut g = found.lock().unwrap();
                            if g.is_none() {
                                *g = Some((minimal, v));
                            }
                        }
                    } else if let Err(TestError::Abort(r)) = res {
                        self.infra_error(format!("proptest aborted in {sub}: {r}"));
                    }
                };
                let infra = &self.infra;
                let guarded = move || {
                    if let Err(p) = catch_unwind(AssertUnwindSafe(body)) {
                        infra.lock().unwrap().push(format!("worker panicked outside a case: {}", panic_msg(&p)));
                    }
                };
                if workers == 1 {
                    // stay on the calling thread (C19 needs a single-threaded process)
                    guarded();
                } else {
                    scope.spawn(guarded);
                }
            }
        });

        self.col.set_sub(
            &format!("{sub}.search"),
            json!({
                "requested_cases": cases,
                "executed": executed.load(Ordering::Relaxed),
                "workers": workers,
                "budget_hit": budget_hit.load(Ordering::Relaxed),
                "wall_s": t0.elapsed().as_secs_f64(),
            }),
        );
        if budget_hit.load(Ordering::Relaxed) {
            self.col.note(format!(
                "{sub}: wall-clock budget reached after {} cases (inconclusive beyond that, not a violation)",
                executed.load(Ordering::Relaxed)
            ));
        }

        let Some((mut minimal, mut v)) = found.into_inner().unwrap() else {
            CONFIRMING.store(false, Ordering::Relaxed);
            return None;
        };
        // confirm twice more; a failure that does not reproduce is an infrastructure problem
        let confirm = |c: &T, v: &Violation| -> u32 {
            let mut n = 0;
            for _ in 0..2 {
                if let Ok((_, Some(v2))) = catch_unwind(AssertUnwindSafe(|| run(c))) {
                    if v2.rule == v.rule {
                        n += 1;
                    }
                }
            }
            n
        };
        let mut confirmed = confirm(&minimal, &v);
        if confirmed < 2 {
            // the shrunk case sits on a timing border; fall back to the case that failed first
            if let Some((orig, ov)) = first_failing.into_inner().unwrap() {
                let c2 = confirm(&orig, &ov);
                if c2 == 2 {
                    self.col.note(format!("{sub}: shrunk case did not reproduce; reporting the unshrunk failing case"));
                    minimal = orig;
                    v = ov;
                    confirmed = 2;
                }
            }
        }
        CONFIRMING.store(false, Ordering::Relaxed);
        if confirmed < 2 {
            self.infra_error(format!(
                "{sub}: failure {} did not reproduce on re-run ({confirmed}/2): {} case {}",
                v.rule,
                v.detail,
                serde_json::to_string(&minimal).unwrap_or_default()
            ));
            return None;
        }
        Some(Found {
            sub: sub.to_string(),
            violation: v,
            case: serde_json::to_value(&minimal).unwrap_or(Value::Null),
            replay_path: None,
        })
    }

    /// Write the replay file for a violation found by search; returns its path.
    pub fn write_replay(&self, found: &Found) -> PathBuf {
        if let Some(p) = &found.replay_path {
            return p.clone();
        }
        let dir = self.replay_dir();
        let _ = std::fs::create_dir_all(&dir);
        let doc = json!({
            "property": self.prop,
            "sub": found.sub,
            "rule": found.violation.rule,
            "sig": found.violation.sig,
            "detail": found.violation.detail,
            "seed": self.seed,
            "case": found.case,
        });
        let fp = crate::evidence::fingerprint_str(&serde_json::to_string(&found.case).unwrap_or_default());
        let name = format!(
            "viol-{}-{:08x}.json",
            found.violation.rule.replace(['/', '.'], "_"),
            fp as u32
        );
        let path = dir.join(name);
        let _ = std::fs::write(&path, serde_json::to_string_pretty(&doc).unwrap());
        path
    }
}

pub fn panic_msg(p: &Box<dyn std::any::Any + Send>) -> String {
    if let Some(s) = p.downcast_ref::<&str>() {
        s.to_string()
    } else if let Some(s) = p.downcast_ref::<String>() {
        s.clone()
    } else {
        "<non-string panic>".to_string()
    }
}

/// Static description of a property check (for evidence).
pub struct PropMeta {
    pub id: &'static str,
    pub level: &'static str,
    pub rule: &'static str,
    pub assumptions: &'static [&'static str],
}

/// Finish a check: write evidence, print the verdict line, return the process exit code.
pub fn finish(ctx: &CheckCtx, meta: &PropMeta, found: Option<Found>) -> i32 {
    let wall = ctx.start.elapsed().as_secs_f64();
    let infra = ctx.infra.lock().unwrap().clone();
    let known = ctx.reported_known.lock().unwrap().clone();
    let evidence_path = ctx.verif_dir.join("evidence").join(format!("{}.json", meta.id));
    let mut code = 0;
    let mut violations = 0;
    let mut replay_line = None;
    if let Some(f) = &found {
        let path = ctx.write_replay(f);
        violations = 1;
        code = 1;
        replay_line = Some(format!(
            "VIOLATION property={} replay={}",
            meta.id,
            path.display()
        ));
        ctx.col.note(format!(
            "violation {} [{}]: {}",
            f.violation.rule, f.violation.sig, f.violation.detail
        ));
    }
    for m in &infra {
        ctx.col.note(format!("infrastructure: {m}"));
    }
    if let Err(e) = ctx.col.write(
        &evidence_path,
        meta.id,
        ctx.tier.name(),
        ctx.seed,
        meta.level,
        meta.rule,
        meta.assumptions,
        wall,
        violations,
        &known,
    ) {
        eprintln!("cannot write evidence {}: {e}", evidence_path.display());
        if code == 0 {
            code = 2;
        }
    }
    if let Some(f) = &found {
        println!(
            "violation detail: rule={} sig={} sub={} :: {}",
            f.violation.rule, f.violation.sig, f.sub, f.violation.detail
        );
        println!("{}", replay_line.unwrap());
    } else if !infra.is_empty() {
        for m in &infra {
            eprintln!("INFRA: {m}");
        }
        code = 2;
    } else {
        println!(
            "OK property={} tier={} seed={} evaluations={} distinct_nontrivial={} wall_s={:.1}",
            meta.id,
            ctx.tier.name(),
            ctx.seed,
            ctx.col.evaluations(),
            ctx.col.distinct_nontrivial(),
            wall
        );
    }
    code
}

/// Helper for `--replay <file>`: load the file and hand (sub, case) to the property.
pub fn load_replay(path: &Path) -> Result<(String, Value), String> {
    let txt = std::fs::read_to_string(path).map_err(|e| format!("{}: {e}", path.display()))?;
    let doc: Value = serde_json::from_str(&txt).map_err(|e| format!("{}: {e}", path.display()))?;
    let sub = doc
        .get("sub")
        .and_then(|s| s.as_str())
        .ok_or("replay file has no sub field")?
        .to_string();
    Ok((sub, doc["case"].clone()))
}
