//! vh — verification harness for calloop (property-based testing and fuzzing).
pub mod driver;
pub mod evidence;
pub mod fuzz;
pub mod hist;
pub mod kernel;
pub mod panics;
pub mod props;
pub mod sched;
pub mod ship;
