//! Deterministic cooperative scheduler over calloop's yield-point hook.
//!
//! Enrolled threads (real OS threads using the real eventfd / epoll / mpsc / atomics) stop at every
//! yield site and wait for a grant; the controller advances exactly one thread at a time, choosing
//! by the next element of the generated schedule. A granted thread that does not reach its next
//! site because it blocks in the kernel is detected through /proc/self/task/<tid>/stat (state 'S')
//! and marked Blocked: the controller then keeps scheduling the others, and the blocked thread
//! rejoins when it reaches its next site. An interleaving at site granularity is therefore an input:
//! generated, shrunk, replayed.

use calloop::verif::{Site, SiteKind};
use std::cell::RefCell;
use std::sync::atomic::{AtomicBool, AtomicI32, AtomicU32, AtomicU64, AtomicU8, Ordering};
use std::sync::{Arc, Mutex, Once};
use std::time::{Duration, Instant};

pub const RUNNING: u8 = 0;
pub const WAITING: u8 = 1;
pub const FINISHED: u8 = 2;
pub const BLOCKED: u8 = 3;
pub const NOT_STARTED: u8 = 4;

/// Harness-level sites (between actor steps), numbered above calloop's.
pub const SITE_HARNESS: u32 = 1000;
/// Pseudo-site logged by the controller when it grants a step to a thread.
pub const SITE_GRANT: u32 = 1001;

pub struct Slot {
    pub state: AtomicU8,
    pub site: AtomicU32,
    grant: AtomicBool,
    tid: AtomicI32,
    thread: Mutex<Option<std::thread::Thread>>,
    /// number of times this thread was observed blocked
    pub blocked_count: AtomicU32,
}

#[derive(Clone, Debug)]
pub struct LogEntry {
    pub tick: u64,
    pub thread: usize,
    pub site: u32,
}

pub struct CaseCtl {
    pub slots: Vec<Slot>,
    /// global logical clock: incremented for every recorded event (site arrivals and harness marks)
    pub tick: AtomicU64,
    pub log: Mutex<Vec<LogEntry>>,
    pub abort: AtomicBool,
}

thread_local! {
    static CUR: RefCell<Option<(Arc<CaseCtl>, usize)>> = const { RefCell::new(None) };
}

static INSTALL: Once = Once::new();

pub fn install_hook() {
    INSTALL.call_once(|| {
        calloop::verif::set_yield_hook(Some(Arc::new(|site: Site, _kind: SiteKind| {
            on_site(site as u32);
        })));
    });
}

fn on_site(site: u32) {
    let cur = CUR.with(|c| c.borrow().clone());
    if let Some((ctl, idx)) = cur {
        ctl.arrive(idx, site);
    }
}

/// A yield point of the harness itself (between the steps of an actor program).
pub fn harness_yield() {
    on_site(SITE_HARNESS);
}

/// Next value of the logical clock of the case this thread is enrolled in (0 when not enrolled).
pub fn tick() -> u64 {
    CUR.with(|c| match &*c.borrow() {
        Some((ctl, _)) => ctl.tick.fetch_add(1, Ordering::SeqCst) + 1,
        None => 0,
    })
}

fn gettid() -> i32 {
    unsafe { libc::syscall(libc::SYS_gettid) as i32 }
}

/// Is the thread sleeping in the kernel (state S or D)?
fn thread_sleeping(tid: i32) -> bool {
    let Ok(s) = std::fs::read_to_string(format!("/proc/self/task/{tid}/stat")) else { return false };
    let Some(p) = s.rfind(')') else { return false };
    let rest = s[p + 1..].trim_start();
    matches!(rest.chars().next(), Some('S') | Some('D'))
}

impl CaseCtl {
    pub fn new(threads: usize) -> Arc<CaseCtl> {
        Arc::new(CaseCtl {
            slots: (0..threads)
                .map(|_| Slot {
                    state: AtomicU8::new(NOT_STARTED),
                    site: AtomicU32::new(0),
                    grant: AtomicBool::new(false),
                    tid: AtomicI32::new(0),
                    thread: Mutex::new(None),
                    blocked_count: AtomicU32::new(0),
                })
                .collect(),
            tick: AtomicU64::new(0),
            log: Mutex::new(Vec::new()),
            abort: AtomicBool::new(false),
        })
    }

    /// Called by an enrolled thread at a site: publish, wait for the grant.
    fn arrive(&self, idx: usize, site: u32) {
        if self.abort.load(Ordering::Relaxed) {
            return;
        }
        let slot = &self.slots[idx];
        slot.site.store(site, Ordering::Relaxed);
        let t = self.tick.fetch_add(1, Ordering::SeqCst) + 1;
        self.log.lock().unwrap().push(LogEntry { tick: t, thread: idx, site });
        slot.state.store(WAITING, Ordering::SeqCst);
        let mut spins = 0u32;
        loop {
            if slot.grant.swap(false, Ordering::SeqCst) {
                break;
            }
            if self.abort.load(Ordering::Relaxed) {
                break;
            }
            spins += 1;
            if spins < 300 {
                std::hint::spin_loop();
            } else {
                std::thread::park_timeout(Duration::from_micros(200));
            }
        }
    }

    /// Body wrapper for an enrolled thread: enrol, wait for the first grant, run, mark finished.
    pub fn enrolled<R>(self: &Arc<Self>, idx: usize, body: impl FnOnce() -> R) -> R {
        let slot = &self.slots[idx];
        slot.tid.store(gettid(), Ordering::SeqCst);
        *slot.thread.lock().unwrap() = Some(std::thread::current());
        CUR.with(|c| *c.borrow_mut() = Some((self.clone(), idx)));
        self.arrive(idx, SITE_HARNESS);
        struct Fin<'a>(&'a Slot);
        impl Drop for Fin<'_> {
            fn drop(&mut self) {
                self.0.state.store(FINISHED, Ordering::SeqCst);
                CUR.with(|c| *c.borrow_mut() = None);
            }
        }
        let _fin = Fin(slot);
        body()
    }

    fn grant(&self, idx: usize) {
        let slot = &self.slots[idx];
        slot.state.store(RUNNING, Ordering::SeqCst);
        slot.grant.store(true, Ordering::SeqCst);
        if let Some(t) = slot.thread.lock().unwrap().as_ref() {
            t.unpark();
        }
    }

    /// Wait until thread `idx` has left the Running state (arrived, finished, or blocked in the kernel).
    fn settle(&self, idx: usize) {
        let slot = &self.slots[idx];
        let t0 = Instant::now();
        let mut sleeping_seen = 0;
        let mut i = 0u32;
        loop {
            let st = slot.state.load(Ordering::SeqCst);
            if st != RUNNING {
                return;
            }
            i += 1;
            if i < 400 {
                std::hint::spin_loop();
                continue;
            }
            std::thread::yield_now();
            let el = t0.elapsed();
            if el > Duration::from_micros(40) {
                let tid = slot.tid.load(Ordering::SeqCst);
                if thread_sleeping(tid) {
                    sleeping_seen += 1;
                    if sleeping_seen >= 2 {
                        if slot
                            .state
                            .compare_exchange(RUNNING, BLOCKED, Ordering::SeqCst, Ordering::SeqCst)
                            .is_ok()
                        {
                            slot.blocked_count.fetch_add(1, Ordering::Relaxed);
                        }
                        return;
                    }
                    std::thread::sleep(Duration::from_micros(60));
                } else {
                    sleeping_seen = 0;
                }
            }
        }
    }
}

impl CaseCtl {
    /// For a thread marked Blocked: return once it is confirmed to be still sleeping in the kernel, or has
    /// reached a site / finished.
    fn resettle_blocked(&self, idx: usize) {
        let slot = &self.slots[idx];
        let tid = slot.tid.load(Ordering::SeqCst);
        let t0 = Instant::now();
        let mut sleeping_seen = 0;
        loop {
            if slot.state.load(Ordering::SeqCst) != BLOCKED {
                return;
            }
            if thread_sleeping(tid) {
                sleeping_seen += 1;
                if sleeping_seen >= 2 {
                    return;
                }
                std::thread::sleep(Duration::from_micros(30));
            } else {
                sleeping_seen = 0;
                std::thread::yield_now();
            }
            if t0.elapsed() > Duration::from_millis(200) {
                return;
            }
        }
    }
}

impl CaseCtl {
    /// Is thread `idx` asleep in the kernel right now, stably (five observations one millisecond apart)?
    pub fn confirm_asleep(&self, idx: usize) -> bool {
        let slot = &self.slots[idx];
        let tid = slot.tid.load(Ordering::SeqCst);
        for _ in 0..5 {
            if slot.state.load(Ordering::SeqCst) != BLOCKED || !thread_sleeping(tid) {
                return false;
            }
            std::thread::sleep(Duration::from_millis(1));
        }
        true
    }
}

#[derive(Debug, Clone, PartialEq)]
pub enum RunEnd {
    /// every enrolled thread finished
    AllFinished,
    /// nobody can be scheduled: the listed threads are blocked in the kernel and stayed so for the patience period
    Stuck(Vec<usize>),
    /// step budget exhausted
    Budget,
}

pub struct RunInfo {
    pub end: RunEnd,
    pub steps: u64,
    /// branching factor at each step (number of threads that could have been chosen)
    pub branching: Vec<u8>,
    /// chosen index at each step
    pub chosen: Vec<u8>,
}

/// Drive the case: `schedule` supplies the choices (monotone mapping onto the waiting threads);
/// when it is exhausted the lowest waiting thread index is taken.
pub fn drive(ctl: &Arc<CaseCtl>, schedule: &[u8], exact: bool, max_steps: u64, patience: Duration) -> RunInfo {
    let n = ctl.slots.len();
    let mut steps = 0u64;
    let mut branching = Vec::new();
    let mut chosen = Vec::new();
    // wait for all threads to enrol
    let t0 = Instant::now();
    loop {
        if (0..n).all(|i| ctl.slots[i].state.load(Ordering::SeqCst) != NOT_STARTED) {
            break;
        }
        if t0.elapsed() > Duration::from_secs(10) {
            return RunInfo { end: RunEnd::Stuck(vec![]), steps, branching, chosen };
        }
        std::thread::yield_now();
    }
    let mut stuck_since: Option<Instant> = None;
    loop {
        // let running threads settle
        for i in 0..n {
            if ctl.slots[i].state.load(Ordering::SeqCst) == RUNNING {
                ctl.settle(i);
            }
        }
        // a blocked thread that the last step has released is on its way to its next site: wait for it,
        // so that the set of schedulable threads is a function of the schedule and not of timing
        for i in 0..n {
            if ctl.slots[i].state.load(Ordering::SeqCst) == BLOCKED {
                ctl.resettle_blocked(i);
            }
        }
        let waiting: Vec<usize> = (0..n).filter(|i| ctl.slots[*i].state.load(Ordering::SeqCst) == WAITING).collect();
        if waiting.is_empty() {
            let blocked: Vec<usize> = (0..n).filter(|i| ctl.slots[*i].state.load(Ordering::SeqCst) == BLOCKED).collect();
            if blocked.is_empty() {
                let running = (0..n).any(|i| ctl.slots[i].state.load(Ordering::SeqCst) == RUNNING);
                if running {
                    continue;
                }
                return RunInfo { end: RunEnd::AllFinished, steps, branching, chosen };
            }
            // only blocked threads left: wait for one of them to come back
            let since = *stuck_since.get_or_insert_with(Instant::now);
            if since.elapsed() > patience {
                return RunInfo { end: RunEnd::Stuck(blocked), steps, branching, chosen };
            }
            std::thread::sleep(Duration::from_micros(100));
            continue;
        }
        stuck_since = None;
        if steps >= max_steps {
            return RunInfo { end: RunEnd::Budget, steps, branching, chosen };
        }
        let b = waiting.len();
        let pick = if (steps as usize) < schedule.len() {
            let c = schedule[steps as usize] as usize;
            if exact {
                c.min(b - 1)
            } else {
                (c * b) >> 8
            }
        } else {
            // schedule exhausted: rotate, so that threads that wait for each other's progress all advance
            (steps as usize) % b
        };
        branching.push(b as u8);
        chosen.push(pick as u8);
        steps += 1;
        {
            let t = ctl.tick.fetch_add(1, Ordering::SeqCst) + 1;
            ctl.log.lock().unwrap().push(LogEntry { tick: t, thread: waiting[pick], site: SITE_GRANT });
        }
        ctl.grant(waiting[pick]);
    }
}

/// Release every thread (used for teardown after a stuck / budget end): sites become no-ops.
pub fn release_all(ctl: &Arc<CaseCtl>) {
    ctl.abort.store(true, Ordering::SeqCst);
    for s in &ctl.slots {
        s.grant.store(true, Ordering::SeqCst);
        if let Some(t) = s.thread.lock().unwrap().as_ref() {
            t.unpark();
        }
    }
}

/// Depth-first enumeration of all schedules of a small configuration: `run` executes one schedule
/// (exact choice indices) and returns the branching factors it met; returns the number of schedules run.
pub fn dfs_all(max_schedules: u64, mut run: impl FnMut(&[u8]) -> (Vec<u8>, bool)) -> (u64, bool) {
    // classic stateless DFS: prefix of choices; after a run, increment the deepest position that has room
    let mut prefix: Vec<u8> = Vec::new();
    let mut count = 0u64;
    loop {
        let (branching, stop) = run(&prefix);
        count += 1;
        // every enumerated schedule is a completed case for the hang watchdog
        crate::driver::HEARTBEAT.fetch_add(1, std::sync::atomic::Ordering::Relaxed);
        if stop {
            return (count, false);
        }
        if count >= max_schedules {
            return (count, false);
        }
        // full choice vector of this run = prefix followed by zeros
        let mut full: Vec<u8> = prefix.clone();
        full.resize(branching.len(), 0);
        // find deepest position that can be incremented
        let mut pos = full.len();
        loop {
            if pos == 0 {
                return (count, true);
            }
            pos -= 1;
            if (full[pos] as usize) + 1 < branching[pos] as usize {
                full[pos] += 1;
                full.truncate(pos + 1);
                prefix = full;
                break;
            }
        }
    }
}
