use std::path::PathBuf;
use vh::driver::{finish, load_replay, CheckCtx, Tier};

fn usage() -> ! {
    eprintln!("usage: check <Cxx> [quick|thorough] [--seed N] [--replay FILE] [--list]");
    std::process::exit(2)
}

fn main() {
    vh::panics::install_quiet_hook();
    let args: Vec<String> = std::env::args().skip(1).collect();
    if args.is_empty() {
        usage();
    }
    let reg = vh::props::registry();
    if args[0] == "--list" {
        for p in &reg {
            println!("{}", p.meta.id);
        }
        return;
    }
    let prop = args[0].clone();
    let mut tier = match std::env::var("VERIF_TIER").ok().as_deref() {
        Some("thorough") => Tier::Thorough,
        _ => Tier::Quick,
    };
    let mut seed: u64 = std::env::var("VERIF_SEED")
        .ok()
        .and_then(|s| s.trim().parse::<i128>().ok())
        .map(|v| v as u64)
        .unwrap_or(1);
    let mut replay: Option<PathBuf> = None;
    let mut i = 1;
    while i < args.len() {
        match args[i].as_str() {
            "quick" | "--quick" => tier = Tier::Quick,
            "thorough" | "--thorough" => tier = Tier::Thorough,
            "--tier" => {
                i += 1;
                tier = match args.get(i).map(|s| s.as_str()) {
                    Some("thorough") => Tier::Thorough,
                    Some("quick") => Tier::Quick,
                    _ => usage(),
                };
            }
            "--seed" => {
                i += 1;
                seed = args.get(i).and_then(|s| s.parse().ok()).unwrap_or_else(|| usage());
            }
            "--replay" => {
                i += 1;
                replay = Some(PathBuf::from(args.get(i).cloned().unwrap_or_else(|| usage())));
            }
            _ => usage(),
        }
        i += 1;
    }
    let Some(entry) = reg.iter().find(|p| p.meta.id == prop) else {
        eprintln!("unknown property {prop}");
        std::process::exit(2);
    };
    if let Some(path) = replay {
        let ctx = CheckCtx::new(&prop, tier, seed, true);
        match load_replay(&path).and_then(|(sub, case)| (entry.replay)(&ctx, &sub, case)) {
            Ok(Some(v)) => {
                println!("violation detail: rule={} sig={} :: {}", v.rule, v.sig, v.detail);
                println!("VIOLATION property={} replay={}", prop, path.display());
                std::process::exit(1);
            }
            Ok(None) => {
                println!("OK property={prop} replay={} passes", path.display());
                std::process::exit(0);
            }
            Err(e) => {
                eprintln!("INFRA: {e}");
                std::process::exit(2);
            }
        }
    }
    let ctx = CheckCtx::new(&prop, tier, seed, false);
    let found = (entry.check)(&ctx);
    let code = finish(&ctx, entry.meta, found);
    std::process::exit(code);
}
