use std::path::PathBuf;
use vh::driver::{finish, load_replay, CheckCtx, Tier};

fn usage() -> ! {
    eprintln!("usage: check <Cxx> [quick|thorough] [--seed N] [--replay FILE] [--fuzz RUNS_PER_JOB] [--list]");
    std::process::exit(2)
}

fn main() {
    vh::panics::install_quiet_hook();
    let args: Vec<String> = std::env::args().skip(1).collect();
    if args.is_empty() {
        usage();
    }
    let reg = vh::props::registry();
    if args[0] == "--list" {
        for p in &reg {
            println!("{}", p.meta.id);
        }
        return;
    }
    let prop = args[0].clone();
    let mut tier = match std::env::var("VERIF_TIER").ok().as_deref() {
        Some("thorough") => Tier::Thorough,
        _ => Tier::Quick,
    };
    let mut seed: u64 = std::env::var("VERIF_SEED")
        .ok()
        .and_then(|s| s.trim().parse::<i128>().ok())
        .map(|v| v as u64)
        .unwrap_or(1);
    let mut replay: Option<PathBuf> = None;
    let mut fuzz_only: Option<u64> = None;
    let mut ship_child = false;
    let mut i = 1;
    while i < args.len() {
        match args[i].as_str() {
            "quick" | "--quick" => tier = Tier::Quick,
            "thorough" | "--thorough" => tier = Tier::Thorough,
            "--tier" => {
                i += 1;
                tier = match args.get(i).map(|s| s.as_str()) {
                    Some("thorough") => Tier::Thorough,
                    Some("quick") => Tier::Quick,
                    _ => usage(),
                };
            }
            "--seed" => {
                i += 1;
                seed = args.get(i).and_then(|s| s.parse().ok()).unwrap_or_else(|| usage());
            }
            "--fuzz" => {
                i += 1;
                fuzz_only = Some(args.get(i).and_then(|s| s.parse().ok()).unwrap_or_else(|| usage()));
            }
            "--ship-child" => ship_child = true,
            "--replay" => {
                i += 1;
                replay = Some(PathBuf::from(args.get(i).cloned().unwrap_or_else(|| usage())));
            }
            _ => usage(),
        }
        i += 1;
    }
    let Some(entry) = reg.iter().find(|p| p.meta.id == prop) else {
        eprintln!("unknown property {prop}");
        std::process::exit(2);
    };
    if ship_child {
        // verbose logging on: every `trace!` / `debug!` call site of calloop is enabled in this process
        vh::ship::install_all_levels_subscriber();
        // C20's second build profile (no overflow checks, no debug assertions); result goes to the parent on stdout
        // (strict only for the replay of one case: the search tolerates the open known findings like its parent does)
        let ctx = CheckCtx::new(&prop, tier, seed, vh::ship::child_replay_request().is_some());
        let code = if prop == "C20" {
            vh::props::c20::ship_child(&ctx)
        } else if let Some(hp) = vh::props::histprops::by_id(&prop) {
            vh::props::histprops::ship_child(&ctx, hp)
        } else if let Err(e) = vh::ship::child_profile_ok() {
            vh::ship::child_error(&e);
            2
        } else {
            // every other property: its own quick check (the modules leave out their schedule searches in this mode),
            // or the replay of one case
            let found = match vh::ship::child_replay_request() {
                Some((sub, case)) => match (entry.replay)(&ctx, &sub, case.clone()) {
                    Ok(Some(v)) => Some(vh::driver::Found { sub, violation: v, case, replay_path: None }),
                    Ok(None) => None,
                    Err(e) => {
                        vh::ship::child_error(&format!("bad replay case: {e}"));
                        std::process::exit(2);
                    }
                },
                None => (entry.check)(&ctx),
            };
            vh::ship::child_report(&ctx, found);
            0
        };
        std::process::exit(code);
    }
    if let Some(path) = replay {
        let ctx = CheckCtx::new(&prop, tier, seed, true);
        vh::driver::CONFIRMING.store(true, std::sync::atomic::Ordering::Relaxed);
        match load_replay(&path).and_then(|(sub, case)| if sub.starts_with("ship.") && prop != "C20" { vh::ship::replay(&ctx, &sub, &case) } else { (entry.replay)(&ctx, &sub, case) }) {
            Ok(Some(v)) => {
                println!("violation detail: rule={} sig={} :: {}", v.rule, v.sig, v.detail);
                println!("VIOLATION property={} replay={}", prop, path.display());
                std::process::exit(1);
            }
            Ok(None) => {
                println!("OK property={prop} replay={} passes", path.display());
                std::process::exit(0);
            }
            Err(e) => {
                eprintln!("INFRA: {e}");
                std::process::exit(2);
            }
        }
    }
    if prop != "C19" {
        vh::driver::start_hang_watchdog(&prop);
    }
    let ctx = CheckCtx::new(&prop, tier, seed, false);
    if let Some(runs) = fuzz_only {
        // development aid: only the libFuzzer campaign of this property (evidence is not written)
        let Some(f) = entry.fuzz else {
            eprintln!("property {prop} has no fuzzable sub-check");
            std::process::exit(2);
        };
        let subs = f(&ctx);
        match vh::fuzz::campaign(&ctx, &subs, runs, 16) {
            Some(found) => {
                let path = ctx.write_replay(&found);
                println!("violation detail: rule={} sig={} sub={} :: {}", found.violation.rule, found.violation.sig, found.sub, found.violation.detail);
                println!("VIOLATION property={} replay={}", prop, path.display());
                std::process::exit(1);
            }
            None => {
                println!("fuzz campaign: no violation; {}", ctx.col.sub_json("fuzz"));
                for m in ctx.infra.lock().unwrap().iter() {
                    eprintln!("INFRA: {m}");
                }
                std::process::exit(0);
            }
        }
    }
    let mut found = (entry.check)(&ctx);
    // properties that do not run the ship-profile sub-check themselves (C20 and the history properties do): their quick
    // check once more in the build without overflow checks and debug assertions (see ship.rs)
    if found.is_none() && prop != "C20" && vh::props::histprops::by_id(&prop).is_none() {
        found = vh::ship::check(&ctx, "the property's quick check (without its schedule searches) re-run in a build of harness + calloop with overflow-checks = false, debug-assertions = false");
    }
    let code = finish(&ctx, entry.meta, found);
    std::process::exit(code);
}
