//! Second build profile ("ship": overflow-checks = false, debug-assertions = false - what calloop's users ship).
//!
//! The main harness is built with overflow checks and debug assertions, which turns silent arithmetic slips inside
//! calloop into panics every property profits from. The price: behaviour that only exists in builds WITHOUT them (a
//! wrap-around that rustc's check used to catch, a side effect sitting inside a `debug_assert!`, `cfg(debug_assertions)`
//! code) is invisible there. `bin/check` therefore builds the harness a second time with cargo profile `ship`, and the
//! checks of C20 and of the history properties spawn that binary for a reduced number of cases of the same generators
//! and oracles. Parent and child talk through one `SHIP {json}` line on the child's stdout.

use crate::driver::{CheckCtx, Found, Violation};
use serde_json::{json, Value};

/// True in the child process.
pub fn is_child() -> bool {
    std::env::var("VERIF_SHIP_CHILD").is_ok()
}

fn overflow_checks_on() -> bool {
    std::panic::catch_unwind(|| {
        let x: u8 = std::hint::black_box(255);
        std::hint::black_box(x + std::hint::black_box(1))
    })
    .is_err()
}

/// Child side: refuse to run in a binary that was not built with the ship profile.
pub fn child_profile_ok() -> Result<(), String> {
    if overflow_checks_on() || cfg!(debug_assertions) {
        return Err("ship binary was built with overflow checks or debug assertions".into());
    }
    Ok(())
}

/// Child side: print the result line.
pub fn child_report(ctx: &CheckCtx, found: Option<Found>) {
    let viol = found.map(|f| json!({ "sub": f.sub, "rule": f.violation.rule, "sig": f.violation.sig, "detail": f.violation.detail, "case": f.case }));
    println!("SHIP {}", json!({ "evaluations": ctx.col.evaluations(), "distinct_nontrivial": ctx.col.distinct_nontrivial(), "violation": viol }));
}

pub fn child_error(msg: &str) {
    println!("SHIP {}", json!({ "error": msg }));
}

/// The replay request handed to the child, if any: (sub, case).
pub fn child_replay_request() -> Option<(String, Value)> {
    let s = std::env::var("VERIF_SHIP_REPLAY").ok()?;
    let v: Value = serde_json::from_str(&s).ok()?;
    Some((v["sub"].as_str().unwrap_or("").to_string(), v["case"].clone()))
}

pub struct ShipResult {
    pub stats: Value,
    /// (violation, sub as the parent files it: "ship.<sub>", case)
    pub violation: Option<(Violation, String, Value)>,
}

/// Parent side: run the ship binary for `ctx.prop`; `replay` = (sub without the "ship." prefix, case).
pub fn spawn(ctx: &CheckCtx, replay: Option<(&str, &Value)>) -> Result<ShipResult, String> {
    let exe = std::env::current_exe().map_err(|e| e.to_string())?;
    let bin = exe.parent().and_then(|p| p.parent()).map(|p| p.join("ship").join("check")).ok_or("no target dir")?;
    if !bin.exists() {
        return Err(format!("ship-profile binary {} not built (bin/check builds it)", bin.display()));
    }
    let mut cmd = std::process::Command::new(&bin);
    // history properties and C20 scale their child with the tier themselves; every other child is the quick check
    let tier = if ctx.prop == "C20" || crate::props::histprops::by_id(&ctx.prop).is_some() { ctx.tier.name() } else { "quick" };
    cmd.args([ctx.prop.as_str(), tier, "--seed", &ctx.seed.to_string(), "--ship-child"]);
    cmd.env("VERIF_SHIP_CHILD", "1");
    if let Some((sub, case)) = replay {
        cmd.env("VERIF_SHIP_REPLAY", json!({ "sub": sub, "case": case }).to_string());
    }
    let out = cmd.output().map_err(|e| format!("spawning {}: {e}", bin.display()))?;
    let text = String::from_utf8_lossy(&out.stdout);
    let line = text.lines().rev().find_map(|l| l.strip_prefix("SHIP ")).ok_or_else(|| format!("ship binary printed no result (status {:?})", out.status))?;
    let v: Value = serde_json::from_str(line).map_err(|e| e.to_string())?;
    if let Some(e) = v.get("error").and_then(|e| e.as_str()) {
        return Err(e.to_string());
    }
    let viol = &v["violation"];
    if viol.is_null() {
        return Ok(ShipResult { stats: v.clone(), violation: None });
    }
    let rule = viol["rule"].as_str().unwrap_or("ship");
    let vv = Violation::new(rule, format!("[build without overflow checks and debug assertions] {}", viol["detail"].as_str().unwrap_or("")))
        .with_sig(format!("{}/ship-profile", viol["sig"].as_str().unwrap_or(rule)));
    Ok(ShipResult { stats: v.clone(), violation: Some((vv, format!("ship.{}", viol["sub"].as_str().unwrap_or("case")), viol["case"].clone())) })
}

/// Parent side: the sub-check as the properties call it.
pub fn check(ctx: &CheckCtx, what: &str) -> Option<Found> {
    match spawn(ctx, None) {
        Err(e) => {
            ctx.infra_error(format!("{} ship-profile sub-check: {e}", ctx.prop));
            None
        }
        Ok(r) => {
            ctx.col.set_sub(
                "ship_profile",
                json!({ "what": what, "evaluations": r.stats["evaluations"], "distinct_nontrivial": r.stats["distinct_nontrivial"] }),
            );
            r.violation.map(|(violation, sub, case)| Found { sub, violation, case, replay_path: None })
        }
    }
}

/// Parent side: replay of a "ship.<sub>" failure.
pub fn replay(ctx: &CheckCtx, sub: &str, case: &Value) -> Result<Option<Violation>, String> {
    let inner = sub.strip_prefix("ship.").unwrap_or(sub);
    spawn(ctx, Some((inner, case))).map(|r| r.violation.map(|x| x.0))
}


/// A process-wide `tracing` subscriber that enables every level and discards everything. `tracing` evaluates the
/// arguments of `trace!` / `debug!` only for enabled call sites, so code that (by accident) does work inside a log macro
/// behaves differently as soon as an application turns verbose logging on. The second-profile child runs with it
/// installed; the parent (ordinary profile) without.
struct AllLevels;

impl tracing::Subscriber for AllLevels {
    fn enabled(&self, _: &tracing::Metadata<'_>) -> bool {
        true
    }
    fn new_span(&self, _: &tracing::span::Attributes<'_>) -> tracing::span::Id {
        tracing::span::Id::from_u64(1)
    }
    fn record(&self, _: &tracing::span::Id, _: &tracing::span::Record<'_>) {}
    fn record_follows_from(&self, _: &tracing::span::Id, _: &tracing::span::Id) {}
    fn event(&self, _: &tracing::Event<'_>) {}
    fn enter(&self, _: &tracing::span::Id) {}
    fn exit(&self, _: &tracing::span::Id) {}
}

pub fn install_all_levels_subscriber() {
    let _ = tracing::subscriber::set_global_default(AllLevels);
}
