#![no_main]
//! One libFuzzer target for every fuzzable property: VERIF_FUZZ_PROP selects the property, the first input
//! byte its sub-check, the remaining bytes are the choice sequence of that sub-check's proptest strategy.
//! The semantic oracle runs inside (vh::fuzz::fuzz_one).
use libfuzzer_sys::fuzz_target;

fuzz_target!(|data: &[u8]| {
    vh::fuzz::fuzz_one(data);
});
