#!/bin/bash
# usage: tools/seeds.sh "C01 C02 ..." "1 2 3" [tier]
PROPS="$1"; SEEDS="$2"; TIER="${3:-quick}"
cd "$(dirname "$0")/.."
for p in $PROPS; do
  for s in $SEEDS; do
    out=$(VERIF_SEED=$s ./.target/release/check $p $TIER 2>&1); code=$?
    if [ $code -ne 0 ]; then echo "== $p seed=$s exit=$code"; echo "$out" | tail -4; fi
  done
done
echo "seeds done"
