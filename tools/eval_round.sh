#!/bin/bash
# usage: tools/eval_round.sh <round-number> <suffix-letter> [Cxx ...]
# evaluates every finished seed of the round (/tmp/seed<round>_cXX/out/meta.json present, not yet stored) with
# eval_seed.sh against its own property; demos whose howto asks for the release profile are run with --release
R="$1"; SFX="$2"; shift 2
cd "$(dirname "$0")/.."
for i in $(seq -w 1 20); do
  out=/tmp/seed${R}_c$i/out
  [ -f "$out/meta.json" ] && [ -f "$out/patch.diff" ] || continue
  name=c${i}${SFX}
  ls -d seeded/${name}* >/dev/null 2>&1 && continue
  flags=""
  grep -qiE "\-\-release|release profile" "$out/demo_howto.txt" 2>/dev/null && flags="--release"
  DEMO_FLAGS="$flags" tools/eval_seed.sh "$out" "$name" "C$i" 2>&1 | grep -E "^DETECT|^demo|repo tests|SEED"
done
