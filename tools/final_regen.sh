#!/bin/bash
# Final regeneration on the clean tree: every quick check (writes evidence/), MANIFEST, DESIGN section 10, schema validation.
cd "$(dirname "$0")/.."
fail=0
for i in $(seq -w 1 20); do
  p=C$i
  out=$(bin/check $p quick 2>&1); code=$?
  echo "$p exit=$code $(echo "$out" | grep -E "^(OK|VIOLATION|INFRA)" | head -1)"
  [ $code -ne 0 ] && fail=1
done
python3 tools/gen_manifest.py >/dev/null
python3 tools/update_design.py
python3-vt - <<'PY'
import json, jsonschema, glob
m=json.load(open('/verif/MANIFEST.json')); jsonschema.validate(m, json.load(open('/root/.vp/MANIFEST.schema.json')))
es=json.load(open('/root/.vp/EVIDENCE.schema.json'))
for f in sorted(glob.glob('/verif/evidence/*.json')):
    jsonschema.validate(json.load(open(f)), es)
print("schemas ok:", len(m['checks']), "checks,", len(glob.glob('/verif/evidence/*.json')), "evidence files")
PY
echo "final_regen fail=$fail"
