#!/bin/bash
# usage: tools/run_mutant.sh <patch-file> <Cxx> [<Cyy> ...]
# Applies the patch to /repo's working tree, runs the quick checks, reverts. Prints one line per check.
PATCH="$(realpath "$1")"; shift
cd /repo || exit 2
if ! git diff --quiet; then echo "refusing: /repo working tree is dirty"; exit 2; fi
if ! git apply "$PATCH" 2>/tmp/apply.err; then echo "MUTANT $(basename $PATCH): does not apply: $(head -1 /tmp/apply.err)"; exit 2; fi
for p in "$@"; do
  t0=$(date +%s.%N)
  out=$(cd /verif && VERIF_DIR=/verif VERIF_MUTANT_RUN=1 bin/check $p quick 2>&1); code=$?
  t1=$(date +%s.%N)
  rule=$(echo "$out" | grep -o "rule=[A-Za-z0-9_.]*" | head -1)
  printf "MUTANT %-40s %s exit=%d %s (%.1fs)\n" "$(basename $PATCH .patch)" "$p" "$code" "$rule" "$(echo "$t1 - $t0" | bc)"
  if [ $code -eq 2 ]; then echo "$out" | tail -3; fi
done
git checkout -- . 
# violation replays written while a mutant was applied are not kept
cd /verif && git status --short replays | awk '$1=="??"{print $2}' | xargs -r rm -rf
