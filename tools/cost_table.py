#!/usr/bin/env python3
"""Builds the cost table of DESIGN.md section 8 from the quick evidence in /verif/evidence and the thorough runs
(vp run logs + the evidence files in their snapshots). usage: cost_table.py <run-dir> [<run-dir> ...]"""
import json, re, sys, os
runs = sys.argv[1:]
th = {}
for r in runs:
    log = os.path.join(r, "log") if os.path.exists(os.path.join(r, "log")) else None
    if not log:
        continue
    lines = open(log, errors="replace").read().splitlines()
    for k, line in enumerate(lines):
        m0 = re.match(r"== (C\d\d) exit=(\d+) (\d+)s :: (\S+)", line)
        m1 = re.match(r"\s+evaluations (\d+) distinct_nontrivial (\d+)", lines[k + 1]) if m0 and k + 1 < len(lines) else None
        if m0 and m1 and m0.group(2) == "0":
            class M:
                def __init__(s, a, b): s.a, s.b = a, b
                def group(s, i): return s.a.group(i) if i <= 4 else s.b.group(i - 4)
            m = M(m0, m1)
            p = m.group(1)
            ev = os.path.join(r, "verif", "evidence", p + ".json")
            fz = None
            try:
                fz = json.load(open(ev))["coverage"]["sub_checks"].get("fuzz")
            except Exception:
                pass
            th[p] = dict(exit=m.group(2), secs=int(m.group(3)), verdict=m.group(4), evals=int(m.group(5)), nontriv=int(m.group(6)), fuzz=fz)
print("| property | quick: evaluations (distinct non-trivial), wall | thorough: evaluations (distinct non-trivial), wall, of which libFuzzer |")
print("|---|---|---|")
for i in range(1, 21):
    p = f"C{i:02d}"
    try:
        q = json.load(open(f"/verif/evidence/{p}.json"))
        qs = f"{q['coverage']['evaluations']:,} ({q['coverage']['distinct_nontrivial']:,}), {q['wall_s']:.0f} s".replace(",", " ")
    except Exception as e:
        qs = "?"
    t = th.get(p)
    if t:
        f = t["fuzz"]
        fs = f", libFuzzer {f['executed_units']:,} units / {f['run_s']:.0f} s ({f['coverage_edges_max']} edges)".replace(",", " ") if f and f.get("status") == "ran" else ""
        ts = f"{t['evals']:,} ({t['nontriv']:,}), {t['secs']} s{fs}; exit {t['exit']}".replace(",", " ")
    else:
        ts = "not run in the final validation"
    print(f"| {p} | {qs} | {ts} |")
