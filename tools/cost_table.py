#!/usr/bin/env python3
"""Builds the cost table of DESIGN.md section 8 from the quick evidence in /verif/evidence and the thorough runs
(vp run logs + the evidence files in their snapshots). usage: cost_table.py <run-dir> [<run-dir> ...]"""
import json, re, sys, os
runs = sys.argv[1:]
th = {}
for r in runs:
    log = os.path.join(r, "log") if os.path.exists(os.path.join(r, "log")) else None
    if not log:
        continue
    for line in open(log, errors="replace"):
        m = re.match(r"== (C\d\d) exit=(\d+) (\d+)s :: (\S+) .*?evaluations=(\d+) distinct_nontrivial=(\d+)", line)
        if m:
            p = m.group(1)
            ev = os.path.join(r, "verif", "evidence", p + ".json")
            fz = None
            try:
                fz = json.load(open(ev))["coverage"]["sub_checks"].get("fuzz")
            except Exception:
                pass
            th[p] = dict(exit=m.group(2), secs=int(m.group(3)), verdict=m.group(4), evals=int(m.group(5)), nontriv=int(m.group(6)), fuzz=fz)
print("| property | quick: evaluations (distinct non-trivial), wall | thorough: evaluations (distinct non-trivial), wall, of which libFuzzer |")
print("|---|---|---|")
for i in range(1, 21):
    p = f"C{i:02d}"
    try:
        q = json.load(open(f"/verif/evidence/{p}.json"))
        qs = f"{q['coverage']['evaluations']:,} ({q['coverage']['distinct_nontrivial']:,}), {q['wall_s']:.0f} s".replace(",", " ")
    except Exception as e:
        qs = "?"
    t = th.get(p)
    if t:
        f = t["fuzz"]
        fs = f", libFuzzer {f['executed_units']:,} units / {f['run_s']:.0f} s ({f['coverage_edges_max']} edges)".replace(",", " ") if f and f.get("status") == "ran" else ""
        ts = f"{t['evals']:,} ({t['nontriv']:,}), {t['secs']} s{fs}; exit {t['exit']}".replace(",", " ")
    else:
        ts = "not run in the final validation"
    print(f"| {p} | {qs} | {ts} |")
