#!/usr/bin/env python3
"""mkmutant.py <name> <file-relative-to-/repo> <old> <new> [count]
Creates /verif/mutants/<name>.patch by replacing <old> with <new> in /repo (then reverting)."""
import sys, subprocess, os
name, rel, old, new = sys.argv[1:5]
REPO = os.environ.get("MUT_REPO", "/repo")
p = os.path.join(REPO, rel)
s = open(p).read()
n = s.count(old)
if n != 1:
    print(f"ERROR: pattern occurs {n} times in {rel}"); sys.exit(1)
open(p, "w").write(s.replace(old, new))
diff = subprocess.check_output(["git", "-C", REPO, "diff"], text=True)
subprocess.check_call(["git", "-C", REPO, "checkout", "--", rel])
OUTD = os.environ.get("MUT_OUT", "/verif/mutants")
os.makedirs(OUTD, exist_ok=True)
open(f"{OUTD}/{name}.patch", "w").write(diff)
print(f"wrote mutants/{name}.patch ({len(diff.splitlines())} lines)")
