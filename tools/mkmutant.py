#!/usr/bin/env python3
"""mkmutant.py <name> <file-relative-to-/repo> <old> <new> [count]
Creates /verif/mutants/<name>.patch by replacing <old> with <new> in /repo (then reverting)."""
import sys, subprocess, os
name, rel, old, new = sys.argv[1:5]
p = os.path.join("/repo", rel)
s = open(p).read()
n = s.count(old)
if n != 1:
    print(f"ERROR: pattern occurs {n} times in {rel}"); sys.exit(1)
open(p, "w").write(s.replace(old, new))
diff = subprocess.check_output(["git", "-C", "/repo", "diff"], text=True)
subprocess.check_call(["git", "-C", "/repo", "checkout", "--", rel])
os.makedirs("/verif/mutants", exist_ok=True)
open(f"/verif/mutants/{name}.patch", "w").write(diff)
print(f"wrote mutants/{name}.patch ({len(diff.splitlines())} lines)")
