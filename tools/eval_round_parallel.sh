#!/bin/bash
# usage: tools/eval_round_parallel.sh <round-number> <suffix-letter> <lanes> : like eval_round.sh, but the finished seeds of
# the round are spread over <lanes> parallel lanes, each with its own cargo target dirs (EVAL_LANE suffix in eval_seed.sh)
R="$1"; SFX="$2"; LANES="${3:-4}"
cd "$(dirname "$0")/.."
todo=()
for i in $(seq -w 1 20); do
  out=/tmp/seed${R}_c$i/out
  [ -f "$out/meta.json" ] && [ -f "$out/patch.diff" ] || continue
  ls -d seeded/c${i}${SFX}* >/dev/null 2>&1 && continue
  todo+=($i)
done
lane() {
  sleep $(( $1 * 4 ))
  k=$1; n=0
  for i in "${todo[@]}"; do
    n=$((n+1)); [ $((n % LANES)) -eq $((k % LANES)) ] || continue
    out=/tmp/seed${R}_c$i/out; flags=""
    grep -qiE "\-\-release|release profile" "$out/demo_howto.txt" 2>/dev/null && flags="--release"
    EVAL_LANE=_L$k DEMO_FLAGS="$flags" tools/eval_seed.sh "$out" "c${i}${SFX}" "C$i" 2>&1 | grep -E "^DETECT|^demo|repo tests|SEED"
  done
}
for k in $(seq 1 $LANES); do lane $k & done
wait
echo "round evaluated"
