#!/bin/bash
# usage: tools/eval_seed.sh <seed-out-dir> <name> <Cxx> [more props...]
# 1. confirms the seeded change in a scratch worktree (repo tests pass; demo fails with it, passes without)
# 2. stores it as /verif/seeded/<name>/ (patch.diff, demo.rs, demo_howto.txt, meta.json + confirmation log)
# 3. runs the given quick checks against it (patch applied to /repo, reverted straight afterwards)
OUT="$(realpath "$1")"; NAME="$2"; shift 2
W=/tmp/evalseed_$NAME
DEST=/verif/seeded/$NAME
mkdir -p "$DEST"
cp "$OUT"/patch.diff "$OUT"/meta.json "$DEST"/ 2>/dev/null
cp "$OUT"/demo.rs "$DEST"/ 2>/dev/null; cp "$OUT"/demo_howto.txt "$DEST"/ 2>/dev/null
LOG="$DEST/confirmation.txt"; : > "$LOG"
rm -rf "$W"; git -C /repo worktree add --detach "$W" >/dev/null 2>&1 || { echo "worktree failed"; exit 2; }
cd "$W"
if ! git apply "$DEST/patch.diff" 2>>"$LOG"; then echo "SEED $NAME: patch does not apply to current HEAD" | tee -a "$LOG"; cd /; git -C /repo worktree remove --force "$W"; exit 3; fi
export CARGO_TARGET_DIR=/tmp/evalseed_target${EVAL_LANE:-}
T=$(cargo test --workspace --no-fail-fast --offline 2>&1 | grep -E "^test result" | head -1)
echo "repo tests with change: $T" | tee -a "$LOG"
B=$(cargo build --offline --features "verif_hooks executor block_on signals stream futures-io" 2>&1 | grep -cE "^error")
echo "build with all features + hooks: errors=$B" | tee -a "$LOG"
if [ -f "$DEST/demo.rs" ] && grep -q "^fn main" "$DEST/demo.rs"; then
  cp "$DEST/demo.rs" examples/seed_demo.rs
  DW=$(timeout 300 cargo run --offline --features "executor block_on signals stream futures-io" --example seed_demo >/tmp/evalseed_demo${EVAL_LANE:-}.txt 2>&1; echo "exit=$?"; tail -2 /tmp/evalseed_demo${EVAL_LANE:-}.txt | tr '\n' ' ')
  echo "demo (example) WITH change: $DW" | tee -a "$LOG"
  git apply -R "$DEST/patch.diff"
  DO=$(timeout 300 cargo run --offline --features "executor block_on signals stream futures-io" --example seed_demo >/tmp/evalseed_demo${EVAL_LANE:-}.txt 2>&1; echo "exit=$?"; tail -2 /tmp/evalseed_demo${EVAL_LANE:-}.txt | tr '\n' ' ')
  echo "demo (example) WITHOUT change: $DO" | tee -a "$LOG"
elif [ -f "$DEST/demo.rs" ]; then
  cp "$DEST/demo.rs" tests/seed_demo.rs
  grep -q 'name = "seed_demo"' Cargo.toml || printf '\n[[test]]\nname = "seed_demo"\n' >> Cargo.toml
  grep -q 'harness = false' "$DEST/demo_howto.txt" 2>/dev/null && printf 'harness = false\n' >> Cargo.toml
  FEAT=$(grep -o 'required-features.*' "$DEST/demo_howto.txt" 2>/dev/null | head -1)
  DW=$(timeout 300 cargo test --offline $DEMO_FLAGS --features "executor block_on signals stream futures-io" --test seed_demo 2>&1 | grep -E "^test result|panicked|error\[|seed_demo: OK" | head -3 | tr '\n' ' ')
  echo "demo WITH change: $DW" | tee -a "$LOG"
  git apply -R "$DEST/patch.diff"
  DO=$(timeout 300 cargo test --offline $DEMO_FLAGS --features "executor block_on signals stream futures-io" --test seed_demo 2>&1 | grep -E "^test result|panicked|error\[|seed_demo: OK" | head -3 | tr '\n' ' ')
  echo "demo WITHOUT change: $DO" | tee -a "$LOG"
fi
cd /; git -C /repo worktree remove --force "$W"
# detection: in an isolated scratch copy (worktree of /repo with the patch applied + copy of /verif whose harness
# depends on that worktree, own target dir), so that /repo itself and background runs that build from it are not disturbed.
# ISOLATED=0 falls back to applying the patch to /repo itself (and reverting it straight afterwards).
if [ "${ISOLATED:-1}" = "1" ]; then
  S=/tmp/evalseed_iso_$NAME
  rm -rf $S; mkdir -p $S
  git -C /repo worktree prune
  git -C /repo worktree add --detach $S/repo >/dev/null 2>&1 || { echo "worktree failed"; exit 2; }
  ( cd $S/repo && git apply "$DEST/patch.diff" ) || { echo "patch does not apply"; git -C /repo worktree remove --force $S/repo; exit 3; }
  rsync -a --exclude .target --exclude .git --exclude seeded --exclude fuzz/target --exclude fuzz/corpus-work /verif/ $S/verif/
  sed -i "s#path = \"/repo\"#path = \"$S/repo\"#" $S/verif/harness/Cargo.toml
  for p in "$@"; do
    t0=$(date +%s.%N)
    out=$(cd $S/verif && VERIF_DIR=$S/verif CARGO_TARGET_DIR=/tmp/evalseed_iso_target${EVAL_LANE:-} flock /tmp/evalseed_iso${EVAL_LANE:-}.lock bin/check $p quick 2>&1); code=$?
    t1=$(date +%s.%N)
    rule=$(echo "$out" | grep -o "rule=[A-Za-z0-9_.]* sig=[^ ]*" | head -1)
    printf "DETECT %-28s %s exit=%d %s (%.1fs, isolated copy)\n" "$NAME" "$p" "$code" "$rule" "$(echo "$t1 - $t0" | bc)" | tee -a "$LOG"
    if [ $code -eq 2 ]; then echo "$out" | tail -3 | tee -a "$LOG"; fi
    # keep the shrunk replay of a miss-turned-hit for inspection
    mkdir -p /tmp/evalseed_replays/$NAME; cp $S/verif/replays/*/viol-*.json /tmp/evalseed_replays/$NAME/ 2>/dev/null
    rm -f $S/verif/replays/*/viol-*.json
  done
  cd /; git -C /repo worktree remove --force $S/repo; rm -rf $S
  exit 0
fi
# detection
cd /repo; if ! git diff --quiet; then echo "refusing detection: /repo dirty"; exit 2; fi
git apply "$DEST/patch.diff" || exit 3
for p in "$@"; do
  t0=$(date +%s.%N)
  out=$(cd /verif && bin/check $p quick 2>&1); code=$?
  t1=$(date +%s.%N)
  rule=$(echo "$out" | grep -o "rule=[A-Za-z0-9_.]* sig=[^ ]*" | head -1)
  printf "DETECT %-28s %s exit=%d %s (%.1fs)\n" "$NAME" "$p" "$code" "$rule" "$(echo "$t1 - $t0" | bc)" | tee -a "$LOG"
  if [ $code -eq 2 ]; then echo "$out" | tail -3 | tee -a "$LOG"; fi
done
git checkout -- .
cd /verif && git status --short replays | awk '$1=="??"{print $2}' | xargs -r rm -rf
