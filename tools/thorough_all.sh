#!/bin/bash
# Runs every thorough check once (sequentially); prints one line per property. For background use (vp run).
cd "$(dirname "$0")/.."
for p in ${1:-C20 C18 C13 C09 C14 C07 C08 C06 C01 C02 C05 C15 C16 C17 C19 C12 C03 C04 C10 C11}; do
  t0=$(date +%s)
  out=$(bin/check $p thorough 2>&1); code=$?
  t1=$(date +%s)
  echo "== $p exit=$code $((t1-t0))s :: $(echo "$out" | grep -E "^(OK|VIOLATION|INFRA|KNOWN)" | tr '\n' ' ' | cut -c1-400)"
  python3 - "$p" <<'PY'
import json,sys
p=sys.argv[1]
try:
    d=json.load(open(f'evidence/{p}.json'))
    c=d['coverage']
    f=c.get('sub',{}).get('fuzz') or c.get('fuzz') or {}
    print('   evaluations',c.get('evaluations'),'distinct_nontrivial',c.get('distinct_nontrivial'),'exhaustive',c.get('exhaustive'),'fuzz',{k:f.get(k) for k in ('status','executed_units','coverage_edges_max','violation_files','run_s')} if f else None)
except Exception as e:
    print('   no evidence',e)
PY
done
