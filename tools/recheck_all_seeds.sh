#!/bin/bash
# Re-runs the quick check of its own property against every stored seeded change (isolated copies, sequential).
cd "$(dirname "$0")/.."
for d in seeded/*/; do
  name=$(basename $d)
  prop=$(python3 -c "import json;print(json.load(open('$d/meta.json')).get('property','${name:0:3}'.upper()))")
  tools/recheck_seed.sh $name $prop | tail -1
done
