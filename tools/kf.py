#!/usr/bin/env python3
"""Maintains /verif/known_findings.json. Usage:
  kf.py fixed <id> <property> <commit> <replay> <what...>
  kf.py open  <id> <property> <signature> <replay> <what...>
"""
import json, sys, os
P = os.path.join(os.path.dirname(os.path.dirname(os.path.abspath(__file__))), "known_findings.json")
d = json.load(open(P)) if os.path.exists(P) else {"findings": []}
mode, fid, prop = sys.argv[1], sys.argv[2], sys.argv[3]
d["findings"] = [f for f in d["findings"] if f["id"] != fid]
if mode == "fixed":
    commit, replay, what = sys.argv[4], sys.argv[5], " ".join(sys.argv[6:])
    d["findings"].append({"id": fid, "property": prop, "status": "fixed", "commit": commit, "replay": replay, "what": what,
                          "line": f"fixed: property={prop} {commit} {what}"})
else:
    sig, replay, what = sys.argv[4], sys.argv[5], " ".join(sys.argv[6:])
    d["findings"].append({"id": fid, "property": prop, "status": "open", "signature": sig, "replay": replay, "what": what,
                          "line": f"KNOWN-FINDING: property={prop} {what}"})
d["findings"].sort(key=lambda f: (f["property"], f["id"]))
json.dump(d, open(P, "w"), indent=1)
print("known findings:", [(f["id"], f["status"]) for f in d["findings"]])
