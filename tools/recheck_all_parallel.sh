#!/bin/bash
# Re-runs the quick check of its own property against every stored seeded change in LANES parallel lanes; each lane has a
# fixed scratch worktree of /repo + copy of /verif + target dir (/tmp/recheck_lane_K), so builds stay incremental.
# usage: tools/recheck_all_parallel.sh [lanes=3] [name-pattern]; appends DETECT lines to each confirmation.txt
LANES="${1:-3}"; PAT="${2:-}"
cd "$(dirname "$0")/.."
names=$(ls seeded | grep -E "${PAT}" )
lane() {
  k=$1; S=/tmp/recheck_lane_$k
  rm -rf $S/repo $S/verif; mkdir -p $S
  git -C /repo worktree prune
  git -C /repo worktree add --detach $S/repo >/dev/null 2>&1 || { echo "lane $k: worktree failed"; return; }
  rsync -a --exclude .target --exclude .git --exclude seeded --exclude fuzz/target --exclude fuzz/corpus-work /verif/ $S/verif/
  sed -i "s#path = \"/repo\"#path = \"$S/repo\"#" $S/verif/harness/Cargo.toml
  i=0
  for name in $names; do
    i=$((i+1)); [ $((i % LANES)) -eq $((k % LANES)) ] || continue
    d=/verif/seeded/$name
    prop=$(python3 -c "import json;print(json.load(open('$d/meta.json')).get('property','${name:0:3}'.upper()))")
    ( cd $S/repo && git checkout -q -- . && git apply "$d/patch.diff" ) 2>/dev/null || { echo "DETECT $name $prop PATCH-DOES-NOT-APPLY" | tee -a $d/confirmation.txt; continue; }
    t0=$(date +%s.%N)
    out=$(cd $S/verif && VERIF_DIR=$S/verif CARGO_TARGET_DIR=$S/target bin/check $prop quick 2>&1); code=$?
    t1=$(date +%s.%N)
    rule=$(echo "$out" | grep -o "rule=[A-Za-z0-9_.]* sig=[^ ]*" | head -1)
    printf "DETECT %-28s %s exit=%d %s (%.1fs, lane copy, final re-check at %s)\n" "$name" "$prop" "$code" "$rule" "$(echo "$t1 - $t0" | bc)" "$(git -C /verif rev-parse --short HEAD)" | tee -a "$d/confirmation.txt"
    rm -f $S/verif/replays/*/viol-*.json
  done
  ( cd $S/repo && git checkout -q -- . ); cd /; git -C /repo worktree remove --force $S/repo; rm -rf $S
}
for k in $(seq 1 $LANES); do lane $k & done
wait
echo "recheck done"
