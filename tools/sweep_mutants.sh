#!/bin/bash
# Runs every mutant patch against the quick check of its property in an isolated scratch copy
# (scratch worktree of /repo + copy of /verif with its own target dir). Writes mutants/RESULTS.txt.
# usage: tools/sweep_mutants.sh [pattern] [scratch-name] ; SUITE=1 also runs the repository's own tests on each mutant
PAT="${1:-*}"
S=/tmp/${2:-msweep}
rm -rf $S; mkdir -p $S
git -C /repo worktree prune
git -C /repo worktree add --detach $S/repo >/dev/null 2>&1 || exit 2
rsync -a --exclude .target --exclude .git --exclude seeded /verif/ $S/verif/
sed -i "s#path = \"/repo\"#path = \"$S/repo\"#" $S/verif/harness/Cargo.toml
OUT=$S/RESULTS.txt; : > $OUT
for patch in $(for pat in $PAT; do ls /verif/mutants/${pat}.patch 2>/dev/null; done | sort -u); do
  name=$(basename $patch .patch)
  prop=$(echo $name | cut -c1-3 | tr 'c' 'C')
  cd $S/repo
  if ! git apply $patch 2>/dev/null; then echo "$name $prop DOES-NOT-APPLY" >> $OUT; continue; fi
  suite=""
  if [ -n "${SUITE:-}" ]; then
    r=$(CARGO_TARGET_DIR=$S/target-suite timeout 150 cargo test --workspace --no-fail-fast --offline 2>&1 | grep -E "^test result" | head -1 | grep -o "[0-9]* passed; [0-9]* failed")
    suite=" suite=[$r]"
  fi
  t0=$(date +%s)
  out=$(cd $S/verif && VERIF_DIR=$S/verif CARGO_TARGET_DIR=$S/target bin/check $prop quick 2>&1); code=$?
  t1=$(date +%s)
  rule=$(echo "$out" | grep -o "rule=[A-Za-z0-9_.]*" | head -1)
  echo "$name $prop exit=$code $rule $((t1-t0))s$suite" >> $OUT
  git checkout -- . 
  rm -rf $S/verif/replays/*/viol-*.json
done
cp $OUT /verif/mutants/RESULTS${2:+_$2}.txt
cd /; git -C /repo worktree remove --force $S/repo; rm -rf $S
echo sweep done
