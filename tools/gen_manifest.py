#!/usr/bin/env python3
"""Regenerates /verif/MANIFEST.json from the table below (single source of truth)."""
import json, os, subprocess, sys

HERE = os.path.dirname(os.path.dirname(os.path.abspath(__file__)))

# id -> (engine, level, technique, level_text, level_note, design_ref)
CHECKS = {
    "C20": ("pure", "exploration",
            "property-based testing (proptest) over (id,generation,sub) triples + bounded-exhaustive boundary planes + kernel epoll-table cross-check",
            "Random triples/pairs/raw keys (round trip, injectivity, field isolation, reserved key, bump/same_source laws), every generation x sub-id of 7 boundary slot indices (thorough: all 2^32 pairs per id; quick: sub-ids at stride 61), token factories up to and beyond 65536 requests, real loops with up to 131073 reuses of one slot compared with /proc fdinfo. Arithmetic over a finite domain: search plus enumeration is the natural level.",
            "trusts that the verif accessors are thin wrappers over TokenInner (hook commit) and that fdinfo reports epoll data faithfully; ids between boundary values are sampled, not enumerated",
            "DESIGN.md section 4 C20"),
}

NOT_YET = {
}

def main():
    props = [json.loads(l) for l in open(os.path.join(HERE, "properties.jsonl"))]
    ids = [p["id"] for p in props]
    repo_commits = []
    try:
        out = subprocess.check_output(["git", "-C", "/repo", "log", "--format=%H %s"], text=True)
        for line in out.splitlines():
            h, _, s = line.partition(" ")
            if "verif_hooks" in s or s.startswith("hooks:"):
                repo_commits.append(h)
    except Exception:
        pass
    checks = []
    for i in ids:
        if i not in CHECKS:
            continue
        engine, level, technique, text, note, ref = CHECKS[i]
        checks.append({
            "property_id": i,
            "quick_cmd": f"bin/check {i} quick",
            "thorough_cmd": f"bin/check {i} thorough",
            "evidence_file": f"/verif/evidence/{i}.json",
            "replay_cmd_template": f"bin/check {i} --replay {{path}}",
            "engine": engine,
            "level_claimed": {"category": level, "text": text, "design_ref": ref},
            "level_note": note,
            "technique": technique,
        })
    na = []
    for i in ids:
        if i not in CHECKS:
            na.append({"property_id": i, "reason": NOT_YET.get(i, "check not built yet in this round (work in progress; the design in DESIGN.md claims it) - no verdict is given for it")})
    manifest = {
        "version": 1,
        "setup_cmd": "cd /verif/harness && CARGO_NET_OFFLINE=true CARGO_TARGET_DIR=/verif/.target cargo build --release --offline",
        "hooks": {
            "guard": "cargo feature verif_hooks",
            "enable": "harness/Cargo.toml depends on calloop by path (/repo) with features verif_hooks executor block_on signals stream futures-io; every bin/check invocation runs cargo build, so the harness is rebuilt from /repo's working tree",
            "baseline_off_cmd": "cd /repo && cargo test --workspace --no-fail-fast --offline",
            "source_commits": repo_commits,
            "add_only": True,
        },
        "engines": [
            {"name": "pure", "path": "harness/src/props", "serves_properties": ["C20"], "kind_free_text": "proptest strategies over inputs + bounded-exhaustive enumeration, run from the check binary with a fixed seed"},
        ],
        "checks": checks,
        "notes": "All checks: exit 0 held / exit 1 + VIOLATION line / exit 2 infrastructure problem (never a violation). Known findings: /verif/known_findings.json. VERIF_SEED selects the proptest seed (default 1).",
        "not_applicable": na,
    }
    json.dump(manifest, open(os.path.join(HERE, "MANIFEST.json"), "w"), indent=1)
    print("wrote MANIFEST.json:", len(checks), "checks,", len(na), "not claimed")

if __name__ == "__main__":
    main()
